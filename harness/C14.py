"""C14 - finite-group tables are groups; partition and tableau counts are exact."""
import itertools
import math
import random
import numpy as np
import numqi
import numqi.group as G
from symnp import ir, scalars as S
from . import common as H

W = 8   # element index width (orders <= 120)


def lookup1(vals, idx, w, vw):
    """vals[idx] for a symbolic idx (BV of width w); values as BV constants of width vw"""
    if isinstance(idx, int):
        return ir.bvconst(int(vals[idx]), vw)
    r = ir.bvconst(int(vals[-1]), vw)
    for k in range(len(vals) - 2, -1, -1):
        r = ir.rite(ir.bvcmp('eq', idx, ir.bvconst(k, w)), ir.bvconst(int(vals[k]), vw), r)
    return r


def lookup2(T, a, b, w=W, vw=W):
    if isinstance(a, int):
        return lookup1(T[a], b, w, vw)
    rows = [lookup1(T[i], b, w, vw) for i in range(len(T))]
    r = rows[-1]
    for k in range(len(T) - 2, -1, -1):
        r = ir.rite(ir.bvcmp('eq', a, ir.bvconst(k, w)), rows[k], r)
    return r


def lookup_sym(nodes, idx, w):
    """nodes[idx] where nodes are BV terms"""
    if isinstance(idx, int):
        return nodes[idx]
    r = nodes[-1]
    for k in range(len(nodes) - 2, -1, -1):
        r = ir.rite(ir.bvcmp('eq', idx, ir.bvconst(k, w)), nodes[k], r)
    return r


def elem(name, N):
    v = ir.bvvar(name, W)
    return v, ir.bvcmp('bvult', v, ir.bvconst(N, W))


def tables(quick):
    out = [('klein', G.get_klein_four_group_cayley_table), ('quaternion', G.get_quaternion_cayley_table)]
    for n in (2, 3, 4):
        out.append((f'S{n}', lambda n=n: G.get_symmetric_group_cayley_table(n)))
    for n in (3, 4):
        out.append((f'A{n}', lambda n=n: G.get_symmetric_group_cayley_table(n, alternating=True)))
    for n in range(3, 13):
        out.append((f'D{n}', lambda n=n: G.get_dihedral_group_cayley_table(n)))
    for n in range(2, 13):
        out.append((f'C{n}', lambda n=n: G.get_cyclic_group_cayley_table(n)))
    for n in range(3, 25):
        out.append((f'Zx{n}', lambda n=n: G.get_multiplicative_group_cayley_table(n)))
    if not quick:
        out.append(('A5', lambda: G.get_symmetric_group_cayley_table(5, alternating=True)))
        out.append(('S5', lambda: G.get_symmetric_group_cayley_table(5)))
    return out


EXPECTED_ORDER = {'klein': 4, 'quaternion': 8, 'S2': 2, 'S3': 6, 'S4': 24, 'S5': 120, 'A3': 3, 'A4': 12, 'A5': 60}


def expected_order(name):
    if name in EXPECTED_ORDER:
        return EXPECTED_ORDER[name]
    if name[0] == 'D':
        return 2 * int(name[1:])
    if name[0] == 'C':
        return int(name[1:])
    n = int(name[2:])
    return sum(1 for x in range(1, n) if math.gcd(x, n) == 1)


def get_table(name):
    for nm, f in tables(False):
        if nm == name:
            return np.asarray(f())
    raise KeyError(name)


# ---------------------------------------------------------------- replay (concrete re-check of the axiom at the model's elements)
def replay(p):
    what = p['what']
    if what == 'group':
        T = get_table(p['table'])
        N = len(T)
        a, b, c = (int(p.get(k, 0)) % max(N, 1) for k in 'abc')
        ax = p['axiom']
        if T.shape != (N, N) or N != expected_order(p['table']) or T.min() < 0 or T.max() >= N:
            return True, f"{p['table']}: table has shape {T.shape}, entries in [{T.min()},{T.max()}], expected order {expected_order(p['table'])}"
        if ax == 'assoc':
            return (T[T[a, b], c] != T[a, T[b, c]]), f"{p['table']}: (a b) c != a (b c) for a,b,c={a},{b},{c}"
        ident = [e for e in range(N) if all(T[e, x] == x and T[x, e] == x for x in range(N))]
        if ax == 'identity':
            return (len(ident) != 1), f"{p['table']}: no two-sided identity"
        if ax == 'inverse':
            e = ident[0] if ident else -1
            return (not any(T[a, x] == e and T[x, a] == e for x in range(N))), f"{p['table']}: element {a} has no two-sided inverse"
        if ax == 'latin':
            bad = (b != c) and (T[a, b] == T[a, c] or T[b, a] == T[c, a])
            return bad, f"{p['table']}: row/column {a} is not a permutation (b,c={b},{c})"
        if ax == 'regular':
            L = G.cayley_table_to_left_regular_form(T)
            ok = all(L[a, i, k] == (1 if i == T[a, k] else 0) for i in range(N) for k in range(N))
            ok &= np.array_equal(L[a] @ L[b], L[T[a, b]]) and (a == b or not np.array_equal(L[a], L[b]))
            return (not ok), f"{p['table']}: left regular form is not a faithful homomorphism at a,b={a},{b}"
    if what == 'partition':
        N = p['N']
        cnt, z0 = G.get_sym_group_num_irrep(N, return_full=True)
        ref = [[0] * (N + 1) for _ in range(N + 1)]
        for n in range(N + 1):
            for m in range(1, N + 1):
                ref[n][m] = 1 if (n == 0 or m == 1) else ref[n][m - 1] + (ref[n - m][m] if n >= m else 0)
        bad = any(int(z0[n, m]) != ref[n][m] for n in range(N + 1) for m in range(1, N + 1)) or cnt != ref[N][N] or G.get_sym_group_num_irrep(N) != ref[N][N]
        return bad, f'partition table / count for N={N} differs from the recurrence'
    if what == 'young':
        N = p['N']
        Y = np.asarray(G.get_sym_group_young_diagram(N))
        rows = [tuple(int(x) for x in r) for r in Y]
        want = set()

        def gen(rem, mx, cur):
            if rem == 0:
                want.add(tuple(cur + [0] * (N - len(cur))))
                return
            for k in range(min(rem, mx), 0, -1):
                gen(rem - k, k, cur + [k])
        gen(N, N, [])
        return (set(rows) != want or len(rows) != len(want)), f'get_sym_group_young_diagram({N}) is not exactly the set of partitions'
    if what == 'tableaux':
        shape = tuple(p['shape'])
        try:
            Tb = np.asarray(G.get_all_young_tableaux(shape))
        except Exception as e:
            return True, f'get_all_young_tableaux({shape}) raises {type(e).__name__}: {e}'
        n = sum(shape)
        cells = [(r, c) for r in range(len(shape)) for c in range(shape[r])]
        seen = set()
        bad = False
        for t in Tb:
            vals = [int(t[r, c]) for r, c in cells]
            bad |= sorted(vals) != list(range(n))
            bad |= any(t[r, c] >= t[r, c + 1] for r, c in cells if c + 1 < shape[r])
            bad |= any(t[r, c] >= t[r + 1, c] for r, c in cells if r + 1 < len(shape) and c < shape[r + 1])
            seen.add(tuple(vals))
        bad |= len(seen) != len(Tb) or len(Tb) != G.get_hook_length(*shape) or len(Tb) != hook_ref(shape)
        return bad, f'get_all_young_tableaux({shape}): not the set of standard tableaux / hook-length count'
    raise ValueError(what)


def hook_ref(shape):
    n = sum(shape)
    prod = 1
    for r, row in enumerate(shape):
        for c in range(row):
            arm = row - c - 1
            leg = sum(1 for r2 in range(r + 1, len(shape)) if shape[r2] > c)
            prod *= arm + leg + 1
    return math.factorial(n) // prod


def partitions(n):
    out = []

    def gen(rem, mx, cur):
        if rem == 0:
            out.append(tuple(cur))
            return
        for k in range(min(rem, mx), 0, -1):
            gen(rem - k, k, cur + [k])
    gen(n, n, [])
    return out


REPLAYERS = {'c14': replay}


def run(chk):
    quick = chk.tier == 'quick'
    chk.fn('numqi.group.get_symmetric_group_cayley_table', 'numqi.group.get_dihedral_group_cayley_table', 'numqi.group.get_cyclic_group_cayley_table',
           'numqi.group.get_multiplicative_group_cayley_table', 'numqi.group.get_klein_four_group_cayley_table', 'numqi.group.get_quaternion_cayley_table',
           'numqi.group.cayley_table_to_left_regular_form', 'numqi.group.get_sym_group_num_irrep', 'numqi.group.get_sym_group_young_diagram',
           'numqi.group.get_all_young_tableaux', 'numqi.group.get_hook_length')
    chk.register_replayer('c14', replay)
    chk.out_of_claim('reduce_group_representation, characters, unitarity / dimension sum of irreducible blocks (eigen-decompositions); tables of order > 120')
    Nrec = 30 if quick else 60
    Nyoung = 7 if quick else 10
    Ntab = 6 if quick else 8
    chk.bound(tables='S2..S4, A3, A4, D3..D12, C2..C12, (Z/n)* n<=24, Klein, quaternion' + ('' if quick else ', A5, S5 (first element case-split over workers)'),
              elements='symbolic (8-bit, constrained below the order): one query per axiom per table', partition_recurrence_N=Nrec, young_diagram_N=Nyoung, tableaux_N=Ntab)
    chk.assume('the tables/lists are produced by running the real constructors (their only input is a size); the solver decides the quantified axioms over symbolic elements of the loaded table')
    for name, ctor in tables(quick):
        try:
            T = np.asarray(ctor())
        except Exception as e:
            chk.report_reproduced(f'{name}: shape/order', f'constructor of {name} raises {type(e).__name__}: {e}', {'what': 'group', 'table': name, 'axiom': 'assoc'}, 'c14')
            continue
        N = len(T)
        chk.configurations += 1
        rpg = lambda ax: ('c14', lambda m, name=name, ax=ax: {'what': 'group', 'table': name, 'axiom': ax, 'a': int(m.get('a', 0)), 'b': int(m.get('b', 0)), 'c': int(m.get('c', 0))})
        shape_ok = T.ndim == 2 and T.shape == (N, N) and N == expected_order(name) and T.dtype == np.int64 and int(T.min()) >= 0 and int(T.max()) < 2 ** W
        chk.add(f'{name}: table is {expected_order(name)}x{expected_order(name)} int64', [], ir.bconst(bool(shape_ok)), key=f'{name}: shape/order', replay=rpg('assoc'))
        if not shape_ok:
            continue
        Tl = [[int(x) for x in row] for row in T]
        a, ca = elem('a', N)
        b, cb = elem('b', N)
        c, cc = elem('c', N)
        split = N > 30
        avals = list(range(N)) if split else [a]
        for av in avals:
            pre = ([] if split else [ca]) + [cb, cc]
            tag = f'[a={av}]' if split else ''
            ab = lookup2(Tl, av, b)
            bc = lookup2(Tl, b, c)
            # closure
            chk.add(f'{name}: closed (a.b < order){tag}', pre, ir.bvcmp('bvult', ab, ir.bvconst(N, W)), key=f'{name}: not closed', replay=rpg('assoc'))
            # associativity: T[T[a,b],c] == T[a,T[b,c]]
            lhs = lookup2(Tl, ab, c)
            rhs = lookup1(Tl[av], bc, W, W) if split else lookup2(Tl, a, bc)
            chk.add(f'{name}: associative{tag}', pre, ir.bvcmp('eq', lhs, rhs), key=f'{name}: not associative', replay=rpg('assoc'))
            # latin square: rows and columns are permutations
            ac = lookup2(Tl, av, c)
            ba = lookup2(Tl, b, av)
            ca_ = lookup2(Tl, c, av)
            latin = ir.bor(ir.bvcmp('eq', b, c), ir.band(ir.bnot(ir.bvcmp('eq', ab, ac)), ir.bnot(ir.bvcmp('eq', ba, ca_))))
            chk.add(f'{name}: every row and column is a permutation{tag}', pre, latin, key=f'{name}: not a latin square', replay=rpg('latin'))
        # identity (witness read off the table), inverses (Skolem function read off the table)
        ident = [e for e in range(N) if all(Tl[e][x] == x for x in range(N))]
        if not ident:
            chk.add(f'{name}: has a two-sided identity', [], ir.FALSE, key=f'{name}: no identity', replay=rpg('identity'))
            continue
        e = ident[0]
        chk.add(f'{name}: e={e} is a two-sided identity for every a', [ca], ir.band(ir.bvcmp('eq', lookup1(Tl[e], a, W, W), a), ir.bvcmp('eq', lookup2(Tl, a, e), a)),
                key=f'{name}: no identity', replay=rpg('identity'))
        inv = []
        for x in range(N):
            cand = [y for y in range(N) if Tl[x][y] == e]
            inv.append(cand[0] if cand else 0)
        ia = lookup1(inv, a, W, W)
        chk.add(f'{name}: every a has a two-sided inverse', [ca], ir.band(ir.bvcmp('eq', lookup2(Tl, a, ia), ir.bvconst(e, W)), ir.bvcmp('eq', lookup2(Tl, ia, a), ir.bvconst(e, W))),
                key=f'{name}: no inverses', replay=rpg('inverse'))
        # left regular form: L[a][i,k] = [i == a.k]; homomorphism and faithfulness on the matrices themselves for small orders
        L = np.asarray(G.cayley_table_to_left_regular_form(T))
        if N <= 24 and L.shape == (N, N, N):
            i_, ci = elem('i', N)
            k_, ck = elem('k', N)
            flat = [int(x) for x in L.reshape(-1)]
            idx = ir.bvbin('bvadd', ir.bvbin('bvmul', ir.bvbin('bvadd', ir.bvbin('bvmul', ir.bvext(a, 16, False), ir.bvconst(N, 16)), ir.bvext(i_, 16, False)), ir.bvconst(N, 16)), ir.bvext(k_, 16, False))
            Laik = lookup1(flat, idx, 16, 2)
            want = ir.rite(ir.bvcmp('eq', i_, lookup2(Tl, a, k_)), ir.bvconst(1, 2), ir.bvconst(0, 2))
            chk.add(f'{name}: left regular form L[a][i,k] == [i == a.k]', [ca, ci, ck], ir.bvcmp('eq', Laik, want), key=f'{name}: left regular form', replay=rpg('regular'))
        elif L.shape != (N, N, N):
            chk.add(f'{name}: left regular form has shape (N,N,N)', [], ir.FALSE, key=f'{name}: left regular form', replay=rpg('regular'))
        if N <= 8:
            # (L[a] L[b])[i,j] == L[a.b][i,j] with everything symbolic; a != b => L[a] != L[b]
            i_, ci = elem('i', N)
            j_, cj = elem('j', N)

            def Lget(x, r, c_):
                flat = [int(v) for v in L.reshape(-1)]
                xi = x if not isinstance(x, int) else ir.bvconst(x, W)
                ri = r if not isinstance(r, int) else ir.bvconst(r, W)
                ci_ = c_ if not isinstance(c_, int) else ir.bvconst(c_, W)
                idx = ir.bvbin('bvadd', ir.bvbin('bvmul', ir.bvbin('bvadd', ir.bvbin('bvmul', ir.bvext(xi, 16, False), ir.bvconst(N, 16)), ir.bvext(ri, 16, False)), ir.bvconst(N, 16)), ir.bvext(ci_, 16, False))
                return lookup1(flat, idx, 16, 8)
            acc = ir.bvconst(0, 8)
            for kk in range(N):
                acc = ir.bvbin('bvadd', acc, ir.bvbin('bvmul', Lget(a, i_, kk), Lget(b, kk, j_)))
            chk.add(f'{name}: L[a] L[b] == L[a.b] entry-wise', [ca, cb, ci, cj], ir.bvcmp('eq', acc, Lget(lookup2(Tl, a, b), i_, j_)), key=f'{name}: left regular form not a homomorphism', replay=rpg('regular'))
            differs = ir.bor_all(ir.bnot(ir.bvcmp('eq', Lget(a, r, c_), Lget(b, r, c_))) for r in range(N) for c_ in range(N))
            chk.add(f'{name}: left regular form faithful (a != b => L[a] != L[b])', [ca, cb], ir.bor(ir.bvcmp('eq', a, b), differs), key=f'{name}: left regular form not faithful', replay=rpg('regular'))
    # ---- partition numbers: the DP table satisfies the defining recurrence at every symbolic (n,m)
    for N in sorted({4, 5, 10, Nrec}):
        chk.configurations += 1
        cnt, z0 = G.get_sym_group_num_irrep(N, return_full=True)
        z0 = np.asarray(z0)
        rp = ('c14', {'what': 'partition', 'N': N})
        ok = z0.shape == (N + 1, N + 1) and int(cnt) == int(z0[N, N]) and int(G.get_sym_group_num_irrep(N)) == int(cnt)
        chk.add(f'partition table N={N}: shape and count == table[N,N]', [], ir.bconst(bool(ok)), key='partition count', replay=rp)
        if not ok:
            continue
        VW = 32
        Z = [[int(x) for x in row] for row in z0]
        n = ir.bvvar('pn', W)
        m = ir.bvvar('pm', W)
        pre = [ir.bvcmp('bvule', n, ir.bvconst(N, W)), ir.bvcmp('bvule', m, ir.bvconst(N, W)), ir.bvcmp('bvule', ir.bvconst(1, W), m)]
        p_nm = lookup2(Z, n, m, W, VW)
        p_nm1 = lookup2(Z, n, ir.bvbin('bvsub', m, ir.bvconst(1, W)), W, VW)
        p_nmm = lookup2(Z, ir.bvbin('bvsub', n, m), m, W, VW)
        n0 = ir.bvcmp('eq', n, ir.bvconst(0, W))
        m1 = ir.bvcmp('eq', m, ir.bvconst(1, W))
        rec = ir.bvbin('bvadd', p_nm1, ir.rite(ir.bvcmp('bvule', m, n), p_nmm, ir.bvconst(0, VW)))
        claim = ir.rite(ir.bor(n0, m1), ir.bvcmp('eq', p_nm, ir.bvconst(1, VW)), ir.bvcmp('eq', p_nm, rec))
        chk.add(f'partition table N={N}: p(n,m) = p(n,m-1) + [n>=m] p(n-m,m), p(0,m)=p(n,1)=1 at every (n,m)', pre, claim, key='partition recurrence', replay=rp)
        chk.add(f'reach partition N={N}', pre, ir.TRUE, kind='reach')
    # ---- Young diagrams: a symbolic non-increasing vector summing to N equals exactly one listed row
    for N in range(1, Nyoung + 1):
        chk.configurations += 1
        rp = ('c14', {'what': 'young', 'N': N})
        try:
            Y = np.asarray(G.get_sym_group_young_diagram(N))
        except Exception as e:
            chk.report_reproduced('young diagram list', f'get_sym_group_young_diagram({N}) raises {type(e).__name__}: {e}', {'what': 'young', 'N': N}, 'c14')
            continue
        if Y.ndim != 2 or Y.shape[1] != N:
            chk.add(f'young diagrams N={N}: shape', [], ir.FALSE, key='young diagram list', replay=rp)
            continue
        v = [ir.bvvar(f'y{i}', W) for i in range(N)]
        pre = [ir.bvcmp('bvule', x, ir.bvconst(N, W)) for x in v]
        pre += [ir.bvcmp('bvule', v[i + 1], v[i]) for i in range(N - 1)]
        tot = ir.bvconst(0, W)
        for x in v:
            tot = ir.bvbin('bvadd', tot, x)
        pre.append(ir.bvcmp('eq', tot, ir.bvconst(N, W)))
        hits = [ir.band_all(ir.bvcmp('eq', v[i], ir.bvconst(int(r[i]), W)) for i in range(N)) for r in Y]
        one = ir.band(ir.bor_all(hits), ir.band_all(ir.bnot(ir.band(hits[i], hits[j])) for i in range(len(hits)) for j in range(i + 1, len(hits))))
        valid_rows = all(list(r) == sorted(r, reverse=True) and sum(r) == N and min(r) >= 0 for r in Y.tolist())
        cnt = int(G.get_sym_group_num_irrep(N))
        chk.add(f'young diagrams N={N}: every partition of N is listed exactly once; rows are partitions; #rows == #irreps', pre,
                ir.band(one, ir.bconst(valid_rows and len(Y) == cnt)), key='young diagram list', replay=rp)
        chk.add(f'reach young N={N}', pre, ir.TRUE, kind='reach')
    # ---- standard Young tableaux of every shape
    for N in range(1, Ntab + 1):
        for shape in partitions(N):
            chk.configurations += 1
            rp = ('c14', {'what': 'tableaux', 'shape': list(shape)})
            try:
                Tb = np.asarray(G.get_all_young_tableaux(shape))
            except Exception as e:
                chk.report_reproduced('young tableaux', f'get_all_young_tableaux({shape}) raises {type(e).__name__}: {e}', {'what': 'tableaux', 'shape': list(shape)}, 'c14')
                continue
            cells = [(r, c) for r in range(len(shape)) for c in range(shape[r])]
            if Tb.ndim != 3 or Tb.shape[1:] != (len(shape), shape[0]):
                chk.add(f'tableaux {shape}: shape', [], ir.FALSE, key='young tableaux', replay=rp)
                continue
            f = {cell: ir.bvvar(f't{cell[0]}_{cell[1]}', W) for cell in cells}
            pre = [ir.bvcmp('bvult', f[cell], ir.bvconst(N, W)) for cell in cells]
            pre += [ir.bvcmp('bvult', f[(r, c)], f[(r, c + 1)]) for r, c in cells if c + 1 < shape[r]]
            pre += [ir.bvcmp('bvult', f[(r, c)], f[(r + 1, c)]) for r, c in cells if r + 1 < len(shape) and c < shape[r + 1]]
            pre += [ir.bnot(ir.bvcmp('eq', f[x], f[y])) for x, y in itertools.combinations(cells, 2)]
            hits = [ir.band_all(ir.bvcmp('eq', f[cell], ir.bvconst(int(t[cell]), W)) for cell in cells) for t in Tb]
            one = ir.band(ir.bor_all(hits), ir.band_all(ir.bnot(ir.band(hits[i], hits[j])) for i in range(len(hits)) for j in range(i + 1, len(hits))))
            # every listed tableau is standard (ground), count == hook length (real function and independent formula)
            std = True
            for t in Tb:
                vals = [int(t[cell]) for cell in cells]
                std &= sorted(vals) == list(range(N))
                std &= all(t[r, c] < t[r, c + 1] for r, c in cells if c + 1 < shape[r])
                std &= all(t[r, c] < t[r + 1, c] for r, c in cells if r + 1 < len(shape) and c < shape[r + 1])
            cnt_ok = len(Tb) == int(G.get_hook_length(*shape)) == hook_ref(shape)
            chk.add(f'tableaux {shape}: every standard filling is listed exactly once; all listed are standard; count == hook-length formula', pre,
                    ir.band(one, ir.bconst(bool(std and cnt_ok))), key='young tableaux', replay=rp)
            chk.add(f'reach tableaux {shape}', pre, ir.TRUE, kind='reach')
    chk.solve(timeout_s=120 if quick else 900)
