"""C15 - SU(2)/SO(3) conversions are consistent for every rotation, gimbal lock included."""
import itertools
import math
import random
import numpy as np
import numqi
import numqi.group._lie as L
from symnp import ir, scalars as S, arrays as A, facade
from symnp.scalars import SC
from . import common as H

TOL = 1e-8


def unit_su2(tag):
    a, b = S.sc_var(tag + 'a', True), S.sc_var(tag + 'b', True)
    U = A.sym_array([[a, b], [-(b.conjugate()), a.conjugate()]], np.complex128)
    return U, H.eq_sc(a.real * a.real + a.imag * a.imag + b.real * b.real + b.imag * b.imag, 1), a, b


def mm(X, Y):
    return np.dot(A.plain(X), A.plain(Y))


def dagger(X):
    X = A.plain(X)
    out = np.empty(X.shape[::-1], dtype=object)
    for i in range(X.shape[0]):
        for j in range(X.shape[1]):
            out[j, i] = S.as_sc(X[i, j]).conjugate()
    return out


def eqs(X, Y):
    xs, ys = H.elems(X), H.elems(Y)
    assert len(xs) == len(ys)
    return ir.band_all(H.eq_sc(a, b) for a, b in zip(xs, ys))


def det3(M):
    from .C01 import det_small
    return det_small(M)


# ---------------------------------------------------------------- replay
def replay(p):
    what = p['what']
    if what == 'hom':
        U1, U2 = H.from_payload_cx(p, 'U1'), H.from_payload_cx(p, 'U2')
        for U in (U1, U2):
            n = np.sqrt(abs(U[0, 0]) ** 2 + abs(U[0, 1]) ** 2)
            if n < 1e-9:
                return False, 'degenerate model'
            U /= n
        R12 = L.su2_to_so3(U1 @ U2)
        bad = not H.close(R12, L.su2_to_so3(U1) @ L.su2_to_so3(U2), TOL)
        R = L.su2_to_so3(U1)
        bad |= not H.close(L.su2_to_so3(-U1), R, TOL)
        bad |= not H.close(R @ R.T, np.eye(3), TOL) or abs(np.linalg.det(R) - 1) > TOL
        return bad, 'su2_to_so3 is not the two-to-one homomorphism onto SO(3)'
    if what in ('so3_rt', 'su2_rt', 'ang'):
        al, be, ga = p['alpha'], p['beta'], p['gamma']
        if what == 'ang':
            R = L.angle_to_so3(al, be, ga)
            U = L.angle_to_su2(al, be, ga)
            bad = not H.close(R @ R.T, np.eye(3), TOL) or abs(np.linalg.det(R) - 1) > TOL
            bad |= not H.close(U @ U.conj().T, np.eye(2), TOL) or abs(np.linalg.det(U) - 1) > TOL
            bad |= not H.close(L.su2_to_so3(U), R, TOL)
            return bad, f'angle_to_so3/angle_to_su2 inconsistent at ({al},{be},{ga})'
        if what == 'so3_rt':
            R = L.angle_to_so3(al, be, ga)
            try:
                back = L.angle_to_so3(*L.so3_to_angle(R))
            except Exception as e:
                return True, f'so3_to_angle raises {type(e).__name__}: {e} at angles ({al},{be},{ga})'
            err = float(np.abs(back - R).max())
            return (err > TOL), f'angle_to_so3(so3_to_angle(R)) != R for R=R(alpha={al:.6g}, beta={be:.6g}, gamma={ga:.6g}): error {err:.3g}'
        U = L.angle_to_su2(al, be, ga)
        try:
            back = L.angle_to_su2(*L.su2_to_angle(U))
        except Exception as e:
            return True, f'su2_to_angle raises {type(e).__name__}: {e} at angles ({al},{be},{ga})'
        err = min(float(np.abs(back - U).max()), float(np.abs(back + U).max()))
        return (err > TOL), f'angle_to_su2(su2_to_angle(U)) != +-U for U=U(alpha={al:.6g}, beta={be:.6g}, gamma={ga:.6g}): error {err:.3g}'
    if what in ('so3_rt_exact', 'su2_rt_exact'):
        X = H.from_payload_cx(p, 'X')
        if what == 'so3_rt_exact':
            X = X.real
            if np.abs(X @ X.T - np.eye(3)).max() > 1e-9:
                return False, 'model matrix is not orthogonal (algebraic model values were approximated)'
            try:
                back = L.angle_to_so3(*L.so3_to_angle(X))
            except Exception as e:
                return True, f'so3_to_angle raises {type(e).__name__}: {e} on R={np.round(X, 6).tolist()}'
            err = float(np.abs(back - X).max())
            return (err > 1e-7), f'angle_to_so3(so3_to_angle(R)) != R for R={np.round(X, 6).tolist()}: error {err:.3g}'
        if np.abs(X @ X.conj().T - np.eye(2)).max() > 1e-9:
            return False, 'model matrix is not unitary'
        try:
            back = L.angle_to_su2(*L.su2_to_angle(X))
        except Exception as e:
            return True, f'su2_to_angle raises {type(e).__name__}: {e}'
        err = min(float(np.abs(back - X).max()), float(np.abs(back + X).max()))
        return (err > 1e-7), f'angle_to_su2(su2_to_angle(U)) != +-U for U={np.round(X, 6).tolist()}: error {err:.3g}'
    if what == 'batch':
        angs = np.array(p['angles'], dtype=float)
        R = L.angle_to_so3(angs[:, 0], angs[:, 1], angs[:, 2])
        try:
            a, b, g = L.so3_to_angle(R)
        except Exception as e:
            return True, f'so3_to_angle raises {type(e).__name__} on a batch mixing generic and degenerate rotations: {e}'
        per = [L.so3_to_angle(x) for x in R]
        bad = any(not H.close(np.array([a[i], b[i], g[i]]), np.array(per[i]), TOL) for i in range(len(R)))
        return bad, 'batched so3_to_angle differs from per-sample calls'
    if what == 'jop':
        j2 = p['j2']
        jx, jy, jz = numqi.matrix_space.get_angular_momentum_op(j2)
        bad = not (H.close(jx @ jy - jy @ jx, 1j * jz, TOL) and H.close(jy @ jz - jz @ jy, 1j * jx, TOL) and H.close(jz @ jx - jx @ jz, 1j * jy, TOL))
        j = j2 / 2
        bad |= not H.close(jx @ jx + jy @ jy + jz @ jz, j * (j + 1) * np.eye(j2 + 1), TOL)
        return bad, f'angular momentum operators (j2={j2}) violate su(2) relations'
    if what == 'cg':
        j1, j2 = p['j1'], p['j2']
        cg = numqi.matrix_space.get_clebsch_gordan_coeffient(j1, j2)
        rows = []
        for jd, coeff in cg:
            rows.append(coeff.reshape(jd + 1, -1))
        Mx = np.concatenate(rows, axis=0)
        bad = Mx.shape[0] != Mx.shape[1] or not H.close(Mx @ Mx.T, np.eye(Mx.shape[0]), 1e-9)
        return bad, f'Clebsch-Gordan coefficients ({j1},{j2}) are not an orthogonal change of basis'
    if what == 'irrep_ang':
        g = np.random.default_rng(5)
        base = [(p.get('alpha', 0.0), p.get('beta', 0.0), p.get('gamma', 0.0))] + [tuple(g.uniform(-7, 7, size=3)) for _ in range(6)]
        for al0, be, ga0 in base:
            for ka in (-2, -1, 0, 1, 2):
                for kg in (-1, 0, 1):
                    al, ga = al0 + 2 * np.pi * ka, ga0 + 2 * np.pi * kg
                    U = L.angle_to_su2(al, be, ga)
                    for j2 in (1, 2, 3):
                        D = L.get_su2_irrep(j2, al, be, ga)
                        if j2 == 1 and not H.close(D, U, 1e-9):
                            return True, f'get_su2_irrep(1, alpha, beta, gamma) != angle_to_su2(alpha, beta, gamma) at ({al:.6g},{be:.6g},{ga:.6g})'
                        if not H.close(D @ D.conj().T, np.eye(j2 + 1), 1e-9):
                            return True, f'get_su2_irrep({j2}, angles) is not unitary at ({al:.6g},{be:.6g},{ga:.6g})'
                        D0 = L.get_su2_irrep(j2, al0, be, ga0)
                        if not H.close(D, (-1) ** (j2 * (ka + kg)) * D0, 1e-9):
                            return True, f'get_su2_irrep({j2}, alpha+2pi*{ka}, beta, gamma+2pi*{kg}) != (-1)^(2j(ka+kg)) get_su2_irrep({j2}, alpha, beta, gamma) at ({al0:.6g},{be:.6g},{ga0:.6g})'
        return False, 'spin-j matrices from Euler angles consistent'
    if what == 'irrep':
        j2 = p['j2']
        U1, U2 = H.from_payload_cx(p, 'U1'), H.from_payload_cx(p, 'U2')
        D = lambda U: L.get_su2_irrep(j2, U)
        bad = not H.close(D(U1 @ U2), D(U1) @ D(U2), 1e-7)
        return bad, f'spin-{j2}/2 matrices are not a homomorphism'
    raise ValueError(what)


REPLAYERS = {'c15': replay}


def angle_payload(model, angle_vars, ctx, what, fixed):
    """angles from the model: each symbolic angle is known through its (cos,sin) variables"""
    out = {'what': what}
    for name in ('alpha', 'beta', 'gamma'):
        if name in fixed:
            out[name] = fixed[name]
            continue
        v = angle_vars[name]
        cs = {kind: (var, data) for var, kind, data in ctx.aux if kind in ('cos', 'sin') and data[0] is v.re}
        if 'cos' in cs:
            den = cs['cos'][1][1]
            c_ = float(model.get(cs['cos'][0].val, 1))
            s_ = float(model.get(cs['sin'][0].val, 0))
            out[name] = math.atan2(s_, c_) * den
        else:
            out[name] = float(model.get(v.re.val, 0))
    return out


def run(chk):
    quick = chk.tier == 'quick'
    chk.fn('numqi.group.su2_to_so3', 'numqi.group.angle_to_so3', 'numqi.group.angle_to_su2', 'numqi.group.so3_to_angle', 'numqi.group.su2_to_angle',
           'numqi.group._lie._so3_to_angle_hf0', 'numqi.matrix_space.get_angular_momentum_op')
    chk.register_replayer('c15', replay)
    chk.out_of_claim('get_su2_irrep homomorphism for j2>2 and Clebsch-Gordan coefficients (floats produced by sympy evalf): only ground tolerance checks; float rounding near the zero_eps thresholds')
    chk.bound(su2='arbitrary unit (a,b) symbolic', angles='alpha, gamma arbitrary (through cos/sin on the unit circle); beta: generic regime (the code classifies it as non-degenerate), beta=0 exactly, beta=pi exactly',
              batches='size 2 mixing regimes', j2='angular momentum operators j2<=8 (exact radicals)')
    fac = facade.make_np_facade()
    # ---- (a) su2_to_so3: homomorphism, two-to-one, lands in SO(3)
    U1, c1, a1, b1 = unit_su2('u1')
    U2, c2, a2, b2 = unit_su2('u2')

    def f_hom():
        R1, R2 = L.su2_to_so3(U1), L.su2_to_so3(U2)
        U12 = A.sym_array(mm(U1, U2), np.complex128)
        return R1, R2, L.su2_to_so3(U12), L.su2_to_so3(A.sym_array(-A.plain(U1), np.complex128))
    paths, st = H.run_paths(f_hom, [c1, c2], np_facade=fac, feas_timeout_ms=2000)
    chk.add_path_stats(st)
    chk.configurations += 1
    rp = ('c15', lambda m: H.payload_cx(m, {'U1': U1, 'U2': U2}, what='hom'))
    for pi, path in enumerate(paths):
        pre = [c1, c2] + path.pc + path.facts
        if path.status != 'return':
            chk.add(f'su2_to_so3 raises {type(path.value).__name__} on unitary input', pre, ir.FALSE, key='su2_to_so3 raises', replay=rp)
            continue
        R1, R2, R12, Rm = path.value
        for i, (x, y) in enumerate(zip(H.elems(R12), H.elems(mm(R1, R2)))):
            chk.add(f'su2_to_so3(U1 U2) == su2_to_so3(U1) su2_to_so3(U2) entry {i}', pre, H.eq_sc(x, y), key='su2_to_so3 not a homomorphism', replay=rp)
        chk.add('su2_to_so3(-U) == su2_to_so3(U)', pre, eqs(Rm, R1), key='su2_to_so3 not two-to-one', replay=rp)
        RRt = mm(R1, A.plain(R1).T)
        for i, (x, y) in enumerate(zip(H.elems(RRt), H.elems(np.eye(3, dtype=object)))):
            chk.add(f'su2_to_so3(U) orthogonal entry {i}', pre, H.eq_sc(x, y), key='su2_to_so3 not orthogonal', replay=rp)
        chk.add('det su2_to_so3(U) == 1, entries real', pre, ir.band(H.eq_sc(det3(R1), 1), ir.band_all(H.eq_sc(S.as_sc(x).imag, 0) for x in H.elems(R1))), key='su2_to_so3 det', replay=rp)
        chk.add('reach hom', pre, ir.TRUE, kind='reach')
    # ---- (b) angle_to_so3 / angle_to_su2 for all angles
    ang = {k: S.sc_var(k) for k in ('alpha', 'beta', 'gamma')}

    def f_ang():
        R = L.angle_to_so3(ang['alpha'], ang['beta'], ang['gamma'])
        U = L.angle_to_su2(ang['alpha'], ang['beta'], ang['gamma'])
        return R, U, L.su2_to_so3(U)
    paths, st = H.run_paths(f_ang, [], np_facade=fac, feas_timeout_ms=2000)
    chk.add_path_stats(st)
    chk.configurations += 1
    for pi, path in enumerate(paths):
        pre = path.pc + path.facts
        rp = ('c15', lambda m, path=path: angle_payload(m, ang, path.ctx, 'ang', {}))
        if path.status != 'return':
            chk.add(f'angle_to_so3/su2 raises {type(path.value).__name__}', pre, ir.FALSE, key='angle_to_* raises', replay=rp)
            continue
        R, U, RU = path.value
        chk.add('angle_to_so3 orthogonal with det 1 for all angles', pre, ir.band(eqs(mm(R, A.plain(R).T), np.eye(3, dtype=object)), H.eq_sc(det3(R), 1)), key='angle_to_so3 not in SO(3)', replay=rp)
        Up = A.plain(U)
        detU = S.as_sc(Up[0, 0]) * Up[1, 1] - S.as_sc(Up[0, 1]) * Up[1, 0]
        chk.add('angle_to_su2 unitary with det 1 for all angles', pre, ir.band(eqs(mm(U, dagger(U)), np.eye(2, dtype=object)), H.eq_sc(detU, 1)), key='angle_to_su2 not in SU(2)', replay=rp)
        for i, (x, y) in enumerate(zip(H.elems(RU), H.elems(R))):
            chk.add(f'su2_to_so3(angle_to_su2) == angle_to_so3 entry {i}', pre, H.eq_sc(x, y), key='angle_to_su2 / angle_to_so3 inconsistent', replay=rp)
    # ---- (b2) spin-j matrices from Euler angles, for ALL real angles (no range restriction): j=1/2 is angle_to_su2 itself, every j is unitary
    chk.fn('numqi.group.get_su2_irrep (three-angle signature)', 'numqi.group._lie._get_su2_irrep_get_coeff')
    for j2 in (1, 2) if quick else (1, 2, 3):
        def f_irr(j2=j2):
            return L.get_su2_irrep(j2, ang['alpha'], ang['beta'], ang['gamma']), L.angle_to_su2(ang['alpha'], ang['beta'], ang['gamma'])
        S.MOD_EXACT[0] = True              # a range reduction of an Euler angle inside the code is modelled exactly (it is not the identity on half angles)
        try:
            paths, st = H.run_paths(f_irr, [], np_facade=fac, feas_timeout_ms=2000)
        except S.EngineError as e:
            chk.engine_error(f'get_su2_irrep j2={j2}', e)
            continue
        finally:
            S.MOD_EXACT[0] = False
        chk.add_path_stats(st)
        chk.configurations += 1
        for pi, path in enumerate(paths):
            pre = path.pc + path.facts
            rp = ('c15', lambda m, path=path: angle_payload(m, ang, path.ctx, 'irrep_ang', {}))
            if path.status != 'return':
                chk.add(f'get_su2_irrep({j2}, angles) raises {type(path.value).__name__}', pre, ir.FALSE, key='get_su2_irrep raises', replay=rp)
                continue
            D, U = path.value
            if j2 == 1:
                for i, (x, y) in enumerate(zip(H.elems(D), H.elems(U))):
                    chk.add(f'get_su2_irrep(1, alpha, beta, gamma)[{i}] == angle_to_su2(alpha, beta, gamma)[{i}] for all real angles', pre, H.eq_sc(x, y), key='get_su2_irrep(j=1/2) != angle_to_su2', replay=rp)
            with path.resume():
                DD = mm(D, dagger(D))
                pre2 = pre + path.ctx.facts
            for i, (x, y) in enumerate(zip(H.elems(DD), H.elems(np.eye(j2 + 1, dtype=object)))):
                chk.add(f'get_su2_irrep({j2}, alpha, beta, gamma) unitary for all real angles: (D D^dag)[{i}]', pre2, H.eq_sc(x, y), key='get_su2_irrep not unitary', replay=rp, kind=('probe_forall' if j2 >= 3 else 'forall'))
    # ---- (c) round trips in the three regimes
    pi_c = S.as_sc(math.pi)
    eps = 1e-7
    for regime, beta_val in (('generic', None), ('beta=0', 0.0), ('beta=pi', math.pi)):
        for kind in ('so3', 'su2'):
            chk.configurations += 1
            fixed = {} if beta_val is None else {'beta': beta_val}
            # the degenerate regimes are imposed EXACTLY as assumptions on beta's (cos,sin) pair (beta itself stays symbolic), so that no
            # float artefact such as sin(pi_float)=1.2e-16 enters the symbolic input
            if kind == 'so3':
                cb_, sb_ = ir.rvar('cos[beta]'), ir.rvar('sin[beta]')
                regime_pre = [] if beta_val is None else ([ir.rcmp('eq', cb_, ir.ONE), ir.rcmp('eq', sb_, ir.ZERO)] if beta_val == 0.0 else [ir.rcmp('eq', cb_, ir.MONE), ir.rcmp('eq', sb_, ir.ZERO)])
            else:
                cb_, sb_ = ir.rvar('cos[beta/2]'), ir.rvar('sin[beta/2]')
                regime_pre = [] if beta_val is None else ([ir.rcmp('eq', cb_, ir.ONE), ir.rcmp('eq', sb_, ir.ZERO)] if beta_val == 0.0 else [ir.rcmp('eq', cb_, ir.ZERO), ir.rcmp('eq', sb_, ir.ONE)])

            def f_rt(kind=kind, beta_val=beta_val):
                be = ang['beta']
                if kind == 'so3':
                    R = L.angle_to_so3(ang['alpha'], be, ang['gamma'])
                    back = L.angle_to_so3(*L.so3_to_angle(R))
                    return R, back
                U = L.angle_to_su2(ang['alpha'], be, ang['gamma'])
                back = L.angle_to_su2(*L.su2_to_angle(U))
                return U, back
            try:
                paths, st = H.run_paths(f_rt, regime_pre, np_facade=fac, feas_timeout_ms=1500, max_paths=400)
            except S.EngineError as e:
                chk.engine_error(f'round trip {kind} {regime}', e)
                continue
            chk.add_path_stats(st)
            if beta_val is None:
                # generic regime = the path the code takes for a generic rotation; the two near-degenerate branches
                # (0<beta<zero_eps, pi-zero_eps<beta<pi) snap to the degenerate formulas and are only O(zero_eps) accurate: outside the claim
                keep = []
                for path in paths:
                    env = {'alpha': 1.0, 'beta': 1.2, 'gamma': 0.7}
                    try:
                        H.complete_env(path.ctx, env)
                        if all(ir.evaluate(path.pc, env)):
                            keep.append(path)
                    except Exception:
                        pass
                paths = keep
            for pi, path in enumerate(paths):
                pre = regime_pre + path.pc + path.facts + [c for k, c in path.side if k in ('sqrt', 'div', 'arccos')]
                rp = ('c15', lambda m, path=path, kind=kind, fixed=fixed: angle_payload(m, ang, path.ctx, kind + '_rt', fixed))
                if path.status == 'return':
                    # replay on the exact matrix the solver saw (entries such as -1, 0 exactly), not on one rebuilt from float angles
                    def rp_exact(m, path=path, kind=kind):
                        X_ = path.value[0]
                        env = {k_: float(v_) for k_, v_ in m.items()}
                        for n_ in ir.variables([t for e in H.elems(X_) for t in (S.as_sc(e).re, S.as_sc(e).im)]):
                            env.setdefault(n_.val, 1.0 if n_.val.startswith('cos[') else 0.0)
                        v = H.eval_array(X_, env)
                        return {'what': kind + '_rt_exact', 'X': np.stack([np.real(v), np.imag(v)], axis=-1).tolist()}
                    rp = ('c15', rp_exact)
                if path.status != 'return':
                    chk.add(f'{kind}_to_angle round trip raises {type(path.value).__name__} [{regime}] path {pi}', path.pc + path.facts, ir.FALSE, key=f'{kind}_to_angle raises [{regime}]', replay=rp)
                    continue
                X, back = path.value
                if kind == 'so3':
                    for ei, (x, y) in enumerate(zip(H.elems(back), H.elems(X))):
                        chk.add(f'angle_to_so3(so3_to_angle(X)) == X [{regime}] path {pi} entry {ei}', pre, H.eq_sc(x, y), key=f'so3_to_angle round trip [{regime}]', replay=rp)
                elif beta_val is None:
                    pass     # generic SU(2) round trip: decided by decomposition (lemmas L1-L4 below); the monolithic query is 'unknown' for z3
                else:
                    # up to the documented global sign:
                    # back == +-X  <=>  every pairwise product of entries agrees (sign-invariant polynomial identities, one obligation each)
                    bs, xs = H.elems(back), H.elems(X)
                    for i_ in range(4):
                        for j_ in range(i_, 4):
                            chk.add(f'angle_to_su2(su2_to_angle(X)) == +-X [{regime}] path {pi}: entries {i_},{j_} (sign-invariant product)', pre,
                                    H.eq_sc(S.as_sc(bs[i_]) * S.as_sc(bs[j_]), S.as_sc(xs[i_]) * S.as_sc(xs[j_])), key=f'su2_to_angle round trip [{regime}]', replay=rp,
                                    kind='forall' if i_ != j_ else 'probe_forall')
                chk.add(f'reach {kind} {regime} path {pi}', pre, ir.TRUE, kind='reach')
    # ---- (c') generic SU(2) round trip by decomposition:
    #   L1  angle_to_so3(so3_to_angle(R)) == R                      (generic regime, above)
    #   L2  su2_to_so3(angle_to_su2(.)) == angle_to_so3(.)          (section b)   and su2_to_so3 is a homomorphism (section a)
    #   L3  kernel: su2_to_so3(V) == I  =>  V == +-I                (below)
    #   L4  su2_to_angle hands exactly the entries of su2_to_so3(U) to the shared helper and afterwards only adds 2pi*[cond] to gamma (below)
    #   => su2_to_so3(back) == su2_to_so3(U)  =>  back U^dag in the kernel  =>  back == +-U
    V, cv, va, vb = unit_su2('kv')
    paths, st = H.run_paths(lambda: L.su2_to_so3(V), [cv], np_facade=fac, feas_timeout_ms=2000)
    chk.add_path_stats(st)
    for pi, path in enumerate(paths):
        if path.status != 'return':
            continue
        Rv = path.value
        isI = eqs(Rv, np.eye(3, dtype=object))
        pm = ir.band(H.eq_sc(vb, 0), ir.bor(H.eq_sc(va, 1), H.eq_sc(va, -1)))
        chk.add('L3 kernel of su2_to_so3 is {+I,-I}', [cv] + path.pc + path.facts, ir.bor(ir.bnot(isI), pm), key='su2_to_so3 kernel', replay=('c15', lambda m: H.payload_cx(m, {'U1': V, 'U2': V}, what='hom')))
    captured = {}
    real_helper = L._so3_to_angle_hf0

    def spy(*args):
        captured['args'] = args[:-1]
        out = real_helper(*args)
        captured['out'] = out
        return out
    Uq, cq, qa, qb = unit_su2('lq')

    def f_l4():
        captured.clear()
        ang_out = L.su2_to_angle(Uq)
        return ang_out, dict(captured), L.su2_to_so3(Uq)
    paths, st = H.run_paths(f_l4, [cq], np_facade=fac, extra_globals={'numqi.group._lie': {'_so3_to_angle_hf0': spy}}, feas_timeout_ms=1500, max_paths=64)
    chk.add_path_stats(st)
    chk.configurations += 1
    names = ['x00', 'x01', 'x02', 'x12', 'x20', 'x21', 'x22']
    pos = {'x00': (0, 0), 'x01': (0, 1), 'x02': (0, 2), 'x12': (1, 2), 'x20': (2, 0), 'x21': (2, 1), 'x22': (2, 2)}
    for pi, path in enumerate(paths):
        pre = [cq] + path.pc + path.facts
        rp = ('c15', lambda m: H.payload_cx(m, {'U1': Uq, 'U2': Uq}, what='hom'))
        if path.status != 'return':
            chk.add(f'su2_to_angle raises {type(path.value).__name__} on a unitary (path {pi})', pre, ir.FALSE, key='su2_to_angle raises', replay=rp)
            continue
        (al_o, be_o, ga_o), cap, Rq = path.value
        args = cap['args']
        ok_n = len(args) == len(names)
        cl = []
        if ok_n:
            Rp = A.plain(Rq)
            for nm, a_ in zip(names, args):
                cl.append(H.eq_sc(S.as_sc(H.elems(a_)[0]).real, Rp[pos[nm]]))
        chk.add(f'L4a su2_to_angle passes the entries of su2_to_so3(U) to the shared helper (path {pi})', pre, ir.band_all(cl) if ok_n else ir.FALSE, key='su2_to_angle helper arguments', replay=rp)
        with path.resume():
            al_h, be_h, ga_h = cap['out']
            same = [H.eq_sc(H.elems(al_o)[0], H.elems(al_h)[0]), H.eq_sc(H.elems(be_o)[0], H.elems(be_h)[0])]
            go, gh = S.as_sc(H.elems(ga_o)[0]), S.as_sc(H.elems(ga_h)[0])
            diff = go - gh
            two_pi = S.as_sc(2 * math.pi)
            same.append(ir.bor(H.eq_sc(diff, 0), H.eq_sc(diff, two_pi)))
        chk.add(f'L4b su2_to_angle returns the helper angles with gamma shifted by 0 or 2 pi (path {pi})', pre + path.facts, ir.band_all(same), key='su2_to_angle post-processing', replay=rp)
    chk.assume('generic SU(2) round trip is decided by decomposition L1-L4 (see harness/C15.py); the composition argument itself (group theory: kernel of the covering map) is not re-checked by the solver')
    # ---- (d) batches mixing generic and degenerate rotations (concrete angles; the mask logic is the subject)
    for angs in ([[0.3, 0.7, 1.1], [0.4, 0.0, 0.9]], [[0.3, 0.7, 1.1], [0.4, math.pi, 0.9]], [[0.2, 0.0, 0.5], [0.4, math.pi, 0.9]], [[0.3, 0.7, 1.1], [2.0, 1.3, 4.0]]):
        chk.configurations += 1
        ok, what = replay({'what': 'batch', 'angles': angs})
        if ok:
            chk.report_reproduced('so3_to_angle mixed batch', what, {'what': 'batch', 'angles': angs}, 'c15')
    chk.extra['mixed_batches_checked_concretely'] = 4
    # ---- (e) angular momentum operators: su(2) relations with exact radicals (ground)
    ctx = S.new_ctx('jop')
    for j2 in range(0, 9 if quick else 13):
        chk.configurations += 1
        jx, jy, jz = numqi.matrix_space.get_angular_momentum_op(j2)
        X, Y, Z = (A.plain(A.sym_array(np.asarray(m_, dtype=complex), np.complex128)) for m_ in (jx, jy, jz))
        I = SC(ir.ZERO, ir.ONE)
        comm = lambda P, Q: np.dot(P, Q) - np.dot(Q, P)
        cl = ir.band_all([eqs(comm(X, Y), I * Z), eqs(comm(Y, Z), I * X), eqs(comm(Z, X), I * Y)])
        j = S.as_sc(j2) / 2
        cas = np.dot(X, X) + np.dot(Y, Y) + np.dot(Z, Z)
        cl = ir.band(cl, eqs(cas, (j * (j + 1)) * np.eye(j2 + 1, dtype=object)))
        chk.add(f'[Jx,Jy]=iJz (cyclic), J^2=j(j+1) for j2={j2} (exact radicals)', ctx.facts, cl, key='angular momentum operators', replay=('c15', {'what': 'jop', 'j2': j2}))
    # ---- (f) Clebsch-Gordan orthogonality (ground, tolerance): floats from sympy cannot be lifted reliably
    for j1, j2 in [(a, b) for a in range(0, 4) for b in range(0, 4) if a + b <= (4 if quick else 6)]:
        ok, what = replay({'what': 'cg', 'j1': j1, 'j2': j2})
        chk.add(f'Clebsch-Gordan ({j1},{j2}) orthogonal change of basis (ground, binary64 tolerance 1e-9)', [], ir.bconst(not ok), key='Clebsch-Gordan orthogonality', replay=('c15', {'what': 'cg', 'j1': j1, 'j2': j2}))
    chk.assume('angles enter through (cos,sin) pairs on the unit circle (half angles by refinement); arccos(t) is a fresh angle in [0,pi] with cos=t, sin=+sqrt(1-t^2)')
    chk.solve(timeout_s=60 if quick else 600)
