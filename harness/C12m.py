"""C12, state-measure slice: get_fidelity / get_trace_distance / get_purity / get_von_neumann_entropy / get_relative_entropy
evaluate their textbook formulas on whatever LAPACK returns.  LAPACK (eigh / eigvalsh) enters as a stub returning fresh symbols; what is
decided is everything the *code* does around it: which matrix is handed to the eigen-solver (entry by entry), and how the returned
spectrum is turned into the result (clamps, square roots, logarithms as abstracted functions, conjugations, 1/2, the final square)."""
import numpy as np
import numqi
from symnp import ir, scalars as S, arrays as A, facade
from symnp.scalars import SC
from . import common as H
from . import torchsup as T

U = numqi.utils
TOL = 1e-8


def _psd_sqrt(M):
    w, v = np.linalg.eigh((M + M.conj().T) / 2)
    return (v * np.sqrt(np.maximum(w, 0))) @ v.conj().T


def _rand_dm(g, d, r, cx=True):
    M = g.normal(size=(d, r)) + (1j * g.normal(size=(d, r)) if cx else 0)
    rho = M @ M.conj().T
    return rho / np.trace(rho).real


def _xlogx(w):
    w = np.maximum(w, np.finfo(float).eps)
    return float(np.sum(w * np.log(w)))


def replay(p):
    what = p['what']
    if what == 'pure':
        a, b, rho = H.from_payload_cx(p, 'a'), H.from_payload_cx(p, 'b'), H.from_payload_cx(p, 'rho')
        f11 = sum(np.conj(x) * y for x, y in zip(a, b))
        f12 = sum(np.conj(a[i]) * rho[i, j] * a[j] for i in range(len(a)) for j in range(len(a)))
        bad = abs(U.get_fidelity(a, b) - abs(f11) ** 2) > TOL or abs(U.get_fidelity(a, rho) - f12.real) > TOL or abs(U.get_fidelity(rho, a) - f12.real) > TOL
        bad = bad or abs(U.get_purity((rho + rho.conj().T) / 2) - np.trace((rho + rho.conj().T) @ (rho + rho.conj().T)).real / 4) > TOL
        return bad, 'get_fidelity (pure arguments) / get_purity differ from the definition'
    if what == 'backend':
        arrs = [H.from_payload_cx(p, k) for k in p['names']]
        bad, msg = T.replay_backend(BACKEND[p['fn']], arrs)
        return bad, f"{p['fn']}: {msg}"
    # LAPACK-dependent routines: the real functions against independent formulas, on full-rank / low-rank / pure, real / complex states
    d = p['d']
    g = np.random.default_rng(11)
    for trial in range(40):
        cx = trial % 2 == 0
        r0, r1 = 1 + trial % d, 1 + (trial // d) % d
        rho, sig = _rand_dm(g, d, r0, cx), _rand_dm(g, d, r1, cx)
        if what == 'fidelity':
            s = _psd_sqrt(rho)
            want = np.sum(np.sqrt(np.maximum(np.linalg.eigvalsh(s @ sig @ s), 0))) ** 2
            got, got2 = U.get_fidelity(rho, sig), U.get_fidelity(sig, rho)
            if abs(got - want) > 1e-6 or abs(got2 - want) > 1e-6 or got > 1 + 1e-7 or got < -1e-9:
                return True, f'get_fidelity(rho, sigma) != (tr sqrt(sqrt(rho) sigma sqrt(rho)))^2 (d={d}, ranks {r0},{r1}, {"complex" if cx else "real"}): {got} vs {want}'
        elif what == 'trace_distance':
            want = np.sum(np.linalg.svd(rho - sig, compute_uv=False)) / 2
            got = U.get_trace_distance(rho, sig)
            if abs(got - want) > TOL:
                return True, f'get_trace_distance != ||rho-sigma||_1 / 2 (d={d}): {got} vs {want}'
        elif what == 'entropy':
            want = -_xlogx(np.linalg.eigvalsh(rho))
            got = U.get_von_neumann_entropy(rho)
            gotb = U.get_von_neumann_entropy(np.stack([rho, sig]))
            if abs(got - want) > TOL or abs(gotb[0] - want) > TOL or abs(gotb[1] + _xlogx(np.linalg.eigvalsh(sig))) > TOL or got < -1e-9 or got > np.log(d) + 1e-9:
                return True, f'get_von_neumann_entropy != -sum l log l (d={d}, rank {r0}): {got} vs {want}'
        elif what == 'relent':
            sig_f = _rand_dm(g, d, d, cx)            # full-rank second argument: finite relative entropy
            w, v = np.linalg.eigh(sig_f)
            want = _xlogx(np.linalg.eigvalsh(rho)) - np.trace(rho @ (v * np.log(w)) @ v.conj().T).real
            got = U.get_relative_entropy(rho, sig_f)
            got2 = U.get_relative_entropy(rho, sig_f, tr_rho_log_rho=_xlogx(np.linalg.eigvalsh(rho)))
            if abs(got - want) > 1e-7 or abs(got2 - want) > 1e-7 or got < -1e-8:
                return True, f'get_relative_entropy != tr rho (log rho - log sigma) (d={d}, rank {r0}): {got} vs {want}'
    return False, f'{what}: real routine agrees with the independent formula on 40 states'


BACKEND = {
    'get_fidelity(pure,pure)': lambda a, t: U.get_fidelity(a[0], a[1]),
    'get_fidelity(pure,dm)': lambda a, t: U.get_fidelity(a[0], a[1]),
    'get_fidelity(dm,pure)': lambda a, t: U.get_fidelity(a[0], a[1]),
    'get_purity': lambda a, t: U.get_purity(a[0]),
}


def _sum(xs):
    acc = SC(ir.ZERO)
    for x in xs:
        acc = acc + x
    return acc


def run_slice(chk, quick, rng):
    chk.fn('numqi.utils.get_fidelity', 'numqi.utils.get_trace_distance', 'numqi.utils.get_purity', 'numqi.utils.get_von_neumann_entropy',
           'numqi.utils.get_relative_entropy')
    chk.register_replayer('c12m', replay)
    chk.stub('state measures: np.linalg.eigh -> fresh (lambda, V), np.linalg.eigvalsh -> fresh mu (no contract assumed: the claims are about the matrix '
             'handed to LAPACK and about the function of the returned spectrum); np.log / np.sqrt abstracted per argument term')
    chk.out_of_claim('that tr sqrt(D V^dag sigma V D)-type expressions equal the textbook quantities needs V unitary and rho = V diag(lambda) V^dag '
                     '(similarity invariance of the spectrum: mathematics, not code); data-processing inequalities; torch branches that call torch.linalg')
    dims = (2, 3) if quick else (2, 3, 4)
    for d in dims:
        chk.configurations += 1
        cfg = f'[d={d}]'
        ctx = S.new_ctx(f'm{d}')
        a = H.cx_array(f'ma{d}', d)
        b = H.cx_array(f'mb{d}', d)
        rho = H.cx_array(f'mr{d}', (d, d))
        rh = H.herm_array(f'mh{d}', d)
        sg = H.herm_array(f'ms{d}', d)
        rp_pure = ('c12m', lambda m, a=a, b=b, rho=rho: H.payload_cx(m, {'a': a, 'b': b, 'rho': rho}, what='pure'))
        ap, bp, rp_, rhp, sgp = (A.plain(x) for x in (a, b, rho, rh, sg))
        try:
            paths0, st0 = H.run_paths(lambda: (U.get_fidelity(a, b), U.get_fidelity(a, rho), U.get_fidelity(rho, a), U.get_purity(rh)), [], feas_timeout_ms=2000, max_paths=16)
        except S.EngineError as e:
            chk.engine_error(f'get_fidelity pure {cfg}', e)
            paths0 = []
        ov = _sum(S.as_sc(ap[i]).conjugate() * S.as_sc(bp[i]) for i in range(d))
        quad = _sum(S.as_sc(ap[i]).conjugate() * S.as_sc(rp_[i, j]) * S.as_sc(ap[j]) for i in range(d) for j in range(d))
        tr2 = _sum(S.as_sc(rhp[i, j]) * S.as_sc(rhp[j, i]) for i in range(d) for j in range(d))
        for pi, path in enumerate(paths0):
            if path.status != 'return':
                chk.add(f'get_fidelity / get_purity raise {type(path.value).__name__} {cfg} (path {pi})', path.pc + path.facts, ir.FALSE, key='get_fidelity pure raises', replay=rp_pure)
                continue
            f11, f12, f21, pur = path.value
            with path.resume():
                fc = path.pc + path.facts + path.ctx.facts
                chk.add(f'get_fidelity(psi, phi) == |<psi|phi>|^2 {cfg}', fc, H.eq_sc(f11, ov.real * ov.real + ov.imag * ov.imag), key='get_fidelity pure/pure', replay=rp_pure)
                chk.add(f'get_fidelity(psi, rho) == Re <psi|rho|psi> {cfg}', fc, H.eq_sc(f12, quad.real), key='get_fidelity pure/mixed', replay=rp_pure)
                chk.add(f'get_fidelity(rho, psi) == Re <psi|rho|psi> (symmetric) {cfg}', fc, H.eq_sc(f21, quad.real), key='get_fidelity mixed/pure', replay=rp_pure)
                chk.add(f'get_purity(rho) == tr rho^2 (Hermitian rho) {cfg}', fc, H.eq_sc(pur, tr2), key='get_purity', replay=rp_pure)
        chk.notes_from(ctx)
        if d <= 3:
            for fn, arrs, names in (('get_fidelity(pure,pure)', [a, b], ['a', 'b']), ('get_fidelity(pure,dm)', [a, rho], ['a', 'rho']),
                                    ('get_fidelity(dm,pure)', [rho, a], ['rho', 'a']), ('get_purity', [rh], ['rho'])):
                rpb = ('c12m', lambda m, fn=fn, arrs=arrs, names=names: H.payload_cx(m, dict(zip(names, arrs)), what='backend', fn=fn, names=names))
                T.backend_equiv(chk, f'{fn} {cfg}', BACKEND[fn], arrs, rpb, fn, rng=rng)

        # ---------------- routines around LAPACK
        lam = [S.sc_var(f'ml{d}_{n}') for n in range(d)]
        V = H.cx_array(f'mv{d}', (d, d))
        Vp = A.plain(V)
        mu = [S.sc_var(f'mm{d}_{n}') for n in range(d)]
        mu2 = [S.sc_var(f'mn{d}_{n}') for n in range(d)]
        seen = []
        batch_rows = []

        def eigh_stub(x):
            seen.append(('eigh', x))
            return A.sym_array(np.array(lam, dtype=object), np.float64), V

        def eigvalsh_stub(x):
            seen.append(('eigvalsh', x))
            k = sum(1 for s_ in seen if s_[0] == 'eigvalsh')
            vals = mu if k == 1 else mu2
            shp = tuple(x.shape[:-2])
            if shp:
                n = int(np.prod(shp))
                rows = [vals if i == 0 else [S.sc_var(f'mx{d}_{i}_{j}') for j in range(d)] for i in range(n)]
                batch_rows[:] = rows
                return A.sym_array(np.array(rows, dtype=object).reshape(shp + (d,)), np.float64)
            return A.sym_array(np.array(vals, dtype=object), np.float64)
        fac = facade.make_np_facade(linalg={'eigh': eigh_stub, 'eigvalsh': eigvalsh_stub})

        def explore(body, label):
            del seen[:]
            try:
                paths, st = H.run_paths(body, [], np_facade=fac, feas_timeout_ms=2000, max_paths=256)
            except S.EngineError as e:
                chk.engine_error(label, e)
                return []
            chk.add_path_stats(st)
            return paths

        def same(M, R):
            M = A.plain(M) if isinstance(M, A.SymArray) else np.asarray(M, dtype=object)
            if tuple(M.shape) != tuple(np.shape(R)):
                return ir.FALSE
            return ir.band_all(H.eq_sc(x, y) for x, y in zip(H.elems(M), H.elems(np.asarray(R, dtype=object))))

        # -- fidelity of two density matrices
        rpf = ('c12m', {'what': 'fidelity', 'd': d})
        for pi, path in enumerate(explore(lambda: (U.get_fidelity(rh, sg), list(seen), seen.clear())[:2], f'get_fidelity(dm,dm) {cfg}')):
            if path.status != 'return':
                chk.add(f'get_fidelity(rho, sigma) raises {type(path.value).__name__} {cfg} (path {pi})', path.pc + path.facts, ir.FALSE, key='get_fidelity raises', replay=rpf)
                continue
            ret, calls = path.value
            with path.resume():
                base = path.pc + path.facts
                ok = [c[0] for c in calls] == ['eigh', 'eigvalsh']
                if not ok:
                    chk.add(f'get_fidelity(rho, sigma): one eigh and one eigvalsh call {cfg} (path {pi})', base, ir.FALSE, key='get_fidelity structure', replay=rpf)
                    continue
                m = [S.as_sc(l_).maximum(0) for l_ in lam]
                t = [x.sqrt() for x in m]
                inner = [[_sum(S.as_sc(Vp[i, p_]).conjugate() * S.as_sc(sgp[i, j]) * S.as_sc(Vp[j, q_]) for i in range(d) for j in range(d)) for q_ in range(d)] for p_ in range(d)]
                want = [[t[p_] * inner[p_][q_] * t[q_] for q_ in range(d)] for p_ in range(d)]
                facts = base + path.ctx.facts
                chk.add(f'get_fidelity(rho, sigma): eigh is applied to rho {cfg} (path {pi})', facts, same(calls[0][1], rhp), key='get_fidelity: eigh argument', replay=rpf)
                chk.add(f'get_fidelity(rho, sigma): matrix handed to eigvalsh == D V^dag sigma V D, D = sqrt(max(0, lambda)) {cfg} (path {pi})', facts, same(calls[1][1], want),
                        key='get_fidelity: sandwich matrix', replay=rpf)
                tot = _sum(S.as_sc(x).maximum(0).sqrt() for x in mu)
                chk.add(f'get_fidelity(rho, sigma) == (sum_k sqrt(max(0, mu_k)))^2 {cfg} (path {pi})', base + path.ctx.facts, H.eq_sc(ret, tot * tot), key='get_fidelity: spectrum function', replay=rpf)
                chk.notes_from(path)

        # -- trace distance
        rpt = ('c12m', {'what': 'trace_distance', 'd': d})
        for pi, path in enumerate(explore(lambda: (U.get_trace_distance(rh, sg), list(seen), seen.clear())[:2], f'get_trace_distance {cfg}')):
            if path.status != 'return':
                chk.add(f'get_trace_distance raises {type(path.value).__name__} on Hermitian arguments {cfg} (path {pi})', path.pc + path.facts, ir.FALSE, key='get_trace_distance raises', replay=rpt)
                continue
            ret, calls = path.value
            with path.resume():
                base = path.pc + path.facts
                if [c[0] for c in calls] != ['eigvalsh']:
                    chk.add(f'get_trace_distance: one eigvalsh call {cfg}', base, ir.FALSE, key='get_trace_distance structure', replay=rpt)
                    continue
                diff = [[S.as_sc(rhp[i, j]) - S.as_sc(sgp[i, j]) for j in range(d)] for i in range(d)]
                chk.add(f'get_trace_distance: eigvalsh is applied to rho - sigma {cfg} (path {pi})', base + path.ctx.facts, same(calls[0][1], diff), key='get_trace_distance: argument', replay=rpt)
                chk.add(f'get_trace_distance == sum_k |mu_k| / 2 {cfg} (path {pi})', base + path.ctx.facts, H.eq_sc(ret, _sum(abs(x) for x in mu) / 2), key='get_trace_distance: spectrum function', replay=rpt)

        # -- von Neumann entropy (single matrix and a batch of two)
        rpe = ('c12m', {'what': 'entropy', 'd': d})
        eps = S.as_sc(float(np.finfo(np.float64).eps))
        for batched in (False, True):
            arg = rh if not batched else A.sym_array(np.stack([rhp, sgp]), np.complex128)
            for pi, path in enumerate(explore(lambda arg=arg: (U.get_von_neumann_entropy(arg), list(seen), seen.clear())[:2], f'get_von_neumann_entropy {cfg}')):
                if path.status != 'return':
                    chk.add(f'get_von_neumann_entropy raises {type(path.value).__name__} {cfg} (path {pi})', path.pc + path.facts, ir.FALSE, key='get_von_neumann_entropy raises', replay=rpe)
                    continue
                ret, calls = path.value
                with path.resume():
                    base = path.pc + path.facts
                    if [c[0] for c in calls] != ['eigvalsh']:
                        chk.add(f'get_von_neumann_entropy: one eigvalsh call {cfg}', base, ir.FALSE, key='get_von_neumann_entropy structure', replay=rpe)
                        continue
                    wantarg = np.stack([rhp, sgp]) if batched else rhp.reshape(1, d, d)
                    chk.add(f'get_von_neumann_entropy: eigvalsh is applied to rho (batch={batched}) {cfg} (path {pi})', base + path.ctx.facts, same(calls[0][1], wantarg),
                            key='get_von_neumann_entropy: argument', replay=rpe)
                    rows = list(batch_rows) if batched else [mu]
                    gots = list(A.plain(ret).reshape(-1)) if isinstance(ret, np.ndarray) else [ret]
                    if len(gots) != len(rows):
                        chk.add(f'get_von_neumann_entropy: one value per matrix (batch={batched}) {cfg} (path {pi})', base, ir.FALSE, key='get_von_neumann_entropy: batch shape', replay=rpe)
                        continue
                    for bi, (row, got) in enumerate(zip(rows, gots)):
                        want = -_sum(x * x.log() for x in (S.as_sc(y).maximum(eps) for y in row))
                        chk.add(f'get_von_neumann_entropy[{bi}] == -sum_k m_k log m_k, m_k = max(mu_k, eps) (batch={batched}) {cfg} (path {pi})', base + path.ctx.facts, H.eq_sc(got, want),
                                key='get_von_neumann_entropy: spectrum function', replay=rpe)
                    if batched:
                        shape_ok = isinstance(ret, np.ndarray) and tuple(ret.shape) == (2,)
                        chk.add(f'get_von_neumann_entropy: batch of two -> two values {cfg} (path {pi})', base, ir.bconst(bool(shape_ok)), key='get_von_neumann_entropy: batch shape', replay=rpe)

        # -- relative entropy
        rpr = ('c12m', {'what': 'relent', 'd': d})
        trl = S.sc_var(f'mtrl{d}')
        for given in (False, True):
            for pi, path in enumerate(explore(lambda given=given: (U.get_relative_entropy(rh, sg, tr_rho_log_rho=trl if given else None), list(seen), seen.clear())[:2],
                                              f'get_relative_entropy {cfg}')):
                if path.status != 'return':
                    chk.add(f'get_relative_entropy raises {type(path.value).__name__} {cfg} (path {pi})', path.pc + path.facts, ir.FALSE, key='get_relative_entropy raises', replay=rpr)
                    continue
                ret, calls = path.value
                with path.resume():
                    base = path.pc + path.facts
                    kinds = [c[0] for c in calls]
                    if kinds != (['eigh'] if given else ['eigh', 'eigvalsh']):
                        chk.add(f'get_relative_entropy: eigh(sigma) then eigvalsh(rho) {cfg}', base, ir.FALSE, key='get_relative_entropy structure', replay=rpr)
                        continue
                    chk.add(f'get_relative_entropy: eigh is applied to sigma (given={given}) {cfg} (path {pi})', base + path.ctx.facts, same(calls[0][1], sgp), key='get_relative_entropy: eigh argument', replay=rpr)
                    if not given:
                        chk.add(f'get_relative_entropy: eigvalsh is applied to rho {cfg} (path {pi})', base + path.ctx.facts, same(calls[1][1], rhp), key='get_relative_entropy: eigvalsh argument', replay=rpr)
                    lg = [eps.maximum(l_).log() for l_ in lam]            # operand order of the code: np.maximum(eps, EVL)
                    # tr(rho log sigma) with log sigma = V diag(log max(eps, lambda)) V^dag
                    cross = _sum(S.as_sc(rhp[j, i]) * S.as_sc(Vp[i, n]) * lg[n] * S.as_sc(Vp[j, n]).conjugate() for i in range(d) for j in range(d) for n in range(d))
                    first = trl if given else _sum(x * x.log() for x in (eps.maximum(y) for y in mu))
                    chk.add(f'get_relative_entropy == tr(rho log rho) - Re tr(rho V log(max(eps, lambda)) V^dag) (tr_rho_log_rho given={given}) {cfg} (path {pi})', base + path.ctx.facts,
                            H.eq_sc(ret, first - cross.real), key='get_relative_entropy: formula', replay=rpr)
