"""entry point: python -m harness.main Cxx [--tier quick|thorough] [--replay path]"""
import os
import sys
import json
import argparse
import importlib
import traceback

sys.path.insert(0, os.path.dirname(os.path.dirname(os.path.abspath(__file__))))
sys.setrecursionlimit(20000)


def main():
    ap = argparse.ArgumentParser()
    ap.add_argument('pid')
    ap.add_argument('--tier', default=os.environ.get('VERIF_TIER', 'quick'), choices=['quick', 'thorough'])
    ap.add_argument('--replay')
    args = ap.parse_args()
    seed = int(os.environ.get('VERIF_SEED', '0') or 0)
    os.environ.setdefault('OMP_NUM_THREADS', '1')
    from symnp.driver import Check
    from symnp.scalars import EngineError
    mod = importlib.import_module(f'harness.{args.pid}')
    chk = Check(args.pid, args.tier, seed)
    if args.replay:
        with open(args.replay) as f:
            rec = json.load(f)
        # replayers are registered by run(); harness modules also expose them statically
        fn = mod.REPLAYERS[rec['replayer']] if hasattr(mod, 'REPLAYERS') else None
        if fn is None:
            print('no static replayer table in', mod.__name__)
            return 2
        ok, what = fn(rec['payload'])
        print(('REPRODUCED: ' if ok else 'not reproduced: ') + what)
        if ok:
            print(f'VIOLATION property={args.pid} replay={args.replay}')
        return 1 if ok else 0
    try:
        mod.run(chk)
    except EngineError as e:
        traceback.print_exc()
        chk.engine_error('run', e)
    except Exception as e:
        traceback.print_exc()
        chk.engine_error('harness crashed', e)
    return chk.finish()


if __name__ == '__main__':
    sys.exit(main())
