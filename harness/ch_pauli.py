"""CrossHair contracts (PEP-316) for the pure-Python Pauli index <-> string routines of numqi.gate._pauli.

Each _chk_* function returns True iff the property holds for its arguments; CrossHair searches for arguments that make
the postcondition false.  Sizes are bounded by the preconditions; one condition per concrete n for the direction whose
loop count depends on n."""
import sys
sys.path.insert(0, '/repo/python')
from numqi.gate._pauli import _pauli_index_int_to_str, _pauli_str_to_index_int


def _chk_str_index_str(s: str) -> bool:
    """
    pre: len(s) <= 4
    pre: all(c in 'IXYZ' for c in s)
    post: __return__ == True
    """
    return _pauli_index_int_to_str(_pauli_str_to_index_int(s), len(s)) == s


def _chk_str_index_range(s: str) -> bool:
    """
    pre: len(s) <= 4
    pre: all(c in 'IXYZ' for c in s)
    post: __return__ == True
    """
    return 0 <= _pauli_str_to_index_int(s) < 4 ** len(s)


def _chk_index_str_index_1(i: int) -> bool:
    """
    pre: 0 <= i < 4
    post: __return__ == True
    """
    s = _pauli_index_int_to_str(i, 1)
    return len(s) == 1 and _pauli_str_to_index_int(s) == i


def _chk_index_str_index_2(i: int) -> bool:
    """
    pre: 0 <= i < 16
    post: __return__ == True
    """
    s = _pauli_index_int_to_str(i, 2)
    return len(s) == 2 and _pauli_str_to_index_int(s) == i


def _chk_index_str_index_3(i: int) -> bool:
    """
    pre: 0 <= i < 64
    post: __return__ == True
    """
    s = _pauli_index_int_to_str(i, 3)
    return len(s) == 3 and _pauli_str_to_index_int(s) == i


def _chk_index_str_index_4(i: int) -> bool:
    """
    pre: 0 <= i < 256
    post: __return__ == True
    """
    s = _pauli_index_int_to_str(i, 4)
    return len(s) == 4 and _pauli_str_to_index_int(s) == i


def _chk_digit_order(i: int, j: int) -> bool:
    """
    pre: 0 <= i < 4 and 0 <= j < 4
    post: __return__ == True
    """
    # most significant base-4 digit is the first letter
    return _pauli_index_int_to_str(4 * i + j, 2) == 'IXYZ'[i] + 'IXYZ'[j]
