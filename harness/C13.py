"""C13 - convex-roof models evaluate an actual pure-state decomposition (so their loss is an upper bound of the convex roof for
every parameter value), and the two-qubit closed forms are related by their defining formulas.

What is decided here (solver, real code executed symbolically through symnp + symtorch):
  (A) EntanglementFormationModel / ConcurrenceModel / DensityMatrixLinearEntropyModel / DensityMatrixGMEModel: set_density_matrix and
      forward run unmodified on a symbolic density matrix (np.linalg.eigh stubbed by its contract) and a symbolic Stiefel point U
      (U^dag U = I, the defining property of the manifold - C01):
        A0  the stored factor is W = V_r sqrt(lambda_r) reshaped (so W W^dag = rho by the eigh contract),
        A1  the matrices whose spectrum / purity enters the loss are the reduced states of psi_i = sum_j U_ij W_j,
        A2  sum_i |psi_i><psi_i| = W W^dag for every Stiefel point (the ensemble is a decomposition of rho),
        A3  the loss equals sum_i p_i f(psi_i / sqrt(p_i)) with f the pure-state measure (entropy of the reduced state, 2|det|,
            linear entropy, 1 - |<product|psi>|^2).
      A1-A3 together give "the loss is never below the convex roof" by the definition of the convex roof (a minimum over decompositions).
  (B) closed forms: get_concurrence_pure == 2|det psi| on two qubits; get_gme_2qubit and get_eof_2qubit as functions of the concurrence
      (range, zero exactly at zero concurrence, strict monotonicity of the GME, defining relation 4g(1-g) = C^2).
"""
import itertools
import math
import random
import numpy as np
import torch
import numqi
import numqi.entangle.eof as EOF
import numqi.entangle.measure as MEAS
from symnp import ir, scalars as S, arrays as A, facade, symtorch as ST
from symnp.scalars import SC
from . import common as H
from . import torchsup as TS

TOL = 1e-9


# ---------------------------------------------------------------- numeric replay: real torch, real manifolds
def _psis(W, U):
    return np.einsum('abj,ij->iab', W, U)


def replay(p):
    what = p['what']
    rng = np.random.default_rng(99)
    if what == 'model':
        kind, dA, dB, nt, rank = p['kind'], p['dA'], p['dB'], p['nt'], p['rank']
        for trial in range(12):
            rho = numqi.random.rand_density_matrix(dA * dB, k=rank, seed=int(rng.integers(1 << 30)))
            rho_prev = numqi.random.rand_density_matrix(dA * dB, k=rank, seed=int(rng.integers(1 << 30))) if p.get('reuse') else None
            try:
                if kind == 'eof':
                    model = EOF.EntanglementFormationModel(dA, dB, nt, rank)
                elif kind == 'concurrence':
                    model = EOF.ConcurrenceModel(dA, dB, nt, rank)
                elif kind == 'linear_entropy':
                    model = MEAS.DensityMatrixLinearEntropyModel((dA, dB), nt, rank)
                else:
                    model = MEAS.DensityMatrixGMEModel((dA, dB), nt, rank)
                if rho_prev is not None:
                    model.set_density_matrix(rho_prev)
                model.set_density_matrix(rho)
                with torch.no_grad():
                    loss = float(model())
                    W = model._sqrt_rho.numpy()
                    U = (model.manifold_stiefel() if hasattr(model, 'manifold_stiefel') else model.manifold()).numpy()
                    phis = [m().numpy() for m in model.manifold_psi] if kind == 'gme' else None
            except Exception as e:
                return True, f'{kind} model {p}: raises {type(e).__name__}: {e}'
            if np.abs(np.einsum('abj,cdj->abcd', W, W.conj()).reshape(dA * dB, dA * dB) - rho).max() > 1e-8:
                return True, f'{kind} model: stored factor W does not satisfy W W^dag = rho'
            if np.abs(U.conj().T @ U - np.eye(rank)).max() > 1e-8:
                continue
            psi = _psis(W, U)
            if np.abs(np.einsum('iab,icd->abcd', psi, psi.conj()).reshape(dA * dB, dA * dB) - rho).max() > 1e-8:
                return True, f'{kind} model: the ensemble is not a decomposition of rho'
            pr = np.einsum('iab,iab->i', psi, psi.conj()).real
            red = np.einsum('iab,icb->iac', psi, psi.conj()) if dA <= dB else np.einsum('iab,iac->ibc', psi, psi.conj())
            if kind == 'eof':
                ref = 0.0
                for i in range(nt):
                    ev = np.linalg.eigvalsh(red[i])
                    ev = ev[ev > 1e-300]
                    ref += -np.sum(ev * np.log(ev)) + (pr[i] * np.log(pr[i]) if pr[i] > 1e-300 else 0.0)
            elif kind == 'concurrence':
                ref = sum(np.sqrt(max(0.0, 2 * (pr[i] ** 2 - np.trace(red[i] @ red[i]).real))) for i in range(nt))
            elif kind == 'linear_entropy':
                ref = 1 - sum(np.trace(red[i] @ red[i]).real / pr[i] for i in range(nt))
            else:
                ref = 1 - sum(abs(np.einsum('ab,a,b->', psi[i], phis[0][i], phis[1][i])) ** 2 for i in range(nt))
            if abs(loss - ref) > 1e-7:
                return True, f'{kind} model (dims {dA}x{dB}, {nt} terms, rank {rank}): loss {loss:.9g} != sum_i p_i f(psi_i) = {ref:.9g} for its own ensemble'
        return False, f'{kind} model: loss equals the ensemble average on 12 random states'
    if what == 'conc_pure':
        for trial in range(50):
            psi = rng.normal(size=(2, 2)) + 1j * rng.normal(size=(2, 2))
            psi /= np.linalg.norm(psi)
            got = EOF.get_concurrence_pure(psi)
            if abs(got - 2 * abs(np.linalg.det(psi))) > 1e-9:
                return True, f'get_concurrence_pure = {got} != 2|det psi| = {2 * abs(np.linalg.det(psi))}'
        return False, 'get_concurrence_pure == 2|det| on 50 random two-qubit vectors'
    if what in ('gme', 'eof_cf'):
        fn = MEAS.get_gme_2qubit if what == 'gme' else EOF.get_eof_2qubit
        prev = None
        extra_c = [float(x) for x in p.get('c', []) if 0 < float(x) <= 1]
        for c in [0.0] + extra_c + [x_ * f_ for x_ in extra_c for f_ in (0.5, 2.0) if x_ * f_ <= 1] + list(np.geomspace(1e-7, 1e-1, 25)) + list(np.linspace(1e-6, 1, 41)):
            pp = (1 + 2 * c) / 3                                # p|Phi+><Phi+| + (1-p) I/4 has concurrence (3p-1)/2
            phi = np.array([1, 0, 0, 1]) / np.sqrt(2)
            rho = pp * np.outer(phi, phi) + (1 - pp) * np.eye(4) / 4
            cc = float(EOF.get_concurrence_2qubit(rho))
            v = float(fn(rho))
            want = (1 - math.sqrt(max(0.0, 1 - cc * cc))) / 2 if what == 'gme' else None
            bad = not np.isfinite(v) or v < -1e-12 or (c == 0 and abs(v) > 1e-12) or (cc > 1e-4 and v <= 0)
            if what == 'gme':
                bad |= abs(v - want) > 1e-9 * max(1e-9, abs(want)) + 1e-15 or v > 0.5 + 1e-12        # relative: tiny concurrences give tiny values
            if prev is not None and cc > 1e-4 and v < prev - 1e-12:
                bad = True
            if bad:
                return True, f'{fn.__name__} = {v} at concurrence {cc}: violates range / zero / monotone relation'
            prev = v
        return False, f'{fn.__name__} consistent with the concurrence on the Werner-like family'
    raise ValueError(what)


REPLAYERS = {'c13': replay}


# ---------------------------------------------------------------- symbolic pieces
def _sum(xs):
    out = SC(ir.ZERO)
    for x in xs:
        out = out + x
    return out


def _abs2(z):
    z = S.as_sc(z)
    return z.real * z.real + z.imag * z.imag


def congruence(ctx, kinds=('log', 'sqrt', 'recip')):
    """functional consistency of the abstracted functions: equal arguments -> equal values (the engine memoises per argument
    *term*; the code and the reference may build the same argument in different shapes)"""
    out = []
    by = {}
    for var, kind, data in ctx.aux:
        if kind in kinds and isinstance(data, ir.N):
            by.setdefault(kind, []).append((var, data))
    for kind, items in by.items():
        for (v1, a1), (v2, a2) in itertools.combinations(items, 2):
            if a1 is not a2:
                out.append(ir.bor(ir.bnot(ir.rcmp('eq', a1, a2)), ir.rcmp('eq', v1, v2)))
    return out


matched_congruence = H.matched_congruence


class _Const(torch.nn.Module):
    """stand-in for a manifold module: returns the given (symbolic) tensor"""

    def __init__(self, value):
        super().__init__()
        self._value = value

    def forward(self):
        return ST.tensor(self._value.copy())


def run(chk):
    quick = chk.tier == 'quick'
    chk.fn('numqi.entangle.EntanglementFormationModel.set_density_matrix / forward', 'numqi.entangle.ConcurrenceModel.set_density_matrix / forward',
           'numqi.entangle.DensityMatrixLinearEntropyModel.set_density_matrix / forward', 'numqi.entangle.DensityMatrixGMEModel.set_density_matrix / forward (CPrank=1)',
           'numqi.entangle.get_concurrence_pure', 'numqi.entangle.get_gme_2qubit', 'numqi.entangle.get_eof_2qubit')
    chk.register_replayer('c13', replay)
    chk.out_of_claim('get_concurrence_2qubit itself (Wootters formula: eigh / eigvalsh), local-unitary invariance and "non-zero iff NPT" for mixed states, get_eof_pure (eigvalsh), '
                     'get_negativity; the Stiefel / Sphere parametrisations producing U (their manifold constraint is the subject of C01; the polar method is outside its bounds); '
                     'the theorem of Wootters (closed form == convex roof) is mathematics, not code; optimisation quality; CPrank>1; float rounding and the eps clamps (log(max(x,eps)), sqrt(max(eps,.)))')
    chk.stub('np.linalg.eigh(rho) -> symbolic (lambda, V) with lambda sorted, >= 0, the lowest D-rank equal to 0, sum 1 (V unconstrained: the identities hold for every V); '
             'np.linalg.eigvalsh(rho) (input assertion) -> the same lambda; torch.linalg.eigvalsh(reduced states) -> fresh symbolic eigenvalues (captured argument is checked); '
             'manifold modules -> arbitrary U with U^dag U = I (and unit-norm local vectors for the GME model); opt_einsum torch backend runs on SymTensors (tensordot/einsum modelled)')
    cfgs = [('eof', 2, 2, 2, 2), ('eof', 2, 2, 3, 2), ('concurrence', 2, 2, 2, 2), ('concurrence', 2, 2, 3, 2), ('linear_entropy', 2, 2, 2, 2), ('gme', 2, 2, 2, 2), ('eof', 2, 2, 2, 1)]
    if not quick:
        cfgs += [('eof', 2, 3, 3, 2), ('eof', 3, 2, 3, 2), ('concurrence', 2, 2, 4, 3), ('linear_entropy', 2, 3, 3, 2), ('linear_entropy', 3, 2, 2, 2), ('gme', 2, 3, 2, 2), ('gme', 2, 2, 3, 3), ('eof', 2, 2, 4, 4)]
    cfgs = [c + (False,) for c in cfgs]
    # history: one model instance re-used for a second state (set_density_matrix called twice): everything must refer to the *second* state
    cfgs += [('concurrence', 2, 2, 2, 2, True), ('eof', 2, 2, 2, 2, True), ('linear_entropy', 2, 2, 2, 2, True), ('gme', 2, 2, 2, 2, True)]
    chk.bound(models='(kind, dimA, dimB, ensemble size, rank, instance re-used for a second state): ' + str(cfgs), rho='arbitrary symbolic Hermitian trace-one input with the stated spectrum contract',
              U='arbitrary complex ensemble x rank matrix with U^dag U = I')
    for kind, dA, dB, nt, rank, reuse in cfgs:
        chk.configurations += 1
        D = dA * dB
        tag = f'{kind[0]}{dA}{dB}{nt}{rank}{"r" if reuse else ""}_'
        rho = H.herm_array(tag + 'rho', D)
        lam = [S.sc_var(tag + f'lam{j}') for j in range(D)]
        V = H.cx_array(tag + 'v', (D, D))
        U = H.cx_array(tag + 'u', (nt, rank))
        cap = []
        rho0 = H.herm_array(tag + 'rho0', D) if reuse else None          # the state the instance was used for before
        lam0 = [S.sc_var(tag + f'lam0{j}') for j in range(D)]
        V0 = H.cx_array(tag + 'v0', (D, D))

        def eigh_stub(x, lam=lam, V=V, rho0=rho0, lam0=lam0, V0=V0):
            if rho0 is not None and x is rho0:
                return A.sym_array(np.array(lam0, dtype=object), np.float64), V0
            return A.sym_array(np.array(lam, dtype=object), np.float64), V

        def eigvalsh_np(x, lam=lam, rho0=rho0, lam0=lam0):
            return A.sym_array(np.array(lam0 if (rho0 is not None and x is rho0) else lam, dtype=object), np.float64)

        def eigvalsh_t(x, cap=cap, tag=tag):
            cap.append(x)
            out = np.empty(x.shape[:-1], dtype=object)
            for idx in np.ndindex(*x.shape[:-1]):
                out[idx] = S.sc_var(tag + 'e' + '_'.join(map(str, idx)))
            return A.wrap(out, np.float64)

        def t_tensor(data, dtype=None, **kw):
            if isinstance(data, A.SymArray):
                return ST.tensor(data.astype(ST.np_dtype(dtype)) if dtype is not None else data, dtype)
            return torch.tensor(data, dtype=dtype, **kw)
        fac = facade.make_np_facade(linalg={'eigh': eigh_stub, 'eigvalsh': eigvalsh_np})
        tf = ST.torch_facade(stubs={'eigvalsh': eigvalsh_t}, extra={'tensor': t_tensor})
        pre = [(l_ >= 0).n for l_ in lam] + [(lam[i] <= lam[i + 1]).n for i in range(D - 1)] + [H.eq_sc(_sum(lam[-rank:]), 1)] + [H.eq_sc(l_, 0) for l_ in lam[:-rank]]
        pre += [H.eq_sc(_sum(rho[k, k] for k in range(D)), 1)]
        if reuse:
            pre += [(l_ >= 0).n for l_ in lam0] + [(lam0[i] <= lam0[i + 1]).n for i in range(D - 1)] + [H.eq_sc(_sum(lam0[-rank:]), 1)] + [H.eq_sc(l_, 0) for l_ in lam0[:-rank]]
            pre += [H.eq_sc(_sum(rho0[k, k] for k in range(D)), 1)]
        phiA = H.cx_array(tag + 'fa', (nt, dA)) if kind == 'gme' else None
        phiB = H.cx_array(tag + 'fb', (nt, dB)) if kind == 'gme' else None

        def body(kind=kind, dA=dA, dB=dB, nt=nt, rank=rank, rho=rho, U=U, cap=cap, phiA=phiA, phiB=phiB, rho0=rho0):
            del cap[:]
            if kind == 'eof':
                model = EOF.EntanglementFormationModel(dA, dB, nt, rank)
            elif kind == 'concurrence':
                model = EOF.ConcurrenceModel(dA, dB, nt, rank)
            elif kind == 'linear_entropy':
                model = MEAS.DensityMatrixLinearEntropyModel((dA, dB), nt, rank)
            else:
                model = MEAS.DensityMatrixGMEModel((dA, dB), nt, rank)
            if rho0 is not None:
                model.set_density_matrix(rho0)
            model.set_density_matrix(rho)
            if kind in ('eof', 'concurrence'):
                model.manifold = _Const(U)
            else:
                model.manifold_stiefel = _Const(U)
            if kind == 'gme':
                model.manifold_psi = torch.nn.ModuleList([_Const(phiA), _Const(phiB)])
            if kind in ('concurrence', 'linear_entropy'):
                orig = model.contract_expr1

                def spy(*a, **k):
                    cap.append(a[0]._sym if isinstance(a[0], ST.SymTensor) else a[0])
                    return orig(*a, **k)
                model.contract_expr1 = spy
            loss = model.forward()
            return loss, model._sqrt_rho, (cap[-1] if cap else None)
        try:
            paths, st = H.run_paths(body, pre, np_facade=fac, extra_globals=TS.torch_globals(tf), feas_timeout_ms=2000, max_paths=16)
        except S.EngineError as e:
            chk.engine_error(f'{kind} model {dA}x{dB} nt={nt} rank={rank}', e)
            continue
        chk.add_path_stats(st)
        rp = ('c13', {'what': 'model', 'kind': kind, 'dA': dA, 'dB': dB, 'nt': nt, 'rank': rank, 'reuse': reuse})
        cfg = f'[{kind} model, {dA}x{dB}, {nt} terms, rank {rank}' + (', instance re-used after another state' if reuse else '') + ']'
        stiefel = [H.eq_sc(_sum(S.as_sc(U[i, a]).conjugate() * S.as_sc(U[i, b]) for i in range(nt)), 1 if a == b else 0) for a in range(rank) for b in range(a, rank)]
        for pi, path in enumerate(paths):
            if path.status != 'return':
                chk.add(f'{cfg} raises {type(path.value).__name__}: {path.value}', pre + path.pc + path.facts, ir.FALSE, key=f'{kind} model raises', replay=rp)
                continue
            loss, Wt, red = path.value
            with path.resume():
                n_code = len(path.ctx.aux)
                base = pre + path.pc + path.facts
                W = A.plain(Wt._sym)
                # A0: W == V[:, -rank:] * sqrt(lambda[-rank:]) reshaped to (dA, dB, rank)
                Vp = A.plain(V)
                cl = []
                ok = W.shape == (dA, dB, rank)
                if ok:
                    for a in range(dA):
                        for b in range(dB):
                            for j in range(rank):
                                want = S.as_sc(Vp[a * dB + b, D - rank + j]) * lam[D - rank + j].sqrt()
                                cl.append(H.eq_sc(W[a, b, j], want))
                chk.add(f'{cfg} A0: stored factor == V_r sqrt(lambda_r) reshaped', base + path.facts, ir.band_all(cl) if ok else ir.FALSE, key=f'{kind} model: stored sqrt factor', replay=rp)
                if not ok:
                    continue
                Up = A.plain(U)
                psi = np.empty((nt, dA, dB), dtype=object)
                for i in range(nt):
                    for a in range(dA):
                        for b in range(dB):
                            psi[i, a, b] = _sum(S.as_sc(Up[i, j]) * S.as_sc(W[a, b, j]) for j in range(rank))
                dm = min(dA, dB)

                def red_ref(i, x, y):
                    if dA <= dB:
                        return _sum(psi[i, x, b] * psi[i, y, b].conjugate() for b in range(dB))
                    return _sum(psi[i, a, x] * psi[i, a, y].conjugate() for a in range(dA))
                if kind != 'gme':
                    redp = A.plain(red) if isinstance(red, A.SymArray) else np.asarray(A.plain(red._sym) if isinstance(red, ST.SymTensor) else red, dtype=object)
                    ok = redp.shape == (nt, dm, dm)
                    cl = [H.eq_sc(redp[i, x, y], red_ref(i, x, y)) for i in range(nt) for x in range(dm) for y in range(dm)] if ok else [ir.FALSE]
                    chk.add(f'{cfg} A1: the matrices entering the loss are the reduced states of psi_i = sum_j U_ij W_j (every U)', base + path.facts, ir.band_all(cl),
                            key=f'{kind} model: reduced states', replay=rp)
                # A2 (lemma about the ensemble): sum_i psi_i psi_i^dag == W W^dag under U^dag U = I, in two solver-checked steps:
                #   (i)  identity for every U:  sum_i psi_i[ab] conj(psi_i[cd]) == sum_{j,j'} G[j',j] W[ab,j] conj(W[cd,j'])  with G = U^dag U
                #   (ii) the right-hand side with G replaced by the identity matrix is (W W^dag)[ab,cd]            (U^dag U = I is the Stiefel constraint)
                G = [[_sum(S.as_sc(Up[i, jp]).conjugate() * S.as_sc(Up[i, j]) for i in range(nt)) for j in range(rank)] for jp in range(rank)]
                for (a, b), (c, d) in itertools.combinations_with_replacement(list(itertools.product(range(dA), range(dB))), 2):
                    lhs = _sum(psi[i, a, b] * psi[i, c, d].conjugate() for i in range(nt))
                    mid = _sum(G[jp][j] * S.as_sc(W[a, b, j]) * S.as_sc(W[c, d, jp]).conjugate() for j in range(rank) for jp in range(rank))
                    chk.add(f'{cfg} A2(i): sum_i psi_i[{a}{b}] conj(psi_i[{c}{d}]) == sum_jj\' (U^dag U)[j\',j] W[{a}{b},j] conj(W[{c}{d},j\']) for every U', [], H.eq_sc(lhs, mid),
                            key=f'{kind} model: ensemble is not a decomposition', replay=rp)
                    mid_id = _sum(S.as_sc(W[a, b, j]) * S.as_sc(W[c, d, j]).conjugate() for j in range(rank))
                    Gv = [[S.sc_var(tag + f'G{jp}{j}', True) for j in range(rank)] for jp in range(rank)]
                    mid_g = _sum(Gv[jp][j] * S.as_sc(W[a, b, j]) * S.as_sc(W[c, d, jp]).conjugate() for j in range(rank) for jp in range(rank))
                    isid = [H.eq_sc(Gv[jp][j], 1 if j == jp else 0) for j in range(rank) for jp in range(rank)]
                    chk.add(f'{cfg} A2(ii): with U^dag U = I the sum is (W W^dag)[{a}{b},{c}{d}]', isid, H.eq_sc(mid_g, mid_id), key=f'{kind} model: ensemble is not a decomposition', replay=rp)
                # A3: loss == ensemble average of the pure-state measure
                p_ = [_sum(_abs2(psi[i, a, b]) for a in range(dA) for b in range(dB)) for i in range(nt)]
                lossv = S.as_sc(H.elems(loss._sym)[0])
                if kind == 'eof':
                    eps = S.as_sc(float(torch.finfo(torch.float64).smallest_normal))
                    L = lambda x: S.as_sc(x).maximum(eps).log()
                    ev = [[S.sc_var(tag + f'e{i}_{k}') for k in range(dm)] for i in range(nt)]
                    ref = _sum(p_[i] * L(p_[i]) for i in range(nt)) - _sum(ev[i][k] * L(ev[i][k]) for i in range(nt) for k in range(dm))
                    claim = H.eq_sc(lossv, ref)
                    what = 'sum_i [p_i log p_i - sum_k e_ik log e_ik]  (= sum_i p_i S(rho_i^A / p_i), e_i the spectrum of the reduced state)'
                elif kind == 'concurrence':
                    eps = S.as_sc(float(torch.finfo(torch.float64).smallest_normal))
                    # (the loss is compared with the formula evaluated on the code's own reduced matrices P_i, which A1 identifies with the reduced states)
                    pc = [_sum(S.as_sc(redp[i, a, a]).real for a in range(dm)) for i in range(nt)]
                    purc = [_sum(_abs2(redp[i, x, y]) for x in range(dm) for y in range(dm)) for i in range(nt)]
                    ref = _sum(eps.maximum(2 * (pc[i] * pc[i] - purc[i])).sqrt() for i in range(nt))
                    claim = H.eq_sc(lossv, ref)
                    pur = [_sum(_abs2(red_ref(i, x, y)) for x in range(dm) for y in range(dm)) for i in range(nt)]
                    terms = [(2 * (p_[i] * p_[i] - pur[i])) for i in range(nt)]
                    if dA == 2 and dB == 2 and pi == 0:
                        # generic lemma (fresh 2x2 matrix): 2((Tr psi psi^dag)^2 - Tr (psi psi^dag)^2) == (2|det psi|)^2 ; with A1 (P_i = reduced state of psi_i) each term of the loss is
                        # p_i C(psi_i / sqrt p_i), the pure-state concurrence weighted with its probability
                        pg = A.plain(H.cx_array(tag + 'pg', (2, 2)))
                        rg = [[_sum(S.as_sc(pg[x, b]) * S.as_sc(pg[y, b]).conjugate() for b in range(2)) for y in range(2)] for x in range(2)]
                        pgn = _sum(_abs2(pg[x, y]) for x in range(2) for y in range(2))
                        purg = _sum(_abs2(rg[x][y]) for x in range(2) for y in range(2))
                        detg = 4 * _abs2(S.as_sc(pg[0, 0]) * pg[1, 1] - S.as_sc(pg[0, 1]) * pg[1, 0])
                        chk.add(f'{cfg} A3b (lemma, every 2x2 psi): 2(p^2 - Tr rho^2) == (2|det psi|)^2 with p = Tr psi psi^dag, rho = psi psi^dag', [], H.eq_sc(2 * (pgn * pgn - purg), detg),
                                key='concurrence model: term is not the pure-state concurrence', replay=rp)
                    what = 'sum_i sqrt(max(eps, 2(p_i^2 - Tr rho_i^2)))'
                elif kind == 'linear_entropy':
                    eps = S.as_sc(float(torch.finfo(torch.float64).eps))
                    pc = [_sum(S.as_sc(redp[i, a, a]).real for a in range(dm)) for i in range(nt)]
                    purc = [_sum(_abs2(redp[i, x, y]) for x in range(dm) for y in range(dm)) for i in range(nt)]
                    ref = S.as_sc(1) - _sum(purc[i] / eps.maximum(pc[i]) for i in range(nt))
                    claim = H.eq_sc(lossv, ref)
                    what = '1 - sum_i Tr(rho_i^2) / max(eps, p_i)   (= sum_i p_i (1 - Tr (rho_i/p_i)^2) when sum p_i = 1)'
                else:
                    fa, fb = A.plain(phiA), A.plain(phiB)
                    ov = [_sum(psi[i, a, b] * S.as_sc(fa[i, a]) * S.as_sc(fb[i, b]) for a in range(dA) for b in range(dB)) for i in range(nt)]
                    ref = S.as_sc(1) - _sum(_abs2(o) for o in ov)
                    claim = H.eq_sc(lossv, ref)
                    what = '1 - sum_i |<conj(phi_i^A (x) phi_i^B) | psi_i>|^2'
                hyps = matched_congruence(chk, path.ctx, n_code, [rho, V, U] + ([phiA, phiB] if kind == 'gme' else []) + ([rho0, V0] if reuse else []), f'{cfg} A3', f'{kind} model: loss is not the ensemble average', rp, base=base)
                chk.add(f'{cfg} A3: loss == {what}', base + path.facts + hyps, claim, key=f'{kind} model: loss is not the ensemble average', replay=rp)
                chk.add(f'{cfg} reach (path {pi})', base, ir.TRUE, kind='reach', meta={'soft_reach': True})
                chk.add(f'{cfg} reach: the Stiefel constraint is satisfiable', stiefel, ir.TRUE, kind='reach')
                chk.notes_from(path)
    # ---- (B) closed forms
    chk.configurations += 1
    psi = H.cx_array('cp', (2, 2))
    nrm = H.eq_sc(_sum(_abs2(x) for x in H.elems(psi)), 1)
    paths, st = H.run_paths(lambda: EOF.get_concurrence_pure(psi), [nrm], feas_timeout_ms=2000)
    chk.add_path_stats(st)
    for pi, path in enumerate(paths):
        rp = ('c13', {'what': 'conc_pure'})
        if path.status != 'return':
            chk.add(f'get_concurrence_pure raises {type(path.value).__name__}', [nrm] + path.pc + path.facts, ir.FALSE, key='get_concurrence_pure raises', replay=rp)
            continue
        with path.resume():
            v = S.as_sc(path.value)
            P = A.plain(psi)
            D = _abs2(S.as_sc(P[0, 0]) * P[1, 1] - S.as_sc(P[0, 1]) * P[1, 0])
            n2 = _sum(_abs2(x) for x in H.elems(psi))
            rhoA = [[_sum(S.as_sc(P[x, b]) * S.as_sc(P[y, b]).conjugate() for b in range(2)) for y in range(2)] for x in range(2)]
            T = _sum(_abs2(rhoA[x][y]) for x in range(2) for y in range(2))
            X = v.sq if getattr(v, 'sq', None) is not None else v * v          # the radicand the code takes the square root of
            side = [c for k, c in path.side]
            l1 = H.eq_sc(X, 2 - 2 * T)
            l2 = H.eq_sc(n2 * n2 - T, 2 * D)
            chk.add('get_concurrence_pure: the radicand is 2(1 - Tr rho_A^2) (identity in psi)', path.pc + path.facts, l1, key='get_concurrence_pure != 2|det|', replay=rp)
            chk.add('lemma: (Tr rho_A)^2 - Tr rho_A^2 == 2|det psi|^2 (identity in psi)', [], l2, key='get_concurrence_pure != 2|det|', replay=rp)
            # last step over abstracted atoms (x = radicand, t = Tr rho_A^2, d = |det|^2, n = |psi|^2): x = 2-2t, n^2-t = 2d, n = 1, v^2 = x, v >= 0  =>  v^2 = 4d
            ax, at, ad, an, av = (S.sc_var('cpa_' + nm) for nm in 'xtdnv')
            chk.add('get_concurrence_pure(psi)^2 == (2|det psi|)^2 and >= 0 for every normalised two-qubit vector (propositional step from the two identities, v^2 = radicand, |psi| = 1)',
                    [H.eq_sc(ax, 2 - 2 * at), H.eq_sc(an * an - at, 2 * ad), H.eq_sc(an, 1), H.eq_sc(av * av, ax), (av >= 0).n], ir.band(H.eq_sc(av * av, 4 * ad), ir.rcmp('le', ir.ZERO, av.re)),
                    key='get_concurrence_pure != 2|det|', replay=rp)
            chk.add('get_concurrence_pure: the returned value is the non-negative square root of the radicand (side conditions hold)', [nrm] + path.pc + path.facts,
                    ir.band_all([H.eq_sc(v * v, X), ir.rcmp('le', ir.ZERO, v.re)]), key='get_concurrence_pure != 2|det|', replay=rp)
    for name, mod, fn in (('get_gme_2qubit', MEAS, MEAS.get_gme_2qubit), ('get_eof_2qubit', EOF, EOF.get_eof_2qubit)):
        chk.configurations += 1
        c1, c2 = S.sc_var(name + '_c1'), S.sc_var(name + '_c2')
        rp = ('c13', lambda m, name=name: {'what': 'gme' if name == 'get_gme_2qubit' else 'eof_cf', 'c': [float(m.get(name + '_c1', 0)), float(m.get(name + '_c2', 0))]})
        rng_pre = [(c1 >= 0).n, (c1 <= 1).n, (c2 >= 0).n, (c2 <= 1).n]
        cur = [c1]
        eg = {mod.__name__: {'get_concurrence_2qubit': lambda rho: cur[0]}}
        dummy = np.eye(4) / 4

        def both(fn=fn, cur=cur, c1=c1, c2=c2):
            cur[0] = c1
            a = fn(dummy)
            cur[0] = c2
            b = fn(dummy)
            return a, b
        paths, st = H.run_paths(both, rng_pre, extra_globals=eg, feas_timeout_ms=2000, max_paths=64)
        chk.add_path_stats(st)
        for pi, path in enumerate(paths):
            if path.status != 'return':
                chk.add(f'{name} raises {type(path.value).__name__} for a concurrence in [0,1]', rng_pre + path.pc + path.facts, ir.FALSE, key=f'{name} raises', replay=rp)
                continue
            with path.resume():
                g1, g2 = S.as_sc(path.value[0]), S.as_sc(path.value[1])
                base = rng_pre + path.pc + path.facts
                side = [c for k, c in path.side]
                cl = [ir.rcmp('le', ir.ZERO, g1.re), ir.beq(H.eq_sc(g1, 0), H.eq_sc(c1, 0))] + side
                if name == 'get_gme_2qubit':
                    cl += [ir.rcmp('le', g1.re, ir.rconst('1/2')), H.eq_sc(4 * g1 * (1 - g1), c1 * c1)]
                chk.add(f'{name}: value >= 0, zero exactly at zero concurrence' + (', <= 1/2, 4g(1-g) == C^2' if name == 'get_gme_2qubit' else '') + f' (path {pi})', base, ir.band_all(cl),
                        key=f'{name} range / zero set', replay=rp, kind='forall' if name == 'get_gme_2qubit' else 'probe_forall')
                if name == 'get_gme_2qubit':
                    chk.add(f'{name}: strictly increasing in the concurrence (path {pi})', base + [(c1 < c2).n], ir.rcmp('lt', g1.re, g2.re), key=f'{name} not monotone', replay=rp)
                chk.add(f'{name} reach (path {pi})', base, ir.TRUE, kind='reach')
                chk.notes_from(path)
    chk.assume('log enters through its sign / monotonicity axioms only; sqrt through s^2 = x, s >= 0')
    chk.solve(timeout_s=90 if quick else 600)
