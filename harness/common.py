"""helpers shared by the per-property harnesses"""
import math
import cmath
import random as _random
from fractions import Fraction
import numpy as np
from symnp import ir, scalars as S, arrays as A, facade, solve, explore
from symnp.scalars import SC, BVS, SB, EngineError


# ---------------------------------------------------------------- symbolic inputs
def cx_array(name, shape):
    shape = (shape,) if isinstance(shape, int) else tuple(shape)
    out = np.empty(shape, dtype=object)
    for idx in np.ndindex(*shape):
        out[idx] = S.sc_var(name + ''.join(f'_{i}' for i in idx), True)
    return A.wrap(out, np.complex128)


def re_array(name, shape):
    shape = (shape,) if isinstance(shape, int) else tuple(shape)
    out = np.empty(shape, dtype=object)
    for idx in np.ndindex(*shape):
        out[idx] = S.sc_var(name + ''.join(f'_{i}' for i in idx), False)
    return A.wrap(out, np.float64)


def herm_array(name, d):
    """symbolic Hermitian d x d matrix"""
    out = np.empty((d, d), dtype=object)
    for i in range(d):
        out[i, i] = S.sc_var(f'{name}_{i}_{i}', False)
        for j in range(i + 1, d):
            v = S.sc_var(f'{name}_{i}_{j}', True)
            out[i, j] = v
            out[j, i] = v.conjugate()
    return A.wrap(out, np.complex128)


def bit_array(name, shape, dtype=np.uint8):
    shape = (shape,) if isinstance(shape, int) else tuple(shape)
    out = np.empty(shape, dtype=object)
    for idx in np.ndindex(*shape):
        out[idx] = S.bit_var(name + ''.join(f'_{i}' for i in idx), dtype)
    return A.wrap(out, dtype)


def bv_array(name, shape, dtype=np.uint8):
    shape = (shape,) if isinstance(shape, int) else tuple(shape)
    out = np.empty(shape, dtype=object)
    for idx in np.ndindex(*shape):
        out[idx] = S.bv_var(name + ''.join(f'_{i}' for i in idx), dtype)
    return A.wrap(out, dtype)


def elems(a):
    """flat list of elements of an array-like (symbolic or concrete)"""
    if isinstance(a, np.ndarray):
        return list(A.plain(a).reshape(-1))
    if isinstance(a, (list, tuple)):
        out = []
        for x in a:
            out.extend(elems(x))
        return out
    return [a]


def eq_sc(a, b):
    """B node: a == b as exact complex numbers"""
    a, b = S.as_sc(a), S.as_sc(b)
    return ir.band(ir.rcmp('eq', a.re, b.re), ir.rcmp('eq', a.im, b.im))


def norm2(vec):
    """sum |v_i|^2 as SC"""
    r = SC(ir.ZERO)
    for e in elems(vec):
        e = S.as_sc(e)
        r = r + e.real * e.real + e.imag * e.imag
    return r


def facts_of(ctx):
    return list(ctx.facts)


# ---------------------------------------------------------------- concrete evaluation / validation
def complete_env(ctx, env):
    """extend env (input variable values) with the engine-introduced variables (sqrt, cos/sin, exp, ...)"""
    for var, kind, data in ctx.aux:
        if var.val in env:
            continue
        try:
            _complete_one(var, kind, data, env)
        except KeyError:
            pass   # depends on variables that are not part of this evaluation
    return env


def _complete_one(var, kind, data, env):
    if True:
        if kind == 'sqrt':
            v = ir.evaluate([data], env)[0]
            env[var.val] = math.sqrt(max(v, 0.0))
        elif kind in ('cos', 'sin'):
            base, den = data
            x = env[base.val] / den
            env[var.val] = math.cos(x) if kind == 'cos' else math.sin(x)
        elif kind in ('exp', 'log', 'log1p', 'tanh'):
            v = ir.evaluate([data], env)[0]
            env[var.val] = getattr(math, kind)(v)
        elif kind == 'arccos':
            v = ir.evaluate([data], env)[0]
            env[var.val] = math.acos(min(1.0, max(-1.0, v)))
        elif kind == 'arcsin':
            v = ir.evaluate([data], env)[0]
            env[var.val] = math.asin(min(1.0, max(-1.0, v)))
        elif kind == 'expit':
            v = ir.evaluate([data], env)[0]
            env[var.val] = 1.0 / (1.0 + math.exp(-v))
        elif kind == 'root':
            v = ir.evaluate([data[0]], env)[0]
            env[var.val] = max(v, 0.0) ** (1.0 / data[1])
        elif kind == 'recip':
            v = ir.evaluate([data], env)[0]
            env[var.val] = 1.0 / v if v != 0 else 0.0
        elif kind == 'atan2':
            y, x = ir.evaluate(list(data), env)
            env[var.val] = math.atan2(y, x)
        else:
            raise EngineError(f'aux kind {kind}')


def eval_elems(xs, env):
    """evaluate symbolic/concrete elements to python complex/float/int under env"""
    nodes = []
    slots = []
    for e in xs:
        if isinstance(e, SC):
            slots.append(('c', len(nodes)))
            nodes.extend([e.re, e.im])
        elif isinstance(e, BVS):
            slots.append(('i', len(nodes), e))
            nodes.append(e.n)
        elif isinstance(e, SB):
            slots.append(('b', len(nodes)))
            nodes.append(e.n)
        else:
            slots.append(('k', e))
    vals = ir.evaluate(nodes, env) if nodes else []
    out = []
    for s in slots:
        if s[0] == 'c':
            out.append(complex(vals[s[1]], vals[s[1] + 1]))
        elif s[0] == 'i':
            v = vals[s[1]]
            out.append(ir._tosigned(v, s[2].n.sort[1]) if s[2].signed else v)
        elif s[0] == 'b':
            out.append(bool(vals[s[1]]))
        else:
            out.append(s[1])
    return out


def eval_array(a, env):
    p = A.plain(a) if isinstance(a, np.ndarray) else np.asarray(a, dtype=object)
    vals = eval_elems(list(p.reshape(-1)), env)
    sd = a.dtype if isinstance(a, A.SymArray) else None
    if sd is not None and sd.kind in 'iub':
        return np.array(vals, dtype=sd).reshape(p.shape)
    arr = np.array([complex(v) for v in vals]).reshape(p.shape)
    if sd is not None and sd.kind == 'f':
        return arr.real
    return arr


def random_env(arrays, rng, scale=1.0):
    """random concrete values for all variables in the given symbolic arrays; returns env"""
    env = {}
    for a in arrays:
        for e in elems(a):
            if isinstance(e, SC):
                for n in ir.variables([e.re, e.im]):
                    if n.val not in env:
                        env[n.val] = rng.gauss(0, 1) * scale
            elif isinstance(e, BVS):
                for n in ir.variables([e.n]):
                    if n.val not in env:
                        env[n.val] = rng.getrandbits(n.sort[1])
    return env


def concrete_from_env(a, env):
    """numpy array holding the values of a symbolic input array under env"""
    return eval_array(a, env)


def model_env(model, arrays, default=0):
    """env from a solver model, defaulting unassigned input variables"""
    env = {}
    for a in arrays:
        for e in elems(a):
            nodes = [e.re, e.im] if isinstance(e, SC) else ([e.n] if isinstance(e, (BVS, SB)) else [])
            for n in ir.variables(nodes):
                v = model.get(n.val, default)
                env[n.val] = float(v) if isinstance(v, Fraction) else v
    return env


def close(a, b, tol=1e-9):
    a = np.asarray(a)
    b = np.asarray(b)
    if a.shape != b.shape:
        return False
    if a.size == 0:
        return True
    return bool(np.max(np.abs(a - b)) <= tol * max(1.0, float(np.max(np.abs(b)))))


# ---------------------------------------------------------------- path helpers
def run_paths(fn, assumptions=(), max_paths=100000, np_facade=None, extra_globals=None, prefix='', feas_timeout_ms=10000, truncate=False):
    """explore fn() under the facade; returns (paths, stats)"""
    assumptions = [a.n if isinstance(a, SB) else a for a in assumptions]
    with facade.patched(np_facade, extra_globals):
        return explore.explore(fn, assumptions, max_paths=max_paths, prefix=prefix, timeout_ms=feas_timeout_ms, truncate=truncate)


def payload_cx(model, arrs, **kw):
    """JSON payload: each symbolic array as nested [re, im] lists under the model (unassigned variables -> 0)"""
    out = dict(kw)
    for key, a in arrs.items():
        env = model_env(model, [a])
        v = eval_array(a, env)
        out[key] = np.stack([np.real(v), np.imag(v)], axis=-1).tolist()
    return out


def from_payload_cx(p, key):
    a = np.array(p[key], dtype=float)
    return a[..., 0] + 1j * a[..., 1]


import random


def matched_congruence(chk, ctx, n_code, inputs, label, key, rp, kinds=('log', 'sqrt', 'recip'), base=()):
    """pair every abstracted-function application made by the reference (aux entries from n_code on) with the application made by
    the code on a numerically equal argument; the equality of the two argument terms becomes its own solver obligation (an identity),
    and is handed to the main obligation as a hypothesis together with the congruence instance  arg_c == arg_r -> f(arg_c) == f(arg_r)"""
    rng = random.Random(7)
    envs = []
    for _ in range(2):
        env = random_env(inputs, rng)
        for var, kind, data in ctx.aux:       # free variables introduced by stubs are not in `inputs`
            pass
        envs.append(env)
    code = [(v, k, d) for v, k, d in ctx.aux[:n_code] if k in kinds and isinstance(d, ir.N)]
    ref = [(v, k, d) for v, k, d in ctx.aux[n_code:] if k in kinds and isinstance(d, ir.N)]
    hyps = []
    if not ref:
        return hyps
    allv = ir.variables([d for _, _, d in code + ref])
    vals = []
    for env in envs:
        for n_ in allv:
            env.setdefault(n_.val, rng.uniform(0.2, 1.5))
        complete_env(ctx, env)
        vals.append(env)
    for vr, kr, dr in ref:
        for vc, kc, dc in code:
            if kc != kr:
                continue
            try:
                same = all(abs(ir.evaluate([dc], e)[0] - ir.evaluate([dr], e)[0]) < 1e-9 for e in vals)
            except Exception:
                same = False
            if same:
                eq = ir.rcmp('eq', dc, dr)
                if dc is not dr:
                    chk.add(f'{label}: argument of {kr} in the code == argument in the reference formula', list(base), eq, key=key, replay=rp)
                hyps += [eq, ir.rcmp('eq', vc, vr)] if dc is dr else [eq, ir.bor(ir.bnot(eq), ir.rcmp('eq', vc, vr))]
                break
    return hyps


