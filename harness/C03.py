"""C03 - state-vector simulator applies gates exactly as the embedded operator."""
import itertools
import random
import numpy as np
import numqi
from symnp import ir, scalars as S, arrays as A, facade
from symnp.scalars import SC
from . import common as H

TOL = 1e-9


# ---------------------------------------------------------------- reference (explicit bit loops, no einsum)
def embed(U, idx, n, controls=()):
    """2^n x 2^n operator acting as U on qubits idx (ordered; qubit 0 = most significant bit), identity elsewhere;
    with controls: acts only where all control bits are 1.  Works on object or numeric arrays."""
    N = 2 ** n
    U = A.plain(U) if isinstance(U, np.ndarray) else U
    out = np.zeros((N, N), dtype=object if U.dtype == object else complex)
    for r in range(N):
        rb = [(r >> (n - 1 - q)) & 1 for q in range(n)]
        for c in range(N):
            cb = [(c >> (n - 1 - q)) & 1 for q in range(n)]
            if any(rb[q] != cb[q] for q in range(n) if q not in idx):
                continue
            if controls and not all(rb[q] == 1 for q in controls):
                out[r, c] = 1 if r == c else 0
                continue
            ri = ci = 0
            for q in idx:
                ri = ri * 2 + rb[q]
                ci = ci * 2 + cb[q]
            out[r, c] = U[ri, ci]
    return out


def embed_selfcheck():
    """reference vs np.kron on concrete data"""
    rng = np.random.default_rng(0)
    n = 3
    U = rng.normal(size=(2, 2)) + 1j * rng.normal(size=(2, 2))
    V = rng.normal(size=(4, 4)) + 1j * rng.normal(size=(4, 4))
    I = np.eye(2)
    ok = np.allclose(embed(U, (1,), n), np.kron(np.kron(I, U), I))
    ok &= np.allclose(embed(V, (0, 1), n), np.kron(V, I))
    ok &= np.allclose(embed(V, (1, 2), n), np.kron(I, V))
    SW = numqi.gate.Swap
    ok &= np.allclose(embed(V, (1, 0), 2), SW @ V @ SW)
    P1 = np.diag([0, 1])
    ok &= np.allclose(embed(U, (2,), n, controls=(0,)), np.kron(np.kron(np.diag([1, 0]), I), I) + np.kron(np.kron(P1, I), U))
    return bool(ok)


def mv(M, v):
    return np.dot(A.plain(M) if isinstance(M, np.ndarray) else M, A.plain(v) if isinstance(v, np.ndarray) else v)


def all_eq(xs, ys):
    xs, ys = H.elems(xs), H.elems(ys)
    assert len(xs) == len(ys), (len(xs), len(ys))
    return ir.band_all(H.eq_sc(a, b) for a, b in zip(xs, ys))


# ---------------------------------------------------------------- concrete replayers
def _arr(payload, key):
    a = np.array(payload[key], dtype=float)
    return a[..., 0] + 1j * a[..., 1]


def replay_apply_gate(p):
    q, U = _arr(p, 'q'), _arr(p, 'U')
    idx, n = tuple(p['idx']), p['n']
    kind = p['kind']
    if kind == 'state':
        got = numqi.sim.state.apply_gate(q, U, idx)
        ref = embed(U, idx, n) @ q
    elif kind == 'control':
        got = numqi.sim.state.apply_control_n_gate(q, U, set(p['ctrl']), idx)
        ref = embed(U, idx, n, tuple(p['ctrl'])) @ q
    elif kind == 'dm':
        rho = _arr(p, 'rho')
        got = numqi.sim.dm.apply_gate(rho, U, list(idx)) if p.get('idx_list') else numqi.sim.dm.apply_gate(rho, U, idx)
        E = embed(U, idx, n)
        ref = E @ rho @ E.conj().T
    elif kind == 'expect':
        rho = _arr(p, 'rho')
        got = numqi.sim.dm.operator_expectation(rho, U, idx)
        ref = np.trace(rho @ embed(U, idx, n))
    elif kind == 'prob':
        got = numqi.sim.state.reduce_to_probability(q, set(idx))
        ref = born(q, sorted(idx), n)
    else:
        raise ValueError(kind)
    bad = not H.close(got, ref, TOL)
    return bad, f'{kind} n={n} idx={idx} max|got-ref|={float(np.max(np.abs(np.asarray(got) - np.asarray(ref)))):.3g}'


def born(q, keep, n):
    """Born marginal over the kept qubits (ascending), explicit loops"""
    N = 2 ** n
    q = A.plain(q) if isinstance(q, np.ndarray) else q
    out = [0] * (2 ** len(keep))
    for r in range(N):
        bits = [(r >> (n - 1 - k)) & 1 for k in range(n)]
        o = 0
        for k in keep:
            o = o * 2 + bits[k]
        e = q[r]
        if isinstance(e, (SC,)):
            out[o] = out[o] + e.real * e.real + e.imag * e.imag
        else:
            out[o] = out[o] + abs(e) ** 2
    return np.array(out, dtype=object if q.dtype == object else float)


def cx_payload(model, arrs):
    """{'q': sym array, ...} -> nested [re, im] lists from the model"""
    out = {}
    for key, a in arrs.items():
        env = H.model_env(model, [a])
        v = H.eval_array(a, env)
        out[key] = np.stack([v.real, v.imag], axis=-1).tolist()
    return out


# ---------------------------------------------------------------- circuit programs
FIXED_1Q = ['X', 'Y', 'Z', 'H', 'S', 'T']


def gate_instances(n):
    """(description, builder(circ, symgen) -> (reference operator))"""
    out = []
    qs = list(range(n))
    for q in qs:
        for nm in FIXED_1Q:
            out.append(('fixed', nm, (q,), ()))
        out.append(('sym1', 'single_qubit_gate', (q,), ()))
        for nm in ('rx', 'ry', 'rz', 'u3'):
            out.append(('param1', nm, (q,), ()))
    for a, b in itertools.permutations(qs, 2):
        out.append(('fixed', 'Swap', (a, b), ()))
        out.append(('sym2', 'double_qubit_gate', (a, b), ()))
        out.append(('param2', 'rzz', (a, b), ()))
        for nm in ('cnot', 'cy', 'cz'):
            out.append(('fixedc', nm, (b,), (a,)))
        out.append(('symc1', 'controlled_single_qubit_gate', (b,), (a,)))
        for nm in ('crx', 'cu3'):
            out.append(('paramc', nm, (b,), (a,)))
    if n >= 3:
        for a, b, c in itertools.permutations(qs, 3):
            if a < b:
                out.append(('fixedc', 'toffoli', (c,), (a, b)))
                out.append(('symc1', 'controlled_single_qubit_gate', (c,), (a, b)))
            out.append(('symc2', 'controlled_double_qubit_gate', (b, c), (a,)))
        out.append(('sym3', 'triple_qubit_gate', tuple(qs[:3]), ()))
        out.append(('sym3', 'triple_qubit_gate', (2, 0, 1), ()))
    return out


def build_program(n, prog, tag):
    """instantiate the program on a real Circuit; returns (circ, [(Uarray, targets, controls)])"""
    circ = numqi.sim.Circuit()
    ops = []
    for k, (kind, nm, tgt, ctrl) in enumerate(prog):
        m = getattr(circ, nm)
        d = 2 ** len(tgt)
        if kind == 'fixed':
            g = m(*tgt)
            U = g.array
        elif kind == 'fixedc':
            g = m(ctrl if len(ctrl) > 1 else ctrl[0], tgt[0])
            U = g.array
        elif kind in ('sym1', 'sym2', 'sym3'):
            U = H.cx_array(f'{tag}g{k}', (d, d))
            g = m(U, *tgt)
        elif kind == 'symc1':
            U = H.cx_array(f'{tag}g{k}', (2, 2))
            g = m(U, set(ctrl), tgt[0])
        elif kind == 'symc2':
            U = H.cx_array(f'{tag}g{k}', (4, 4))
            g = m(U, set(ctrl), tgt)
        elif kind in ('param1', 'param2'):
            g = m(tgt, None) if kind == 'param2' else m(tgt[0], None)
            U = H.cx_array(f'{tag}g{k}', (d, d))
            g.array = U          # the parametrised matrix enters symbolically (covers every angle)
        elif kind == 'paramc':
            g = m(ctrl[0], tgt[0], None)
            U = H.cx_array(f'{tag}g{k}', (2, 2))
            g.array = U
        else:
            raise ValueError(kind)
        ops.append((U, tuple(tgt), tuple(ctrl)))
    return circ, ops


def replay_program(p):
    n = p['n']
    prog = [tuple(x) for x in p['prog']]
    prog = [(k, nm, tuple(t), tuple(c)) for k, nm, t, c in prog]
    q = _arr(p, 'q')
    circ = numqi.sim.Circuit()
    ref = q.copy()
    full = np.eye(2 ** n, dtype=complex)
    for k, (kind, nm, tgt, ctrl) in enumerate(prog):
        m = getattr(circ, nm)
        key = f'g{k}'
        if kind == 'fixed':
            g = m(*tgt)
        elif kind == 'fixedc':
            g = m(ctrl if len(ctrl) > 1 else ctrl[0], tgt[0])
        elif kind in ('sym1', 'sym2', 'sym3'):
            g = m(_arr(p, key), *tgt)
        elif kind == 'symc1':
            g = m(_arr(p, key), set(ctrl), tgt[0])
        elif kind == 'symc2':
            g = m(_arr(p, key), set(ctrl), tgt)
        elif kind in ('param1', 'param2'):
            g = m(tgt, None) if kind == 'param2' else m(tgt[0], None)
            g.array = _arr(p, key)
        else:
            g = m(ctrl[0], tgt[0], None)
            g.array = _arr(p, key)
        E = embed(np.asarray(g.array, dtype=complex), tgt, n, ctrl)
        ref = E @ ref
        full = E @ full
    delta = p.get('shift', 0)
    if p['what'] == 'apply_state':
        if circ.num_qubit != n:  # pad: highest qubit untouched
            return False, 'program does not touch the last qubit'
        got = circ.apply_state(q)
        bad = not H.close(got, ref, TOL)
    elif p['what'] == 'to_unitary':
        if circ.num_qubit != n:
            return False, 'program does not touch the last qubit'
        got = circ.to_unitary()
        bad = not H.close(got, full, TOL)
    else:
        circ.shift_qubit_index_(delta)
        q2 = _arr(p, 'q2')
        got = circ.apply_state(q2)
        ref2 = q2.copy()
        for k, (kind, nm, tgt, ctrl) in enumerate(prog):
            g = circ.gate_index_list[k][0]
            ref2 = embed(np.asarray(g.array, dtype=complex), tuple(t + delta for t in tgt), n + delta, tuple(c + delta for c in ctrl)) @ ref2
        bad = not H.close(got, ref2, TOL)
    return bad, f"{p['what']} prog={[x[1] + str(x[2]) + str(x[3]) for x in prog]}"


def replay_inner(p):
    n = p['n']
    p0, p1, Ua, Ub, Uc = (_arr(p, k) for k in ('p0', 'p1', 'Ua', 'Ub', 'Uc'))
    op_list = [[(Ua, 0), (Ub, n - 1)], [(Uc, n - 1, 0)], [(Ua, 1), (Uc, 0, 1), (Ub, 0)]]
    got = numqi.sim.state.inner_product_psi0_O_psi1(p0, p1, op_list)
    refs = []
    for term in op_list:
        M = np.eye(2 ** n, dtype=complex)
        for t in term:
            M = M @ embed(t[0], tuple(t[1:]), n)
        refs.append(np.vdot(p0, M @ p1))
    return (not H.close(got, np.array(refs), TOL)), f'inner_product_psi0_O_psi1 n={n}'


REPLAYERS = {'apply_gate': replay_apply_gate, 'program': replay_program, 'inner': replay_inner}


def sym_call(chk, fn, name, key, replay, claim_of, assume=()):
    """run fn() on symbolic data under the path explorer (value-dependent branches, e.g. special-cased gate matrices, fork);
    one obligation per returning path, a finding candidate per raising path"""
    paths, st = H.run_paths(fn, list(assume), feas_timeout_ms=2000, max_paths=256)
    chk.add_path_stats(st)
    for pi, path in enumerate(paths):
        pre = list(assume) + path.pc + path.facts
        tag = f' (path {pi})' if len(paths) > 1 else ''
        if path.status != 'return':
            chk.add(f'{name} raises {type(path.value).__name__}{tag}', pre, ir.FALSE, key=key + ' raises', replay=replay)
            continue
        chk.add(name + tag, pre, claim_of(path.value), key=key, replay=replay)
        chk.notes_from(path)
    return paths


# ---------------------------------------------------------------- main
def run(chk):
    quick = chk.tier == 'quick'
    rng = random.Random(chk.seed)
    chk.fn('numqi.sim.state.apply_gate', 'numqi.sim.state.apply_control_n_gate', 'numqi.sim.state._control_n_index',
           'numqi.sim.state.reduce_shape_index', 'numqi.sim.state.reduce_to_probability',
           'numqi.sim.state.inner_product_psi0_O_psi1', 'numqi.sim.dm.apply_gate', 'numqi.sim.dm.operator_expectation',
           'numqi.sim.Circuit.apply_state', 'numqi.sim.Circuit.to_unitary', 'numqi.sim.Circuit.shift_qubit_index_',
           'numqi.sim.Circuit.<gate methods>', 'numqi.gate.rx/ry/rz/u3/rzz')
    for k, v in REPLAYERS.items():
        chk.register_replayer(k, v)
    if not embed_selfcheck():
        chk.engine_error('oracle', RuntimeError('reference embed disagrees with np.kron'))
        return
    nmax = 3 if quick else 5
    nmax_dm = 2 if quick else 3
    chk.bound(n_qubits_state=f'1..{nmax} (all ordered target tuples of size 1..3, all disjoint control subsets of size 1..2)',
              n_qubits_dm=f'1..{nmax_dm}', gate_matrices='arbitrary complex (non-unitary included), fully symbolic',
              states='arbitrary complex vectors / matrices, fully symbolic (not assumed normalised or Hermitian)')
    chk.out_of_claim('measurement gates (C11); kraus gates (never applied by apply_state); n above the bound; float rounding')
    ctx = S.new_ctx()
    nval = 0
    with facade.patched():
        # 1. apply_gate / control / prob
        for n in range(1, nmax + 1):
            q = H.cx_array(f'q{n}', 2 ** n)
            for k in range(1, min(3, n) + 1):
                U = H.cx_array(f'u{k}', (2 ** k, 2 ** k))
                for idx in itertools.permutations(range(n), k):
                    if n >= 5 and k == 3 and rng.random() > 0.2:
                        continue
                    chk.configurations += 1
                    ref = mv(embed(U, idx, n), q)
                    pl = (lambda m, q=q, U=U, idx=idx, n=n: dict(cx_payload(m, {'q': q, 'U': U}), idx=list(idx), n=n, kind='state'))
                    ps = sym_call(chk, lambda: numqi.sim.state.apply_gate(q, U, idx), f'apply_gate[n={n},idx={idx}]', 'state.apply_gate!=Embed', ('apply_gate', pl),
                                  lambda got, ref=ref: all_eq(got, ref))
                    if chk.configurations % 7 == 1 and ps and ps[0].status == 'return' and len(ps) == 1:
                        with ps[0].resume():
                            nval += _validate(chk, ps[0].value, [q, U], lambda qq, UU, idx=idx: numqi.sim.state.apply_gate(qq, UU, idx), rng)
                    # controlled
                    rest = [x for x in range(n) if x not in idx]
                    if k <= 2:
                        for nc in range(1, min(2, len(rest)) + 1):
                            for ctrl in itertools.combinations(rest, nc):
                                chk.configurations += 1
                                ref = mv(embed(U, idx, n, ctrl), q)
                                pl = (lambda m, q=q, U=U, idx=idx, n=n, ctrl=ctrl: dict(cx_payload(m, {'q': q, 'U': U}), idx=list(idx), n=n, ctrl=list(ctrl), kind='control'))
                                sym_call(chk, lambda: numqi.sim.state.apply_control_n_gate(q, U, set(ctrl), idx), f'apply_control_n_gate[n={n},ctrl={ctrl},tgt={idx}]',
                                         'state.apply_control_n_gate!=ControlledEmbed', ('apply_gate', pl), lambda got, ref=ref: all_eq(got, ref))
            # Born marginals
            for r in range(1, n + 1):
                for keep in itertools.combinations(range(n), r):
                    chk.configurations += 1
                    ref = born(q, list(keep), n)
                    pl = (lambda m, q=q, keep=keep, n=n: dict(cx_payload(m, {'q': q, 'U': H.cx_array('z', (1, 1))}), idx=list(keep), n=n, kind='prob'))
                    sym_call(chk, lambda: numqi.sim.state.reduce_to_probability(q, set(keep)), f'reduce_to_probability[n={n},keep={keep}]', 'state.reduce_to_probability!=Born',
                             ('apply_gate', pl), lambda got, ref=ref: all_eq(got, ref))
        # 2. density matrix
        for n in range(1, nmax_dm + 1):
            rho = H.cx_array(f'rho{n}', (2 ** n, 2 ** n))
            for k in range(1, min(2, n) + 1):
                U = H.cx_array(f'u{k}', (2 ** k, 2 ** k))
                for idx in itertools.permutations(range(n), k):
                    chk.configurations += 1
                    E = embed(U, idx, n)
                    Eh = np.empty_like(E)
                    for i in range(E.shape[0]):
                        for j in range(E.shape[1]):
                            e = E[j, i]
                            Eh[i, j] = e.conjugate() if hasattr(e, 'conjugate') else e
                    ref = np.dot(np.dot(E, A.plain(rho)), Eh)
                    pl = (lambda m, rho=rho, U=U, idx=idx, n=n: dict(cx_payload(m, {'rho': rho, 'U': U, 'q': H.cx_array('z', 1)}), idx=list(idx), n=n, kind='dm', idx_list=True))
                    sym_call(chk, lambda: numqi.sim.dm.apply_gate(rho, U, list(idx)), f'dm.apply_gate[n={n},idx={idx}]', 'dm.apply_gate!=E.rho.E^H', ('apply_gate', pl),
                             lambda got, ref=ref: all_eq(got, ref))
                    ref = np.trace(np.dot(A.plain(rho), E))
                    pl = (lambda m, rho=rho, U=U, idx=idx, n=n: dict(cx_payload(m, {'rho': rho, 'U': U, 'q': H.cx_array('z', 1)}), idx=list(idx), n=n, kind='expect'))
                    sym_call(chk, lambda: numqi.sim.dm.operator_expectation(rho, U, idx), f'dm.operator_expectation[n={n},idx={idx}]', 'dm.operator_expectation!=Tr(rho.O)',
                             ('apply_gate', pl), lambda got, ref=ref: all_eq([got], [ref]))
        # 3. inner_product_psi0_O_psi1
        for n in (2, 3) if quick else (2, 3, 4):
            p0 = H.cx_array('p0', 2 ** n)
            p1 = H.cx_array('p1', 2 ** n)
            Ua = H.cx_array('ua', (2, 2))
            Ub = H.cx_array('ub', (2, 2))
            Uc = H.cx_array('uc', (4, 4))
            op_list = [[(Ua, 0), (Ub, n - 1)], [(Uc, n - 1, 0)], [(Ua, 1), (Uc, 0, 1), (Ub, 0)]]
            refs = []
            for term in op_list:
                M = None
                for t in term:
                    E = embed(t[0], tuple(t[1:]), n)
                    M = E if M is None else np.dot(M, E)
                v = mv(M, p1)
                refs.append(np.dot(np.array([e.conjugate() for e in A.plain(p0)], dtype=object), v))
            chk.configurations += 1
            pl = (lambda m, n=n, arrs={'p0': p0, 'p1': p1, 'Ua': Ua, 'Ub': Ub, 'Uc': Uc}: dict(cx_payload(m, arrs), n=n))
            sym_call(chk, lambda: numqi.sim.state.inner_product_psi0_O_psi1(p0, p1, op_list), f'inner_product_psi0_O_psi1[n={n}]', 'state.inner_product_psi0_O_psi1', ('inner', pl),
                     lambda got, refs=refs: all_eq(got, refs))
        # 4. gate constructors unitary for every angle (angle abstraction: c^2+s^2=1)
        th = S.sc_var('theta')
        ph = S.sc_var('phi')
        la = S.sc_var('lam')
        for nm, args in (('rx', (th,)), ('ry', (th,)), ('rz', (th,)), ('u3', (th, ph, la)), ('rzz', (th,))):
            try:
                U = getattr(numqi.gate, nm)(*args)
            except S.EngineError as e:
                chk.engine_error(f'gate.{nm}', e)
                continue
            U = A.plain(U) if isinstance(U, np.ndarray) else U
            d = U.shape[-1]
            U = U.reshape(d, d)
            Uh = np.empty_like(U)
            for i in range(d):
                for j in range(d):
                    Uh[i, j] = S.as_sc(U[j, i]).conjugate()
            prod = np.dot(Uh, U)
            chk.configurations += 1
            chk.add(f'gate.{nm} unitary for all angles', ctx.facts, all_eq(prod, np.eye(d, dtype=object)), key=f'gate.{nm} not unitary')
            chk.add(f'gate.{nm} reach', ctx.facts, ir.TRUE, kind='reach')
        # 5. circuit programs
        for n in (2, 3):
            inst = gate_instances(n)
            progs = [(g,) for g in inst]
            pairs = list(itertools.product(inst, inst))
            rng.shuffle(pairs)
            progs += pairs[:(120 if quick else 1500)]
            if not quick:
                for _ in range(150):
                    progs.append(tuple(rng.choice(inst) for _ in range(rng.randint(3, 6))))
            q = H.cx_array(f'cq{n}', 2 ** n)
            for pi, prog in enumerate(progs):
                touched = set()
                for g in prog:
                    touched |= set(g[2]) | set(g[3])
                if max(touched) != n - 1:
                    continue
                chk.configurations += 1
                circ, ops = build_program(n, prog, f'p{n}_{pi}_')
                ref = q
                for U, tgt, ctrl in ops:
                    ref = mv(embed(U if isinstance(U, np.ndarray) else np.asarray(U), tgt, n, ctrl), ref)
                names = '|'.join(f'{g[1]}{g[3]}{g[2]}' for g in prog)
                arrs = {'q': q}
                for k, (U, _, _) in enumerate(ops):
                    if isinstance(U, A.SymArray):
                        arrs[f'g{k}'] = U
                pl = (lambda m, arrs=arrs, prog=prog, n=n: dict(cx_payload(m, arrs), prog=[list(g) for g in prog], n=n, what='apply_state'))
                sym_call(chk, lambda: circ.apply_state(q), f'Circuit.apply_state[n={n}:{names}]', 'Circuit.apply_state!=ordered product', ('program', pl),
                         lambda got, ref=ref: all_eq(got, ref))
                if len(prog) <= 2 and (pi % 3 == 0 or not quick):
                    pl2 = (lambda m, arrs=arrs, prog=prog, n=n: dict(cx_payload(m, arrs), prog=[list(g) for g in prog], n=n, what='to_unitary'))
                    sym_call(chk, lambda: mv(circ.to_unitary(), q), f'Circuit.to_unitary.q==ordered product[n={n}:{names}]', 'Circuit.to_unitary!=ordered product', ('program', pl2),
                             lambda got, ref=ref: all_eq(got, ref))
                if len(prog) <= 2 and pi % 5 == 0:
                    delta = 1
                    circ.shift_qubit_index_(delta)
                    q2 = H.cx_array(f'sq{n}', 2 ** (n + delta))
                    ref2 = q2
                    for U, tgt, ctrl in ops:
                        ref2 = mv(embed(U if isinstance(U, np.ndarray) else np.asarray(U), tuple(t + delta for t in tgt), n + delta,
                                        tuple(c + delta for c in ctrl)), ref2)
                    arrs2 = dict(arrs, q2=q2)
                    pl3 = (lambda m, arrs2=arrs2, prog=prog, n=n: dict(cx_payload(m, arrs2), prog=[list(g) for g in prog], n=n, what='shift', shift=1))
                    sym_call(chk, lambda: circ.apply_state(q2), f'Circuit.shift_qubit_index_[n={n}:{names}]', 'Circuit.shift_qubit_index_ != relabelling', ('program', pl3),
                             lambda got2, ref2=ref2: all_eq(got2, ref2))
    chk.validation(nval)
    chk.notes_from(ctx)
    chk.assume('module-level gate constants (H, T) are lifted to exact algebraic numbers (1/sqrt2 as prime radical)')
    chk.solve(timeout_s=60 if quick else 300)


def _validate(chk, sym_out, sym_inputs, real_fn, rng):
    """encoding validation: symbolic result evaluated at random concrete inputs == real function with real NumPy"""
    env = H.random_env(sym_inputs, rng)
    H.complete_env(S.ctx(), env)
    conc = [H.eval_array(a, env) for a in sym_inputs]
    want = real_fn(*conc)
    got = H.eval_array(sym_out, env)
    if not H.close(got, want, 1e-9):
        chk.validation(0, [f'symbolic vs real NumPy differ: max {np.max(np.abs(got - want))}'])
    return 1
