"""Backend equivalence: the PyTorch branch of a numqi function computes, on the same symbolic input, the same exact values as
its NumPy branch.  The torch branch runs unmodified on a symnp.symtorch.SymTensor; the obligation `torch == numpy` is
discharged by the solver per path (most fold syntactically because both branches build the same hash-consed terms), so every
result established for the NumPy branch transfers to the torch branch.  The torch model itself is validated against the real
torch on random concrete inputs (chk.validation)."""
import sys
import numpy as np
import torch
from symnp import ir, scalars as S, arrays as A, facade, symtorch as ST
from symnp.scalars import SC
from . import common as H


def torch_globals(tf, eg=None):
    """extra_globals entry rebinding `torch` in every imported numqi module that uses it"""
    eg = {k: dict(v) for k, v in (eg or {}).items()}
    for name, mod in list(sys.modules.items()):
        if mod is None or not (name == 'numqi' or name.startswith('numqi.')):
            continue
        if getattr(mod, '__dict__', {}).get('torch') is torch:
            eg.setdefault(name, {})['torch'] = tf
    return eg


def to_real_torch(x):
    if isinstance(x, np.ndarray):
        return torch.tensor(x)
    return x


def from_torch(x):
    if isinstance(x, torch.Tensor):
        return x.detach().resolve_conj().numpy()
    if isinstance(x, (list, tuple)):
        return type(x)(from_torch(e) for e in x)
    return x


def _sym_of(x):
    if isinstance(x, ST.SymTensor):
        return x._sym
    if isinstance(x, torch.Tensor):
        return from_torch(x)
    return x


def backend_equiv(chk, label, call, sym_inputs, replay, key, *, np_fac=None, eg=None, stubs=None, pre=(), rng=None, real_call=None,
                  feas_timeout_ms=2000, max_paths=64, tol=1e-9):
    """call(inputs, as_torch) runs the numqi function on a list of arrays (SymArrays, or SymTensors when as_torch).
    Adds per path: torch result == numpy result (values, shape, real/complex kind), torch raises iff numpy raises.
    real_call(concrete_arrays, as_torch) (default: call on real arrays / real tensors) is used for the validation of the torch
    model against the real torch."""
    tf = ST.torch_facade(stubs=stubs)
    egs = torch_globals(tf, eg)

    def body():
        try:
            a = call(list(sym_inputs), False)
        except Exception as e:                                  # noqa: BLE001 (path steering exceptions are BaseException)
            a = e
        try:
            b = call([ST.tensor(x.copy()) for x in sym_inputs], True)
        except S.EngineError:
            raise
        except Exception as e:                                  # noqa: BLE001
            b = e
        return a, b
    try:
        paths, st = H.run_paths(body, list(pre), np_facade=np_fac, extra_globals=egs, feas_timeout_ms=feas_timeout_ms, max_paths=max_paths)
    except S.EngineError as e:
        chk.engine_error(f'{label}: torch branch', e)
        return 0
    chk.add_path_stats(st)
    chk.configurations += 1
    n_ok = 0
    for pi, path in enumerate(paths):
        if path.status != 'return':
            chk.engine_error(f'{label}: torch branch', path.value)
            continue
        a, b = path.value
        base = list(pre) + path.pc + path.facts
        if isinstance(a, Exception) or isinstance(b, Exception):
            same = isinstance(a, Exception) and isinstance(b, Exception)
            chk.add(f'{label}: torch branch raises iff the numpy branch raises (path {pi})', base, ir.bconst(same), key=key + ' torch/numpy raise differently', replay=replay)
            continue
        bs = _sym_of(b)
        if isinstance(a, (tuple, list)):
            pairs = list(zip(a, [_sym_of(x) for x in b]))
        else:
            pairs = [(a, bs)]
        cl = []
        for x, y in pairs:
            x = x if isinstance(x, np.ndarray) else np.asarray(x, dtype=object)
            y = y if isinstance(y, np.ndarray) else np.asarray(y, dtype=object)
            if tuple(x.shape) != tuple(y.shape) or (np.dtype(getattr(x, 'dtype', object)).kind == 'c') != (np.dtype(getattr(y, 'dtype', object)).kind == 'c'):
                cl.append(ir.FALSE)
                continue
            cl.extend(H.eq_sc(p, q) for p, q in zip(H.elems(x), H.elems(y)))
        chk.add(f'{label}: torch branch == numpy branch (path {pi})', base, ir.band_all(cl), key=key + ' torch != numpy', replay=replay)
        n_ok += 1
        if pi == 0 and rng is not None:
            # validation of the torch model: symbolic torch-branch result evaluated at a random point vs the real torch
            env = H.complete_env(path.ctx, H.random_env(list(sym_inputs), rng))
            conc = [H.eval_array(x, env) for x in sym_inputs]
            errs = []
            try:
                rc = real_call or (lambda arrs, as_torch: call([to_real_torch(v) for v in arrs] if as_torch else arrs, as_torch))
                want = from_torch(rc(conc, True))
                want = list(want) if isinstance(want, (tuple, list)) else [want]
                for (x, y), w in zip(pairs, want):
                    got = H.eval_array(y, env)
                    if not H.close(got, np.asarray(w), tol):
                        errs.append(f'{label}: symbolic torch branch differs from real torch at a random point')
            except Exception as e:                              # noqa: BLE001
                errs.append(f'{label}: real torch call failed in validation: {type(e).__name__}: {e}')
            chk.validation(1, errs)
    return n_ok


def replay_backend(call, arrays, tol=1e-9):
    """(reproduced, message): real NumPy branch vs real torch branch on concrete arrays"""
    def one(as_torch):
        try:
            r = call([to_real_torch(np.asarray(v)) for v in arrays] if as_torch else [np.asarray(v) for v in arrays], as_torch)
            return from_torch(r)
        except Exception as e:                                  # noqa: BLE001
            return e
    a, b = one(False), one(True)
    if isinstance(a, Exception) or isinstance(b, Exception):
        if isinstance(a, Exception) and isinstance(b, Exception):
            return False, 'both backends raise'
        return True, f'numpy branch -> {type(a).__name__ if isinstance(a, Exception) else "value"}, torch branch -> {type(b).__name__ if isinstance(b, Exception) else "value"}: {a if isinstance(a, Exception) else b}'
    la = list(a) if isinstance(a, (tuple, list)) else [a]
    lb = list(b) if isinstance(b, (tuple, list)) else [b]
    for x, y in zip(la, lb):
        x, y = np.asarray(x), np.asarray(y)
        if x.shape != y.shape:
            return True, f'shapes differ: numpy {x.shape}, torch {y.shape}'
        if not H.close(x, y, tol):
            return True, f'torch branch differs from numpy branch by {float(np.max(np.abs(x - y))):.3g}'
    return False, 'backends agree'
