"""C04 - hand-written backward passes return the true gradient (per-gate lemmas + sweep bookkeeping + Knill-Laflamme op)."""
import itertools
import random
import types
import numpy as np
import torch
import numqi
import numqi.sim.state as ST
import numqi.sim._torch_utils as TU
import numqi.qec._internal as QI
from symnp import ir, scalars as S, arrays as A, facade
from symnp.scalars import SC, Dual
from . import common as H
from . import torchsup as TS
from symnp import symtorch as SYT
from .C03 import embed, mv

TOL = 1e-7


def eqs(xs, ys):
    xs, ys = H.elems(xs), H.elems(ys)
    assert len(xs) == len(ys), (len(xs), len(ys))
    return ir.band_all(H.eq_sc(a, b) for a, b in zip(xs, ys))


def conj_arr(a):
    return A.sym_array(np.array([S.as_sc(e).conjugate() for e in H.elems(a)], dtype=object).reshape(np.shape(a)), np.complex128)


def dual_dirs(arr):
    """for a symbolic complex array: list of (flat index, part, Dual array with unit tangent on that real coordinate)"""
    p = A.plain(arr)
    out = []
    for k in range(p.size):
        for part, t in (('re', SC(ir.ONE)), ('im', SC(ir.ZERO, ir.ONE))):
            d = np.empty(p.size, dtype=object)
            for j, e in enumerate(p.reshape(-1)):
                d[j] = Dual(S.as_sc(e), t if j == k else SC(ir.ZERO))
            out.append((k, part, A.wrap(d.reshape(p.shape), np.complex128)))
    return out


def torch_grad_from_tangents(G, t_re, t_im):
    """PyTorch convention: grad_k = dL(Re direction) + i dL(Im direction), dL = Re sum_j conj(G_j) t_j"""
    def dL(t):
        acc = SC(ir.ZERO)
        for g, tj in zip(H.elems(G), t):
            acc = acc + (S.as_sc(g).conjugate() * tj).real
        return acc
    a, b = dL(t_re), dL(t_im)
    return SC(a.re, b.re)


def tangents_of(out):
    return [e.d if isinstance(e, Dual) else SC(ir.ZERO) for e in H.elems(out)]


# ---------------------------------------------------------------- numeric replay: finite differences of the real forward vs the real backward
def replay_gate(p):
    n, idx, ctrl = p['n'], tuple(p['idx']), tuple(p['ctrl'])
    rng = np.random.default_rng(11)
    k = len(idx)
    # random unitary gate, state and cotangent
    M = rng.normal(size=(2 ** k, 2 ** k)) + 1j * rng.normal(size=(2 ** k, 2 ** k))
    U = np.linalg.qr(M)[0]
    q = rng.normal(size=2 ** n) + 1j * rng.normal(size=2 ** n)
    g = rng.normal(size=2 ** n) + 1j * rng.normal(size=2 ** n)
    fwd = (lambda q_, U_: ST.apply_control_n_gate(q_, U_, set(ctrl), idx)) if ctrl else (lambda q_, U_: ST.apply_gate(q_, U_, idx))
    out = fwd(q, U)
    if ctrl:
        qc, qg, og = ST.apply_control_n_gate_grad(out.conj(), g, U, set(ctrl), idx)
    else:
        qc, qg, og = ST.apply_gate_grad(out.conj(), g, U, idx)
    bad = not H.close(qc, q.conj(), TOL)
    eps = 1e-6
    def num_grad(f, z):
        gr = np.zeros(z.shape, dtype=complex)
        for i in np.ndindex(*z.shape):
            for part, dz in (('re', eps), ('im', 1j * eps)):
                zp = z.copy(); zp[i] += dz
                zm = z.copy(); zm[i] -= dz
                d = np.real(np.vdot(g, (f(zp) - f(zm)) / (2 * eps)))
                gr[i] += d if part == 're' else 1j * d
        return gr
    bad |= not H.close(qg, num_grad(lambda z: fwd(z, U), q), 1e-5)
    bad |= not H.close(og, num_grad(lambda z: fwd(q, z), U), 1e-5)
    return bad, f'apply_{"control_n_" if ctrl else ""}gate_grad n={n} targets={idx} controls={ctrl}: un-applied state / gradients differ from finite differences'


def build_test_circuits():
    """small circuits exercising shared parameters, placeholder parameters, controls and fixed gates"""
    out = []
    c = numqi.sim.Circuit(default_requires_grad=True)
    g = c.rx(0, 0.3)
    c.cnot(0, 1)
    c.append_gate(g, 1)          # shared parameter
    c.ry(1, 0.7)
    out.append(('shared rx + cnot + ry', c, {}))
    c = numqi.sim.Circuit(default_requires_grad=True)
    c.H(0)
    c.crx(0, 1, 0.2)
    c.rz(0, 0.5)
    c.crx(1, 0, 0.9)
    out.append(('H + crx + rz + crx', c, {}))
    c = numqi.sim.Circuit(default_requires_grad=True)
    c.ry(0, c.P['a'][0])
    c.rzz((0, 1), 0.4)
    c.ry(1, c.P['a'][1])
    g = c.u3(0, (0.1, 0.2, 0.3))
    c.append_gate(g, 1)
    out.append(('placeholder ry + rzz + shared u3', c, {'a': torch.tensor([0.3, 0.6], dtype=torch.float64)}))
    return out


def replay_sweep(p):
    name, circ, P = build_test_circuits()[p['circuit']]
    model = TU.CircuitTorchWrapper(circ)
    if P:
        model.setP(**{k: torch.nn.Parameter(v.clone()) for k, v in P.items()})
    n = circ.num_qubit
    rng = np.random.default_rng(5)
    q0 = rng.normal(size=2 ** n) + 1j * rng.normal(size=2 ** n)
    q0 /= np.linalg.norm(q0)
    gvec = torch.tensor(rng.normal(size=2 ** n) + 1j * rng.normal(size=2 ** n))
    def loss_of():
        out = model(torch.tensor(q0))
        return torch.real(torch.vdot(gvec, out))
    loss = loss_of()
    params = list(model.parameters())
    grads = torch.autograd.grad(loss, params, allow_unused=True)
    bad = False
    eps = 1e-6
    for par, gr in zip(params, grads):
        flat = par.detach().reshape(-1)
        for i in range(flat.numel()):
            old = flat[i].item()
            with torch.no_grad():
                par.reshape(-1)[i] = old + eps
            lp = loss_of().item()
            with torch.no_grad():
                par.reshape(-1)[i] = old - eps
            lm = loss_of().item()
            with torch.no_grad():
                par.reshape(-1)[i] = old
            fd = (lp - lm) / (2 * eps)
            if gr is None or abs(gr.reshape(-1)[i].item() - fd) > 1e-5:
                bad = True
    return bad, f'circuit "{name}": gradient delivered by the hand-written sweep differs from finite differences'


def kl_errs(n):
    """error sequences for the Knill-Laflamme op: library-generated ones (one factor per qubit) plus sequences with several non-commuting factors on
    the same / overlapping qubits and a non-Hermitian factor (the order in which the daggered factors are applied matters only there)"""
    errs = numqi.qec.make_error_list(n, 2 if n < 3 else 3)
    errs = errs[:4] + errs[-2:]
    X, Y, Z = numqi.gate.X, numqi.gate.Y, numqi.gate.Z
    Sg = np.array([[1, 0], [0, 1j]])
    CX = np.array([[1, 0, 0, 0], [0, 1, 0, 0], [0, 0, 0, 1], [0, 0, 1, 0]], dtype=float)
    errs = errs + [[([0], X), ([0], Z)], [([0], Sg), ([1], X), ([0], Y)], [([0, 1], CX), ([1], Sg), ([0], X)]]
    return errs


def replay_kl(p):
    rng = np.random.default_rng(3)
    K, n = p['K'], p['n']
    q = rng.normal(size=(K, 2 ** n)) + 1j * rng.normal(size=(K, 2 ** n))
    errs = kl_errs(n)
    qt = torch.tensor(q, requires_grad=True)
    G = torch.tensor(rng.normal(size=(len(errs), K, K)) + 1j * rng.normal(size=(len(errs), K, K)))
    loss = torch.real(torch.sum(torch.conj(G) * numqi.qec.knill_laflamme_inner_product(qt, errs)))
    loss.backward()
    got = qt.grad.numpy()
    eps = 1e-6
    ref = np.zeros_like(q)
    f = lambda z: float(np.real(np.sum(np.conj(G.numpy()) * numqi.qec.knill_laflamme_inner_product(z, errs))))
    for i in np.ndindex(*q.shape):
        for part, dz in (('re', eps), ('im', 1j * eps)):
            zp = q.copy(); zp[i] += dz
            zm = q.copy(); zm[i] -= dz
            d = (f(zp) - f(zm)) / (2 * eps)
            ref[i] += d if part == 're' else 1j * d
    return (not H.close(got, ref, 1e-5)), f'Knill-Laflamme inner product backward (K={K}, n={n}) differs from finite differences'


def replay_sqrtm(p):
    """real torch: backward of PSDMatrixSqrtm / the repeated square root against finite differences of the forward value"""
    import torch
    import numqi._torch_op as TO
    n, repeat = p['n'], p['repeat']
    g = np.random.default_rng(5)
    for trial in range(6):
        M = g.normal(size=(n, n)) + 1j * g.normal(size=(n, n))
        Am = M @ M.conj().T + 0.3 * np.eye(n)
        Gm = g.normal(size=(n, n)) + 1j * g.normal(size=(n, n))
        Gm = Gm + Gm.conj().T
        R, ctx = TO._torch_psd_sqrtm_forward_repeat(torch.tensor(Am), repeat)
        X = TO._torch_psd_sqrtm_backward_repeat(torch.tensor(Gm), ctx, repeat).numpy()
        # <G, dR> == <X, dA> for Hermitian directions dA (central differences of the forward)
        for _ in range(3):
            dA = g.normal(size=(n, n)) + 1j * g.normal(size=(n, n))
            dA = dA + dA.conj().T
            h = 1e-6
            Rp = TO._torch_psd_sqrtm_forward_repeat(torch.tensor(Am + h * dA), repeat)[0].numpy()
            Rm = TO._torch_psd_sqrtm_forward_repeat(torch.tensor(Am - h * dA), repeat)[0].numpy()
            lhs = np.trace(Gm.conj().T @ ((Rp - Rm) / (2 * h))).real
            rhs = np.trace(X.conj().T @ dA).real
            if abs(lhs - rhs) > 1e-5 * max(1.0, abs(lhs)):
                return True, f'PSD matrix root (n={n}, repeat={repeat}): <G,dR> = {lhs:.8g} but <backward(G),dA> = {rhs:.8g}'
    return False, 'backward agrees with finite differences'


def replay_sqrtm_batch(p):
    import torch
    import numqi._torch_op as TO
    n, repeat, B = p['n'], p['repeat'], p['B']
    g = np.random.default_rng(11)
    for trial in range(40):
        mats, gs = [], []
        for b in range(B):
            r = n if (trial + b) % 2 else n - 1            # mix full-rank and rank-deficient members
            M = g.normal(size=(n, r)) + 1j * g.normal(size=(n, r))
            mats.append(M @ M.conj().T)
            Gm = g.normal(size=(n, n)) + 1j * g.normal(size=(n, n))
            gs.append(Gm + Gm.conj().T)
        Ab, Gb = torch.tensor(np.stack(mats)), torch.tensor(np.stack(gs))
        _, ctx = TO._torch_psd_sqrtm_forward_repeat(Ab, repeat)
        full = TO._torch_psd_sqrtm_backward_repeat(Gb, ctx, repeat).numpy()
        for b in range(B):
            one = TO._torch_psd_sqrtm_backward_repeat(Gb[b:b + 1], tuple(t[b:b + 1] for t in ctx), repeat).numpy()[0]
            if not np.all(np.isfinite(one)) or not np.all(np.isfinite(full[b])):
                continue
            if np.abs(full[b] - one).max() > 1e-9 * max(1.0, np.abs(one).max()):
                return True, f'PSD matrix root backward (n={n}, repeat={repeat}): member {b} of a batch of {B} differs from the same member alone by {np.abs(full[b] - one).max():.3g}'
    return False, 'batched backward equals per-member backward on 40 mixed-rank batches'


REPLAYERS = {'sqrtm': replay_sqrtm, 'sqrtm_batch': replay_sqrtm_batch, 'gate': replay_gate, 'sweep': replay_sweep, 'kl': replay_kl}


# ---------------------------------------------------------------- stand-ins for torch objects
class FakeTensor:
    def __init__(self, arr):
        self.arr = arr

    def detach(self):
        return self

    def numpy(self):
        return self.arr


class FakeCtx:
    def __init__(self):
        self.saved_tensors = ()

    def save_for_backward(self, *t):
        self.saved_tensors = t


def torch_facade():
    return facade.Facade(torch, {'from_numpy': lambda a: FakeTensor(a), 'Tensor': FakeTensor}, 'torch')


def run(chk):
    quick = chk.tier == 'quick'
    rng = random.Random(chk.seed)
    chk.fn('numqi.sim.state.apply_gate_grad', 'numqi.sim.state.apply_control_n_gate_grad', 'numqi.sim._torch_utils._CircuitFunction.forward/backward',
           'numqi.sim._torch_utils.CircuitTorchWrapper._setup (concrete: produces ind_gate_to_info)', 'numqi.qec._internal._KnillLaflammeInnerProductTorchOp.forward/backward')
    for k, v in REPLAYERS.items():
        chk.register_replayer(k, v)
    chk.out_of_claim('PSDMatrixSqrtm on singular matrices (zero eigenvalue branch), PSDMatrixLogm (Pade quadrature + torch.linalg.solve under autograd; its only hand-written derivative is the repeated square root, which is inside); the chain from angles to gate matrices (torch autograd); hf_model_wrapper / scipy bridge; all variational model losses; '
                     'non-unitary gates inside a differentiated circuit (the sweep un-applies gates, so the code itself assumes unitarity); custom gates; the inductive composition of the lemmas is an argument, not a query')
    nmax = 3
    chk.bound(lemmas=f'n<={nmax}, every ordered target tuple of size 1..2 and every disjoint control set of size 1..2; state, cotangent and gate matrix fully symbolic '
              '(L1: unitary vocabulary: e^(i phi)[[a,b],[-conj b,conj a]] with |a|^2+|b|^2=1, rzz as a phase diagonal, Swap)',
              sweeps='3 circuits x (shared / placeholder / controlled / fixed gates), gate matrices and cotangent symbolic; Knill-Laflamme: K=2, n<=3, 9 error sequences incl. several non-commuting factors on overlapping qubits')
    ctx = S.new_ctx('c04')
    with facade.patched():
        # ---- per-gate lemmas
        for n in range(1, nmax + 1):
            q = H.cx_array(f'q{n}_', 2 ** n)
            g = H.cx_array(f'g{n}_', 2 ** n)
            for k in (1, 2):
                if k > n:
                    continue
                U = H.cx_array(f'u{k}_', (2 ** k, 2 ** k))
                for idx in itertools.permutations(range(n), k):
                    rest = [x for x in range(n) if x not in idx]
                    ctrl_sets = [()] + [c for nc in (1, 2) for c in itertools.combinations(rest, nc)]
                    for ctrl in ctrl_sets:
                        chk.configurations += 1
                        if ctrl:
                            fwd = lambda q_, U_, idx=idx, ctrl=ctrl: ST.apply_control_n_gate(q_, U_, set(ctrl), idx)
                            bwd = lambda qc, qg, U_, idx=idx, ctrl=ctrl: ST.apply_control_n_gate_grad(qc, qg, U_, set(ctrl), idx)
                        else:
                            fwd = lambda q_, U_, idx=idx: ST.apply_gate(q_, U_, idx)
                            bwd = lambda qc, qg, U_, idx=idx: ST.apply_gate_grad(qc, qg, U_, idx)
                        tag = f'[n={n},targets={idx},controls={ctrl}]'
                        rp = ('gate', {'n': n, 'idx': list(idx), 'ctrl': list(ctrl)})
                        out = fwd(q, U)
                        qc_ret, qg_ret, og_ret = bwd(conj_arr(out), g, U)
                        E = embed(U, idx, n, ctrl)
                        Eh = np.empty_like(E)
                        for i in range(E.shape[0]):
                            for j in range(E.shape[1]):
                                Eh[i, j] = S.as_sc(E[j, i]).conjugate()
                        # L2: cotangent of the state
                        chk.add(f'L2 returned q0_grad == E^H g {tag}', [], eqs(qg_ret, mv(Eh, g)), key='apply_gate_grad: state cotangent', replay=rp)
                        # L3': op_grad == J^H g at the state the function believes to be the pre-state (conj of the returned q0_conj)
                        qbel = conj_arr(qc_ret)
                        tang = {}
                        for kk, part, Ud in dual_dirs(U):
                            tang[(kk, part)] = tangents_of(fwd(qbel, Ud))
                        want = [torch_grad_from_tangents(g, tang[(kk, 're')], tang[(kk, 'im')]) for kk in range(U.size)]
                        chk.add(f"L3 returned op_grad == J^H g (dual-number Jacobian of the real forward) {tag}", [], eqs(og_ret, want), key='apply_gate_grad: gate gradient', replay=rp)
                        # tag_op_grad=False returns None
                        none_ok = (ST.apply_control_n_gate_grad(conj_arr(out), g, U, set(ctrl), idx, tag_op_grad=False)[2] is None) if ctrl else (ST.apply_gate_grad(conj_arr(out), g, U, idx, tag_op_grad=False)[2] is None)
                        chk.add(f'tag_op_grad=False returns no gate gradient {tag}', [], ir.bconst(none_ok), key='apply_gate_grad: tag_op_grad', replay=rp)
            # L1: un-apply for unitary gates
            a, b = S.sc_var(f'ua{n}', True), S.sc_var(f'ub{n}', True)
            phi = S.sc_var(f'uphi{n}')
            unit = H.eq_sc(a.real * a.real + a.imag * a.imag + b.real * b.real + b.imag * b.imag, 1)
            ph = (SC(ir.ZERO, ir.ONE) * phi).exp()
            U1 = A.sym_array([[ph * a, ph * b], [-(ph * b.conjugate()), ph * a.conjugate()]], np.complex128)
            th = S.sc_var(f'uth{n}')
            Uzz = numqi.gate.rzz(th)
            vocab = [(U1, 1, [unit], 'e^(i phi) SU(2)')]
            if n >= 2:
                vocab += [(A.sym_array(np.asarray(A.plain(Uzz)).reshape(4, 4), np.complex128), 2, [], 'rzz(theta)'), (A.sym_array(numqi.gate.Swap.astype(complex), np.complex128), 2, [], 'Swap'),
                          (A.sym_array(numqi.gate.CNOT.astype(complex), np.complex128), 2, [], 'CNOT matrix')]
            for Uv, k, pre, nm in vocab:
                for idx in itertools.permutations(range(n), k):
                    rest = [x for x in range(n) if x not in idx]
                    for ctrl in [()] + [c for c in itertools.combinations(rest, 1)]:
                        chk.configurations += 1
                        fwd = (lambda q_, U_: ST.apply_control_n_gate(q_, U_, set(ctrl), idx)) if ctrl else (lambda q_, U_: ST.apply_gate(q_, U_, idx))
                        out = fwd(q, Uv)
                        if ctrl:
                            qc_ret = ST.apply_control_n_gate_grad(conj_arr(out), g, Uv, set(ctrl), idx)[0]
                        else:
                            qc_ret = ST.apply_gate_grad(conj_arr(out), g, Uv, idx)[0]
                        chk.add(f'L1 un-apply: returned q0_conj == conj(pre-state) for unitary {nm} [n={n},targets={idx},controls={ctrl}]', ctx.facts + pre, eqs(qc_ret, conj_arr(q)),
                                key='apply_gate_grad: un-apply', replay=('gate', {'n': n, 'idx': list(idx), 'ctrl': list(ctrl)}))
    # ---- sweep bookkeeping: the real forward/backward with the two *_grad functions replaced by tagged symbolic stand-ins
    for ci, (name, circ, P) in enumerate(build_test_circuits()):
        chk.configurations += 1
        model = TU.CircuitTorchWrapper(circ)
        info = model.ind_gate_to_info
        names = info[-1]
        n = circ.num_qubit
        # number of distinct parameter rows per name
        nrows = {nm: 0 for nm in names}
        for i in range(max(info.keys()) + 1):
            if 'ind_torch' in info[i]:
                nrows[info[i]['name']] = max(nrows[info[i]['name']], info[i]['ind_torch'] + 1)
        gate_dim = {}
        for i in range(max(info.keys()) + 1):
            if 'ind_torch' in info[i]:
                idx = info[i]['index']
                kq = len(idx[1]) if info[i]['kind'] == 'control' else len(idx)
                gate_dim[info[i]['name']] = 2 ** kq
        gates = {nm: H.cx_array(f's{ci}_{nm}_', (nrows[nm], gate_dim[nm], gate_dim[nm])) for nm in names}
        q0 = H.cx_array(f's{ci}_q_', 2 ** n)
        gout = H.cx_array(f's{ci}_g_', 2 ** n)
        calls = []

        def mk_standin(kind):
            def f(q0_conj, q0_grad, op, *idx_args, tag_op_grad=True):
                k = len(calls)
                qc = H.cx_array(f's{ci}_call{k}_qc_', np.shape(q0_conj))
                qg = H.cx_array(f's{ci}_call{k}_qg_', np.shape(q0_grad))
                og = H.cx_array(f's{ci}_call{k}_og_', np.shape(op)) if tag_op_grad else None
                calls.append(dict(kind=kind, q0_conj=q0_conj, q0_grad=q0_grad, op=op, idx=idx_args, tag=tag_op_grad, out=(qc, qg, og)))
                return qc, qg, og
            return f
        tf = torch_facade()
        eg = {'numqi.sim._torch_utils': {'torch': tf}, 'numqi.sim.state': {'apply_gate_grad': mk_standin('unitary'), 'apply_control_n_gate_grad': mk_standin('control')}}
        fctx = FakeCtx()
        with facade.patched(None, eg):
            out_t = TU._CircuitFunction.forward(fctx, *[FakeTensor(gates[nm]) for nm in names], FakeTensor(q0), info)
            ret = TU._CircuitFunction.backward.__wrapped__(fctx, FakeTensor(gout))
        rp = ('sweep', {'circuit': ci})
        # forward value == ordered product of embedded gates (reference)
        ref = q0
        order = []
        for i in range(max(info.keys()) + 1):
            inf = info[i]
            arr = gates[inf['name']][inf['ind_torch']] if 'ind_torch' in inf else A.sym_array(np.asarray(inf['array'], dtype=complex), np.complex128)
            if inf['kind'] == 'control':
                ref = mv(embed(arr, tuple(inf['index'][1]), n, tuple(sorted(inf['index'][0]))), ref)
            else:
                ref = mv(embed(arr, tuple(inf['index']), n), ref)
            order.append((i, inf, arr))
        chk.add(f'sweep "{name}": forward == ordered product of embedded gates', ctx.facts, eqs(out_t.arr, ref), key='_CircuitFunction.forward', replay=rp)
        # backward bookkeeping
        ok = len(calls) == len(order) and len(ret) == len(names) + 2 and ret[-1] is None
        cl = [ir.bconst(ok)]
        if ok:
            prev_qc, prev_qg = conj_arr(out_t.arr), gout
            for cidx, (i, inf, arr) in zip(range(len(calls)), reversed(order)):
                c = calls[cidx]
                want_idx = (inf['index'][0], inf['index'][1]) if inf['kind'] == 'control' else (inf['index'],)
                cl.append(ir.bconst(c['kind'] == inf['kind'] and tuple(c['idx']) == tuple(want_idx) and c['tag'] == ('ind_torch' in inf)))
                cl += [eqs(c['q0_conj'], prev_qc), eqs(c['q0_grad'], prev_qg), eqs(c['op'], arr)]
                prev_qc, prev_qg = c['out'][0], c['out'][1]
            cl.append(eqs(ret[len(names)].arr, prev_qg))
            for ni, nm in enumerate(names):
                acc = np.zeros(gates[nm].shape, dtype=object)
                for cidx, (i, inf, arr) in zip(range(len(calls)), reversed(order)):
                    if 'ind_torch' in inf and inf['name'] == nm:
                        acc[inf['ind_torch']] = acc[inf['ind_torch']] + A.plain(calls[cidx]['out'][2])
                cl.append(eqs(ret[ni].arr, acc))
        chk.add(f'sweep "{name}": backward calls the per-gate gradients in reverse order with the forward gate matrices, threads (q0_conj, q0_grad) through them, '
                'and accumulates each gate gradient into its parameter slot (shared parameters summed)', ctx.facts, ir.band_all(cl), key='_CircuitFunction.backward bookkeeping', replay=rp)
    chk.stub('torch.from_numpy / Tensor.detach().numpy() -> identity wrappers around symbolic arrays; autograd ctx -> plain object; in the bookkeeping run apply_gate_grad / '
             'apply_control_n_gate_grad -> tagged fresh symbolic outputs (their own correctness is lemmas L1-L3)')
    # ---- Knill-Laflamme inner product: forward == reference, backward == torch-convention gradient (dual-number oracle); not holomorphic in q0
    for K, n in ((2, 2), (2, 3)) if quick else ((2, 2), (2, 3), (4, 3)):
        chk.configurations += 1
        q = H.cx_array(f'k{K}{n}_', (K, 2 ** n))
        errs = kl_errs(n)
        G = H.cx_array(f'kg{K}{n}_', (len(errs), K, K))
        eg = {'numqi.qec._internal': {'torch': torch_facade()}}
        fctx = FakeCtx()
        with facade.patched(None, eg):
            out_t = QI._KnillLaflammeInnerProductTorchOp.forward(fctx, FakeTensor(q), errs)
            ret = QI._KnillLaflammeInnerProductTorchOp.backward.__wrapped__(fctx, FakeTensor(G))
            plain_np = numqi.qec.knill_laflamme_inner_product(q, errs)
            rp = ('kl', {'K': K, 'n': n})
            chk.add(f'KL op forward == numpy knill_laflamme_inner_product [K={K},n={n}]', ctx.facts, eqs(out_t.arr, plain_np), key='KL forward', replay=rp)
            tang = {}
            for kk, part, qd in dual_dirs(q):
                tang[(kk, part)] = tangents_of(numqi.qec.knill_laflamme_inner_product(qd, errs))
        want = [torch_grad_from_tangents(G, tang[(kk, 're')], tang[(kk, 'im')]) for kk in range(q.size)]
        got = H.elems(ret[0].arr)
        for kk in range(q.size):
            chk.add(f'KL op backward[{kk}] == gradient of the forward (dual numbers, PyTorch convention) [K={K},n={n}]', ctx.facts, H.eq_sc(got[kk], want[kk]), key='KL backward', replay=rp)
        chk.add(f'KL op backward returns (grad, None) [K={K},n={n}]', [], ir.bconst(len(ret) == 2 and ret[1] is None), key='KL backward', replay=rp)
    chk.notes_from(ctx)
    chk.assume('gradient convention: for upstream cotangent G the gradient of input coordinate z_k is dL(Re z_k) + i dL(Im z_k) with dL = Re sum_j conj(G_j) d out_j (PyTorch), '
               'tangents d out_j from forward-mode dual numbers through the real forward functions')
    # ---- PSD matrix square root (and the repeated root used by the Pade logarithm): the hand-written backward solves the Sylvester equations
    #      S X + X S = G.  torch code on symbolic tensors; eigh by contract (lambda > 0, U unitary).  Lemma chain with the Gram matrices explicit:
    #        (1) R == U diag(s) U^dag, s_i^2 == lambda_i                                                  [identity]
    #        (2) R X + X R == U (D Q T + T Q D) U^dag  with Q = U^dag U, T = (U^dag G U) o 1/(s_i+s_j)      [identity in U, G, s: no constraint]
    #        (3) with Q = I:  D T + T D == U^dag G U                                                        [reciprocal facts]
    #        (4) U (U^dag G U) U^dag == P G P with P = U U^dag ; with P = I this is G                       [identity + substitution]
    import numqi._torch_op as TO
    chk.fn('numqi._torch_op._torch_psd_sqrtm_forward_repeat', 'numqi._torch_op._torch_psd_sqrtm_backward_repeat (PSDMatrixSqrtm, _PSDMatrixSqrtmRepeat)')
    chk.stub('torch.linalg.eigh -> symbolic (lambda, U): lambda > 0; U arbitrary complex (unitarity enters only in the substitution steps (3),(4))')

    def mm(*ms):
        out = ms[0]
        for m_ in ms[1:]:
            out = np.dot(out, m_)
        return out

    def dag(m_):
        o = np.empty(m_.shape[::-1], dtype=object)
        for i in range(m_.shape[0]):
            for j in range(m_.shape[1]):
                o[j, i] = S.as_sc(m_[i, j]).conjugate()
        return o

    def eqm(a_, b_):
        return [H.eq_sc(x, y) for x, y in zip(a_.reshape(-1), b_.reshape(-1))]

    # batches, including members with exactly-zero eigenvalues (the 0/0 diagonal terms are zeroed per member): batched backward == per-member backward
    for n, repeat, B in ((2, 1, 2),) if quick else ((2, 1, 2), (2, 2, 2), (3, 1, 2), (2, 1, 3)):
        chk.configurations += 1
        tag = f'sb{n}{repeat}{B}_'
        svb = [[S.sc_var(tag + f's{b}_{j}') for j in range(n)] for b in range(B)]
        Ub = H.cx_array(tag + 'u', (B, n, n))
        Gb = A.sym_array(np.stack([A.plain(H.herm_array(tag + f'g{b}_', n)) for b in range(B)]), np.complex128)
        tf = SYT.torch_facade()
        pre = [(x_ >= 0).n for row in svb for x_ in row]

        def body3(Gb=Gb, Ub=Ub, svb=svb, n=n, repeat=repeat, B=B):
            st_all = SYT.tensor(A.sym_array(np.array(svb, dtype=object), np.float64))
            full = TO._torch_psd_sqrtm_backward_repeat(SYT.tensor(Gb.copy()), (st_all, SYT.tensor(Ub.copy())), repeat)
            per = []
            for b in range(B):
                st_b = SYT.tensor(A.sym_array(np.array([svb[b]], dtype=object), np.float64))
                per.append(TO._torch_psd_sqrtm_backward_repeat(SYT.tensor(Gb[b:b + 1].copy()), (st_b, SYT.tensor(Ub[b:b + 1].copy())), repeat))
            return full, per
        try:
            paths, st = H.run_paths(body3, pre, extra_globals=TS.torch_globals(tf), feas_timeout_ms=2000, max_paths=300)
        except S.EngineError as e:
            chk.engine_error(f'PSD sqrtm batch n={n} repeat={repeat}', e)
            continue
        chk.add_path_stats(st)
        rp = ('sqrtm_batch', {'n': n, 'repeat': repeat, 'B': B})
        for pi, path in enumerate(paths):
            if path.status != 'return':
                chk.add(f'[PSD matrix root, n={n}, batch {B}] backward raises {type(path.value).__name__}: {path.value}', pre + path.pc + path.facts, ir.FALSE, key='PSD matrix root raises', replay=rp)
                continue
            full, per = path.value
            fl = A.plain(full._sym)
            cl = []
            for b in range(B):
                cl += [H.eq_sc(x, y) for x, y in zip(fl[b].reshape(-1), H.elems(per[b]._sym))]
            chk.add(f'[PSD matrix root, n={n}, repeat={repeat}, batch {B}] batched backward == per-member backward, eigenvalues >= 0 incl. exact zeros (path {pi})',
                    pre + path.pc + path.facts, ir.band_all(cl), key='PSD matrix root: batched backward differs from per-member backward', replay=rp)
            # (the 0/0 entries the code overwrites are unconstrained reciprocal variables: the division side conditions are deliberately NOT assumed here)
            chk.add(f'[PSD matrix root, n={n}, repeat={repeat}, batch {B}] reach (path {pi})', pre + path.pc + path.facts, ir.TRUE, kind='reach')
    # repeat >= 2 beyond the sizes the chain reaches: the r-round backward is the (r-1)-round backward (on s^2) of the one-round backward (on s) -
    # checked on the code itself; the one-round chain holds for every positive s, so the rounds compose
    for n, repeat in ((2, 2),) if quick else ((2, 2), (2, 3), (3, 2), (3, 3), (4, 2)):
        chk.configurations += 1
        tag = f'sc{n}{repeat}_'
        sv_ = [S.sc_var(tag + f's{j}') for j in range(n)]
        U = H.cx_array(tag + 'u', (1, n, n))
        G = H.herm_array(tag + 'g', n)
        tf = SYT.torch_facade()
        pre = [(x_ > 0).n for x_ in sv_]

        def body2(G=G, U=U, sv_=sv_, n=n, repeat=repeat):
            st_ = lambda pw: SYT.tensor(A.sym_array(np.array([x_ ** pw for x_ in sv_], dtype=object).reshape(1, n), np.float64))
            full = TO._torch_psd_sqrtm_backward_repeat(SYT.tensor(G.copy()), (st_(1), SYT.tensor(U.copy())), repeat)
            one = TO._torch_psd_sqrtm_backward_repeat(SYT.tensor(G.copy()), (st_(1), SYT.tensor(U.copy())), 1)
            rest = TO._torch_psd_sqrtm_backward_repeat(one, (st_(2), SYT.tensor(U.copy())), repeat - 1)
            return full, rest
        try:
            paths, st = H.run_paths(body2, pre, extra_globals=TS.torch_globals(tf), feas_timeout_ms=3000, max_paths=8)
        except S.EngineError as e:
            chk.engine_error(f'PSD sqrtm composition n={n} repeat={repeat}', e)
            continue
        chk.add_path_stats(st)
        rp = ('sqrtm', {'n': n, 'repeat': repeat})
        for pi, path in enumerate(paths):
            if path.status != 'return':
                chk.add(f'[PSD matrix root, n={n}] {repeat}-round backward raises {type(path.value).__name__}: {path.value}', pre + path.pc + path.facts, ir.FALSE, key='PSD matrix root raises', replay=rp)
                continue
            full, rest = path.value
            chk.add(f'[PSD matrix root, n={n}] backward with repeat={repeat} == backward with repeat={repeat - 1} on s^2 applied to the one-round backward on s (every s > 0, U, G)',
                    pre + path.pc + path.facts + [c for k_, c in path.side], ir.band_all(H.eq_sc(x, y) for x, y in zip(H.elems(full._sym), H.elems(rest._sym))),
                    key='PSD matrix root: backward is not the Sylvester solution', replay=rp)
    for n, repeat in ((2, 1), (2, 2)) if quick else ((2, 1), (2, 2), (3, 1)):
        chk.configurations += 1
        tag = f'sq{n}{repeat}_'
        lam = [S.sc_var(tag + f'l{j}') for j in range(n)]
        U = H.cx_array(tag + 'u', (1, n, n))
        G = H.herm_array(tag + 'g', n)
        Ad = H.herm_array(tag + 'a', n)

        def eigh_h(x, lam=lam, U=U, n=n):
            return SYT.tensor(A.sym_array(np.array(lam, dtype=object).reshape(1, n), np.float64)), SYT.tensor(U.copy())
        SYT.HANDLERS['linalg_eigh'] = eigh_h
        SYT.NOSHADOW.add('linalg_eigh')
        tf = SYT.torch_facade()
        pre = [(l_ > 0).n for l_ in lam]

        def body(Ad=Ad, G=G, repeat=repeat):
            R, ctx = TO._torch_psd_sqrtm_forward_repeat(SYT.tensor(Ad.copy()), repeat)
            X = TO._torch_psd_sqrtm_backward_repeat(SYT.tensor(G.copy()), ctx, repeat)
            return R, X, ctx[0]
        try:
            paths, st = H.run_paths(body, pre, extra_globals=TS.torch_globals(tf), feas_timeout_ms=3000, max_paths=8)
        except S.EngineError as e:
            chk.engine_error(f'PSD sqrtm n={n} repeat={repeat}', e)
            continue
        chk.add_path_stats(st)
        rp = ('sqrtm', {'n': n, 'repeat': repeat})
        key = 'PSD matrix root: backward is not the Sylvester solution'
        cfg = f'[PSD matrix root A^(1/2^{repeat}), n={n}]'
        for pi, path in enumerate(paths):
            if path.status != 'return':
                chk.add(f'{cfg} raises {type(path.value).__name__}: {path.value}', pre + path.pc + path.facts, ir.FALSE, key='PSD matrix root raises', replay=rp)
                continue
            R, X, sv = path.value
            with path.resume():
                base = pre + path.pc + path.facts + [c for k_, c in path.side]
                Rp, Xp, Up, Gp = A.plain(R._sym).reshape(n, n), A.plain(X._sym).reshape(n, n), A.plain(U)[0], A.plain(G)
                s_ = [S.as_sc(e) for e in A.plain(sv._sym).reshape(-1)]
                Ud = dag(Up)
                D = lambda k_: np.array([[(s_[i] ** (2 ** k_) if i == j else SC(ir.ZERO)) for j in range(n)] for i in range(n)], dtype=object)      # diag(s^(2^k))
                # (1)
                pw = 2 ** repeat
                chk.add(f'{cfg} (1): forward value == U diag(s) U^dag with s_i^{pw} == lambda_i', base, ir.band_all(eqm(Rp, mm(Up, D(0), Ud)) + [H.eq_sc(s_[i] ** pw, lam[i]) for i in range(n)]), key=key, replay=rp)
                Q = mm(Ud, Up)
                P = mm(Up, Ud)
                # the backward applies L_k^{-1} for k = 0 .. repeat-1 (L_k(Y) = S_k Y + Y S_k, S_k = U diag(s^(2^k)) U^dag); undo them in reverse order
                cur = Xp
                Tchain = []
                T = mm(Ud, Gp, Up)
                for k_ in range(repeat):
                    rec = np.array([[S.as_sc(1) / (s_[j] ** (2 ** k_) + s_[i] ** (2 ** k_)) for j in range(n)] for i in range(n)], dtype=object)      # operand order of the code: s.view(-1,1,N) + s.view(-1,N,1)
                    Tk = np.array([[S.as_sc(T[i, j]) * rec[i, j] for j in range(n)] for i in range(n)], dtype=object)
                    Tchain.append((T, Tk, k_))
                    T = mm(Q, Tk, Q) if k_ < repeat - 1 else Tk          # the next round conjugates U Tk U^dag again: U^dag (U Tk U^dag) U = Q Tk Q
                # (2) generic re-association identity (fresh matrix Tv and diagonal dv): (U dv U^dag)(U Tv U^dag) + (U Tv U^dag)(U dv U^dag) == U (dv Q Tv + Tv Q dv) U^dag
                Tv = A.plain(H.cx_array(tag + 'tv', (n, n)))
                dv = [S.sc_var(tag + f'dv{i}') for i in range(n)]
                Dv = np.array([[(dv[i] if i == j else SC(ir.ZERO)) for j in range(n)] for i in range(n)], dtype=object)
                Sv, Xv = mm(Up, Dv, Ud), mm(Up, Tv, Ud)
                chk.add(f'{cfg} (2): S Y + Y S == U (D Q T + T Q D) U^dag for S = U D U^dag, Y = U T U^dag, every U, T, D (identity)', [], ir.band_all(eqm(mm(Sv, Xv) + mm(Xv, Sv), mm(Up, mm(Dv, Q, Tv) + mm(Tv, Q, Dv), Ud))),
                        key=key, replay=rp)
                # (3) per round, with Q = I: D_k T_k + T_k D_k == T_in,k   (reciprocal facts);  T_in,k+1 = Q T_k Q = T_k
                for (Tin, Tk, k_) in Tchain:
                    chk.add(f'{cfg} (3) round {k_}: D_k T_k + T_k D_k == T_in (entrywise (s_i+s_j) / (s_i+s_j))', base, ir.band_all(eqm(mm(D(k_), Tk) + mm(Tk, D(k_)), Tin)), key=key, replay=rp)
                # code-level link for all rounds at once: X == U T_last U^dag with the chain built from Q explicitly (identity for every U)
                chk.add(f'{cfg} (2b): backward value == U T_last U^dag, T built round by round with Q = U^dag U explicit (identity)', base, ir.band_all(eqm(Xp, mm(Up, Tchain[-1][1], Ud))), key=key, replay=rp)
                # (4) U (U^dag G U) U^dag == P G P
                chk.add(f'{cfg} (4): U (U^dag G U) U^dag == (U U^dag) G (U U^dag) (identity); with U U^dag = I this is G', base, ir.band_all(eqm(mm(Up, mm(Ud, Gp, Up), Ud), mm(P, Gp, P))), key=key, replay=rp)
                chk.add(f'{cfg} reach', base, ir.TRUE, kind='reach')
        SYT.HANDLERS.pop('linalg_eigh', None)
    chk.solve(timeout_s=90 if quick else 600)
