"""C12 - channel representations are equivalent; built-in channels are CPTP for every rate (algebraic part)."""
import itertools
import random
import numpy as np
import numqi
from symnp import ir, scalars as S, arrays as A, facade
from symnp.scalars import SC
from . import common as H
from . import torchsup as T
from . import C12m

TOL = 1e-9
ch = numqi.channel


def dag(M):
    M = A.plain(M)
    out = np.empty(M.shape[::-1], dtype=object)
    for i in range(M.shape[0]):
        for j in range(M.shape[1]):
            out[j, i] = S.as_sc(M[i, j]).conjugate()
    return out


def apply_ref(K, rho):
    """sum_n K_n rho K_n^dagger with explicit loops"""
    K = A.plain(K)
    rho = A.plain(rho)
    N, dout, din = K.shape
    out = np.empty((dout, dout), dtype=object)
    for a in range(dout):
        for b in range(dout):
            acc = SC(ir.ZERO)
            for n in range(N):
                for i in range(din):
                    for j in range(din):
                        acc = acc + S.as_sc(K[n, a, i]) * S.as_sc(rho[i, j]) * S.as_sc(K[n, b, j]).conjugate()
            out[a, b] = acc
    return out


def eqs(xs, ys):
    xs, ys = H.elems(xs), H.elems(ys)
    assert len(xs) == len(ys), (len(xs), len(ys))
    return ir.band_all(H.eq_sc(a, b) for a, b in zip(xs, ys))


BACKEND = {
    'kraus_op_to_choi_op': lambda a, t: ch.kraus_op_to_choi_op(a[0]),
    'apply_choi_op': lambda a, t: ch.apply_choi_op(a[0], a[1]),
    'apply_kraus_op': lambda a, t: ch.apply_kraus_op(a[0], a[1]),
    'apply_super_op': lambda a, t: ch.apply_super_op(a[0], a[1]),
}


def replay(p):
    what = p['what']
    if what == 'kraus_back':
        din, dout = p['din'], p['dout']
        D = din * dout
        g = np.random.default_rng(3)
        for r in list(range(0, D + 1)) * 3:
            M = g.normal(size=(D, r)) + 1j * g.normal(size=(D, r))
            C = M @ M.conj().T if r else np.zeros((D, D), dtype=complex)
            K = ch.choi_op_to_kraus_op(C, din)
            back = ch.kraus_op_to_choi_op(K) if K.shape[0] else np.zeros((D, D))
            rho = g.normal(size=(din, din)) + 1j * g.normal(size=(din, din))
            a = ch.apply_kraus_op(K, rho) if K.shape[0] else np.zeros((dout, dout))
            b = ch.apply_choi_op(C, rho)
            if K.shape[1:] != (dout, din) or K.shape[0] != r or not H.close(back, C, 1e-8) or not H.close(a, b, 1e-8):
                return True, f'choi_op_to_kraus_op (din={din}, dout={dout}, rank {r}): Kraus operators obtained back do not reproduce the Choi operator / the channel action'
        return False, 'Kraus form obtained back reproduces the channel'
    if what == 'backend':
        arrs = [H.from_payload_cx(p, k) for k in p['names']]
        bad, msg = T.replay_backend(BACKEND[p['fn']], arrs)
        return bad, f"{p['fn']} (shapes {[a.shape for a in arrs]}): {msg}"
    if what == 'builtin':
        rate = p['rate']
        K = getattr(ch, p['name'])(rate)
        s = sum(x.conj().T @ x for x in K)
        return (not H.close(s, np.eye(2), TOL)), f"{p['name']}({rate}): sum K^dag K != I"
    K = H.from_payload_cx(p, 'K')
    N, dout, din = K.shape
    choi = ch.kraus_op_to_choi_op(K)
    sup = ch.kraus_op_to_super_op(K)
    if what == 'apply':
        rho = H.from_payload_cx(p, 'rho')
        ref = sum(x @ rho @ x.conj().T for x in K)
        r0 = ch.apply_kraus_op(K, rho)
        r1 = ch.apply_choi_op(choi, rho)
        r2 = ch.apply_super_op(sup, rho)
        bad = not (H.close(r0, ref, TOL) and H.close(r1, ref, TOL) and H.close(r2, ref, TOL))
        return bad, f'apply_kraus/choi/super disagree (N={N}, dout={dout}, din={din})'
    if what == 'convert':
        bad = not H.close(ch.choi_op_to_super_op(choi, din), sup, TOL)
        bad |= not H.close(ch.super_op_to_choi_op(sup), choi, TOL)
        bad |= not H.close(ch.super_op_to_choi_op(ch.choi_op_to_super_op(choi, din)), choi, TOL)
        bad |= not H.close(ch.hf_channel_to_choi_op(lambda r: ch.apply_kraus_op(K, r), din), choi.reshape(din, dout, din, dout), TOL)
        # Gram form: v^dag C v = sum_n |a_n . v|^2
        return bad, f'choi/super conversions inconsistent (N={N}, dout={dout}, din={din})'
    if what == 'choi_conv':
        C = H.from_payload_cx(p, 'C')
        din = p['din']
        back = ch.super_op_to_choi_op(ch.choi_op_to_super_op(C, din))
        return (not H.close(back, C, TOL)), 'super_op_to_choi_op(choi_op_to_super_op(C)) != C'
    if what == 'bloch':
        rho = H.from_payload_cx(p, 'rho')
        rho = (rho + rho.conj().T) / 2
        out = ch.apply_kraus_op(K, rho)
        Am, b = ch.choi_op_to_bloch_map(choi.reshape(din, dout, din, dout))
        lhs = numqi.gellmann.dm_to_gellmann_basis(out)
        rhs = Am @ numqi.gellmann.dm_to_gellmann_basis(rho) + b
        return (not H.close(lhs, rhs, TOL)), f'Bloch map != channel action (N={N}, dout={dout}, din={din})'
    raise ValueError(what)


REPLAYERS = {'c12': replay}


def run(chk):
    quick = chk.tier == 'quick'
    rng = random.Random(chk.seed)
    chk.fn('numqi.channel.kraus_op_to_choi_op', 'numqi.channel.kraus_op_to_super_op', 'numqi.channel.choi_op_to_super_op',
           'numqi.channel.super_op_to_choi_op', 'numqi.channel.apply_kraus_op', 'numqi.channel.apply_choi_op', 'numqi.channel.apply_super_op',
           'numqi.channel.hf_channel_to_choi_op', 'numqi.channel.choi_op_to_bloch_map', 'numqi.channel.hf_dephasing_kraus_op',
           'numqi.channel.hf_depolarizing_kraus_op', 'numqi.channel.hf_amplitude_damping_kraus_op', 'numqi.gellmann.matrix_to_gellmann_basis')
    chk.register_replayer('c12', replay)
    chk.out_of_claim('the eigen-decomposition inside choi_op_to_kraus_op (np.linalg.eigh enters by its contract C = V diag(lambda) V^dag; eigenvalues strictly between 0 and zero_eps are dropped by design: claimed for dropped eigenvalues equal to 0); the value LAPACK returns inside trace distance, fidelity, entropies, relative entropy (their code around LAPACK is claimed in the state-measure slice) and every monotonicity statement; torch backend of functions other than kraus_op_to_choi_op / apply_choi_op / apply_kraus_op / apply_super_op (the others are NumPy-only code)')
    sizes = [(din, dout, N) for din in (1, 2, 3) for dout in (1, 2, 3) for N in (1, 2, 3)]
    if quick:
        sizes = [s for s in sizes if s[0] * s[1] * s[2] <= 8 or s in ((3, 2, 2), (2, 3, 2), (3, 3, 1))]
    chk.bound(din_dout_N=sizes, kraus='arbitrary complex (not assumed trace preserving), fully symbolic', rho='arbitrary complex din x din (Hermitian trace-one for the Bloch map)',
              rates='noise rate symbolic over [0,1]')
    ctx = S.new_ctx()
    with facade.patched():
        for din, dout, N in sizes:
            chk.configurations += 1
            tag = f'{din}{dout}{N}'
            K = H.cx_array('k' + tag, (N, dout, din))
            rho = H.cx_array('r' + tag, (din, din))
            choi = ch.kraus_op_to_choi_op(K)
            sup = ch.kraus_op_to_super_op(K)
            ref = apply_ref(K, rho)
            cfg = f'[din={din},dout={dout},N={N}]'
            rp_apply = ('c12', lambda m, K=K, rho=rho: H.payload_cx(m, {'K': K, 'rho': rho}, what='apply'))
            rp_conv = ('c12', lambda m, K=K: H.payload_cx(m, {'K': K}, what='convert'))
            chk.add('apply_kraus_op == sum K rho K^dag ' + cfg, [], eqs(ch.apply_kraus_op(K, rho), ref), key='apply_kraus_op', replay=rp_apply)
            chk.add('apply_choi_op(kraus_op_to_choi_op) == kraus action ' + cfg, [], eqs(ch.apply_choi_op(choi, rho), ref), key='apply_choi_op', replay=rp_apply)
            chk.add('apply_super_op(kraus_op_to_super_op) == kraus action ' + cfg, [], eqs(ch.apply_super_op(sup, rho), ref), key='apply_super_op', replay=rp_apply)
            chk.add('choi_op_to_super_op(kraus_op_to_choi_op) == kraus_op_to_super_op ' + cfg, [], eqs(ch.choi_op_to_super_op(choi, din), sup), key='choi_op_to_super_op', replay=rp_conv)
            chk.add('super_op_to_choi_op(kraus_op_to_super_op) == kraus_op_to_choi_op ' + cfg, [], eqs(ch.super_op_to_choi_op(sup), choi), key='super_op_to_choi_op', replay=rp_conv)
            t4 = ch.hf_channel_to_choi_op(lambda r: ch.apply_kraus_op(K, r), din)
            ok = tuple(t4.shape) == (din, dout, din, dout)
            chk.add('hf_channel_to_choi_op == kraus_op_to_choi_op (reshaped) ' + cfg, [], eqs(t4, choi.reshape(din, dout, din, dout)) if ok else ir.FALSE, key='hf_channel_to_choi_op', replay=rp_conv)
            # Gram form => positive semidefinite:  v^dag C v == sum_n |sum_{i,a} K[n,a,i] conj(v[i,a])|^2 ... as identity with a_n = vec(K_n^T)
            v = H.cx_array('v' + tag, din * dout)
            Cp = A.plain(choi)
            quad = SC(ir.ZERO)
            for i in range(din * dout):
                for j in range(din * dout):
                    quad = quad + S.as_sc(v[i]).conjugate() * S.as_sc(Cp[i, j]) * S.as_sc(v[j])
            sos = SC(ir.ZERO)
            Kp = A.plain(K)
            for n in range(N):
                acc = SC(ir.ZERO)
                for i in range(din):
                    for a in range(dout):
                        acc = acc + S.as_sc(Kp[n, a, i]).conjugate() * S.as_sc(v[i * dout + a])
                sos = sos + acc.real * acc.real + acc.imag * acc.imag
            chk.add('v^dag Choi v == sum_n |<a_n,v>|^2 (Choi is a Gram matrix, hence PSD) ' + cfg, [], H.eq_sc(quad, sos), key='kraus_op_to_choi_op not Gram', replay=rp_conv)
            # arbitrary Choi matrix: conversions are mutually inverse permutations
            C = H.cx_array('c' + tag, (din * dout, din * dout))
            chk.add('super_op_to_choi_op(choi_op_to_super_op(C)) == C ' + cfg, [], eqs(ch.super_op_to_choi_op(ch.choi_op_to_super_op(C, din)), C), key='choi<->super not inverse',
                    replay=('c12', lambda m, C=C, din=din: H.payload_cx(m, {'C': C}, what='choi_conv', din=din)))
            # Bloch map
            if din >= 2 and dout >= 2 and (not quick or din * dout <= 6):
                rh = H.herm_array('h' + tag, din)
                tr1 = H.eq_sc(sum((rh[k, k] for k in range(din)), SC(ir.ZERO)), 1)
                out = ch.apply_kraus_op(K, rh)
                Am, b = ch.choi_op_to_bloch_map(choi.reshape(din, dout, din, dout))
                lhs = numqi.gellmann.dm_to_gellmann_basis(out)
                bl = numqi.gellmann.dm_to_gellmann_basis(rh)
                rhs = np.dot(A.plain(Am), A.plain(bl)) + A.plain(b)
                for i, (x, y) in enumerate(zip(H.elems(lhs), H.elems(rhs))):
                    chk.add(f'Bloch(channel(rho))[{i}] == A.Bloch(rho)+b ' + cfg, ctx.facts + [tr1], H.eq_sc(x, y), key='choi_op_to_bloch_map',
                            replay=('c12', lambda m, K=K, rh=rh: H.payload_cx(m, {'K': K, 'rho': rh}, what='bloch')))
    # ---- Kraus form obtained back from a Choi operator (np.linalg.eigh by contract): reproduces the Choi operator and the channel action
    chk.fn('numqi.channel.choi_op_to_kraus_op', 'numqi.channel.super_op_to_kraus_op')
    chk.stub('np.linalg.eigh(C) -> symbolic (lambda ascending, V) with the contract C == V diag(lambda) V^dag entrywise (hypothesis of the composition claims); the number of eigenvalues below zero_eps is explored case by case; eigenvalues parametrised as t_n^2 (positive semidefinite Choi operator), np.sqrt(t_n^2) -> t_n')
    for din, dout in ((1, 2), (2, 1), (2, 2)) if quick else ((1, 2), (2, 1), (2, 2), (1, 3), (2, 3), (3, 2)):
        for via_super in (False, True) if (din, dout) == (2, 2) or not quick else (False,):
            chk.configurations += 1
            D = din * dout
            tag = f'kb{din}{dout}{int(via_super)}'
            C = H.herm_array('c' + tag, D)
            # eigenvalues of a Choi operator of a CP map are >= 0: lambda_n = t_n^2 with t_n >= 0 symbolic, so that sqrt(lambda_n) = t_n is exact (no radical atoms in the identities)
            tt = [S.sc_var(f't{tag}_{j}') for j in range(D)]
            lam = [t_ * t_ for t_ in tt]
            root_of = {l_.re.id: t_ for l_, t_ in zip(lam, tt)}
            V = H.cx_array('v' + tag, (D, D))
            rho = H.cx_array('r' + tag, (din, din))

            def sqrt_stub(x, root_of=root_of):
                if isinstance(x, A.SymArray):
                    return A.wrap(A._elementwise(lambda e: root_of.get(S.as_sc(e).re.id) or S.as_sc(e).sqrt(), x), np.float64)
                return root_of.get(S.as_sc(x).re.id) or S.as_sc(x).sqrt() if A.is_sym_scalar(x) else np.sqrt(x)
            fac = facade.make_np_facade(linalg={'eigh': lambda x, lam=lam, V=V: (A.sym_array(np.array(lam, dtype=object), np.float64), V)}, extra={'sqrt': sqrt_stub})
            contract = [H.eq_sc(C[i, j], sum((lam[n] * S.as_sc(V[i, n]) * S.as_sc(V[j, n]).conjugate() for n in range(D)), SC(ir.ZERO))) for i in range(D) for j in range(i, D)]
            pre = [(lam[i] <= lam[i + 1]).n for i in range(D - 1)] + [(t_ >= 0).n for t_ in tt]

            def body(C=C, din=din, via_super=via_super):
                if via_super:
                    return ch.super_op_to_kraus_op(ch.choi_op_to_super_op(C, din))
                return ch.choi_op_to_kraus_op(C, din)
            try:
                paths, st = H.run_paths(body, pre, np_facade=fac, feas_timeout_ms=2000, max_paths=64)
            except S.EngineError as e:
                chk.engine_error(f'choi_op_to_kraus_op {din}x{dout}', e)
                continue
            chk.add_path_stats(st)
            rp = ('c12', {'what': 'kraus_back', 'din': din, 'dout': dout})
            fn_name = 'super_op_to_kraus_op(choi_op_to_super_op(C))' if via_super else 'choi_op_to_kraus_op(C)'
            for pi, path in enumerate(paths):
                if path.status != 'return':
                    chk.add(f'{fn_name} raises {type(path.value).__name__} [din={din},dout={dout}] (path {pi})', pre + path.pc + path.facts, ir.FALSE, key='choi_op_to_kraus_op raises', replay=rp)
                    continue
                K = path.value
                with path.resume():
                    k = D - K.shape[0]                      # number of dropped eigenvalues on this path
                    ok = tuple(K.shape[1:]) == (dout, din) and 0 <= k <= D
                    base = pre + path.pc + path.facts + [c for kk, c in path.side]
                    if not ok:
                        chk.add(f'{fn_name}: shape (n, dout, din) [din={din},dout={dout}] (path {pi})', [], ir.FALSE, key='choi_op_to_kraus_op shape', replay=rp)
                        continue
                    dropped0 = [H.eq_sc(lam[n], 0) for n in range(k)]
                    with facade.patched():
                        back = ch.kraus_op_to_choi_op(K) if K.shape[0] else np.zeros((D, D), dtype=object)
                    kept = [[sum((lam[n] * S.as_sc(V[i, n]) * S.as_sc(V[j, n]).conjugate() for n in range(k, D)), SC(ir.ZERO)) for j in range(D)] for i in range(D)]
                    bk = A.plain(back) if isinstance(back, A.SymArray) else back
                    cidx = {}
                    it = iter(contract)
                    for i in range(D):
                        for j in range(i, D):
                            cidx[(i, j)] = next(it)
                    for i in range(D):
                        for j in range(i, D):
                            a_ij = H.eq_sc(bk[i, j], kept[i][j])
                            chk.add(f'kraus_op_to_choi_op({fn_name})[{i},{j}] == sum over the kept eigenpairs lambda_n v_n v_n^dag [din={din},dout={dout}, {k} dropped]', base, a_ij,
                                    key='choi_op_to_kraus_op: Kraus form does not reproduce the Choi operator', replay=rp)
                            chk.add(f'kraus_op_to_choi_op({fn_name})[{i},{j}] == C[{i},{j}] when the dropped eigenvalues are 0 (from the line above and the eigh contract) [din={din},dout={dout}, {k} dropped]',
                                    [a_ij, cidx[(i, j)]] + dropped0, H.eq_sc(bk[i, j], C[i, j]), key='choi_op_to_kraus_op: Kraus form does not reproduce the Choi operator', replay=rp)
                    herm_back = ir.band_all(H.eq_sc(bk[j, i], S.as_sc(bk[i, j]).conjugate()) for i in range(D) for j in range(i + 1, D))
                    chk.add(f'kraus_op_to_choi_op({fn_name}) is Hermitian (lower triangle) [din={din},dout={dout}, {k} dropped]', base, herm_back, key='choi_op_to_kraus_op: Kraus form does not reproduce the Choi operator', replay=rp)
                    chk.add(f'reach kraus_back [din={din},dout={dout}, {k} dropped]', base + dropped0, ir.TRUE, kind='reach')
    # ---- PyTorch branch == NumPy branch on the same symbolic operands (symnp.symtorch)
    trng = random.Random(chk.seed + 1)
    for din, dout, N in [s for s in sizes if s[0] * s[1] * s[2] <= (8 if quick else 18)]:
        tag = f't{din}{dout}{N}'
        K = H.cx_array('k' + tag, (N, dout, din))
        rho = H.cx_array('r' + tag, (din, din))
        C = H.cx_array('c' + tag, (din * dout, din * dout))
        Sop = H.cx_array('s' + tag, (dout * dout, din * din))
        cfg = f'[din={din},dout={dout},N={N}]'
        for fn, arrs, names in (('kraus_op_to_choi_op', [K], ['K']), ('apply_choi_op', [C, rho], ['C', 'rho']), ('apply_kraus_op', [K, rho], ['K', 'rho']),
                                ('apply_super_op', [Sop, rho], ['S', 'rho'])):
            if N > 1 and fn in ('apply_choi_op', 'apply_super_op'):
                continue
            rp = ('c12', lambda m, fn=fn, arrs=arrs, names=names: H.payload_cx(m, dict(zip(names, arrs)), what='backend', fn=fn, names=names))
            T.backend_equiv(chk, f'{fn} {cfg}', BACKEND[fn], arrs, rp, f'{fn}', rng=trng)
    # built-in channels: CPTP for every rate in [0,1]
    p = S.sc_var('rate')
    pre = [(p >= 0).n, (p <= 1).n]
    for name in ('hf_dephasing_kraus_op', 'hf_depolarizing_kraus_op', 'hf_amplitude_damping_kraus_op'):
        chk.configurations += 1
        paths, stats = H.run_paths(lambda: getattr(ch, name)(p), pre)
        chk.add_path_stats(stats)
        for pi, path in enumerate(paths):
            if path.status != 'return':
                # an exception for an admissible rate: reproduce numerically with a model of the path condition
                chk.add(f'{name}: raises {type(path.value).__name__} for an admissible rate (path {pi})', pre + path.pc + path.facts, ir.FALSE,
                        key=f'{name} raises', replay=('c12', lambda m, name=name: {'what': 'builtin', 'name': name, 'rate': float(m.get('rate', 0))}))
                continue
            K = A.plain(path.value)
            s = np.zeros((2, 2), dtype=object)
            for n in range(K.shape[0]):
                s = s + np.dot(dag(K[n]), K[n])
            side = [c for _, c in path.side]
            chk.add(f'{name}(rate): sum K^dag K == I for all rates in [0,1] (path {pi})', pre + path.pc + path.facts, ir.band(eqs(s, np.eye(2, dtype=object)), ir.band_all(side)),
                    key=f'{name} not trace preserving', replay=('c12', lambda m, name=name: {'what': 'builtin', 'name': name, 'rate': float(m.get('rate', 0))}))
            chk.add(f'{name} reach (path {pi})', pre + path.pc + path.facts, ir.TRUE, kind='reach')
            chk.notes_from(path)
    chk.notes_from(ctx)
    C12m.run_slice(chk, quick, random.Random(chk.seed + 2))
    chk.solve(timeout_s=60 if quick else 300)
