"""C08 - Pauli encodings are faithful: conversions bijective, algebra exact."""
import itertools
import os
import random
import subprocess
import sys
import re
import numpy as np
import numqi
import numqi.gate._pauli as gp
from numqi.gate import PauliOperator
from symnp import ir, scalars as S, arrays as A, facade
from symnp.scalars import BVS
from . import common as H
from .C07 import pauli_matrix, all_paulis, eq_arr, bits, convention_selfcheck

U8 = np.uint8
VIEW_TOUCHES = ((), ('sign',), ('str_', 'np_list'), ('full_matrix',))
HERE = os.path.dirname(os.path.abspath(__file__))


# ---------------------------------------------------------------- reference group law from the sixteen 2x2 products
def letter(x, z):
    X = np.array([[0, 1], [1, 0]], dtype=complex)
    Z = np.array([[1, 0], [0, -1]], dtype=complex)
    m = np.eye(2, dtype=complex)
    if x:
        m = m @ X
    if z:
        m = m @ Z
    return m


def product_table():
    """(x1,z1,x2,z2) -> (k, x, z) with X^x1 Z^z1 X^x2 Z^z2 = i^k X^x Z^z, found numerically with real NumPy"""
    tab = {}
    for x1, z1, x2, z2 in itertools.product((0, 1), repeat=4):
        M = letter(x1, z1) @ letter(x2, z2)
        hit = None
        for k, x, z in itertools.product(range(4), (0, 1), (0, 1)):
            if np.abs(M - (1j ** k) * letter(x, z)).max() < 1e-12:
                hit = (k, x, z)
        tab[(x1, z1, x2, z2)] = hit
    return tab


def inverse_table():
    tab = {}
    for x, z in itertools.product((0, 1), repeat=2):
        M = np.linalg.inv(letter(x, z))
        for k in range(4):
            if np.abs(M - (1j ** k) * letter(x, z)).max() < 1e-12:
                tab[(x, z)] = k
    return tab


def _b(e):
    return ir.bvextract(e.n, 0, 0)


def ref_product(P, Q, n, tab):
    """reference F2 of P.Q for symbolic bit arrays (phase = sum of the per-qubit table phases, mod 4)"""
    Pp, Qp = A.plain(P), A.plain(Q)
    ph = ir.bvbin('bvadd', _ph(Pp), _ph(Qp))
    xs, zs = [], []
    for q in range(n):
        x1, z1, x2, z2 = _b(Pp[2 + q]), _b(Pp[2 + n + q]), _b(Qp[2 + q]), _b(Qp[2 + n + q])
        k = ir.bvconst(0, 2)
        for key, (kk, x, z) in tab.items():
            cond = ir.band_all(ir.bvcmp('eq', v, ir.bvconst(b, 1)) for v, b in zip((x1, z1, x2, z2), key))
            k = ir.rite(cond, ir.bvconst(kk, 2), k)
        ph = ir.bvbin('bvadd', ph, k)
        xs.append(ir.bvbin('bvxor', x1, x2))     # table says x = x1^x2, z = z1^z2 (asserted below at build time)
        zs.append(ir.bvbin('bvxor', z1, z2))
    for key, (kk, x, z) in tab.items():
        assert x == key[0] ^ key[2] and z == key[1] ^ key[3]
    out = [ir.bvextract(ph, 1, 1), ir.bvextract(ph, 0, 0)] + xs + zs
    return A.sym_array([BVS(ir.bvext(o, 8, False), U8) for o in out], U8)


def _ph(Pp):
    return ir.bvconcat(_b(Pp[0]), _b(Pp[1]))


def ref_inverse(P, n, itab):
    Pp = A.plain(P)
    ph = ir.bvun('bvneg', _ph(Pp))
    for q in range(n):
        x, z = _b(Pp[2 + q]), _b(Pp[2 + n + q])
        k = ir.bvconst(0, 2)
        for key, kk in itab.items():
            cond = ir.band(ir.bvcmp('eq', x, ir.bvconst(key[0], 1)), ir.bvcmp('eq', z, ir.bvconst(key[1], 1)))
            k = ir.rite(cond, ir.bvconst(kk, 2), k)
        ph = ir.bvbin('bvadd', ph, k)
    out = [ir.bvextract(ph, 1, 1), ir.bvextract(ph, 0, 0)] + [_b(Pp[2 + q]) for q in range(2 * n)]
    return A.sym_array([BVS(ir.bvext(o, 8, False), U8) for o in out], U8)


# ---------------------------------------------------------------- replay
def replay(p):
    what = p['what']
    arr = lambda k: np.array(p[k], dtype=U8)
    if what == 'f2_str':
        P = arr('P')
        s, sg = gp.pauli_F2_to_str(P)
        back = gp.pauli_str_to_F2(s, sg)
        M = (sg * numqi.gate._pauli.hf_kron([gp._one_pauli_str_to_np[c] for c in s]))
        bad = not np.array_equal(back, P) or np.abs(M - pauli_matrix(P)).max() > 1e-12
        return bad, f'pauli_F2_to_str/pauli_str_to_F2 on {P.tolist()} -> {s},{sg} -> {np.asarray(back).tolist()}'
    if what == 'f2_str_batch':
        P = arr('P')
        s, sg = gp.pauli_F2_to_str(P)
        bad = False
        for idx in np.ndindex(*P.shape[:-1]):
            s1, g1 = gp.pauli_F2_to_str(P[idx])
            bad |= (s[idx] != s1) or (sg[idx] != g1)
        back = gp.pauli_str_to_F2(s, sg)
        bad |= not np.array_equal(back, P)
        return bad, f'batched F2<->str differs from per-sample calls on {P.tolist()}'
    if what == 'str_f2':
        s, sg = p['s'], complex(p['sign'][0], p['sign'][1])
        f2 = gp.pauli_str_to_F2(s, sg)
        s2, sg2 = gp.pauli_F2_to_str(f2)
        return (s2 != s or sg2 != sg), f'str->F2->str: ({s},{sg}) -> {f2.tolist()} -> ({s2},{sg2})'
    if what == 'index':
        n = p['n']
        idx = np.array(p['index'], dtype=np.uint64)
        f2 = gp.pauli_index_to_F2(idx, n, with_sign=p['with_sign'])
        back = gp.pauli_F2_to_index(f2, with_sign=p['with_sign'])
        bad = not np.array_equal(np.asarray(back, dtype=np.uint64), idx)
        # agreement with the scalar code path and with the string route
        for j, i in enumerate(idx.reshape(-1).tolist()):
            one = gp.pauli_index_to_F2(int(i), n, with_sign=p['with_sign'])
            bad |= not np.array_equal(one, f2.reshape(-1, f2.shape[-1])[j])
        return bad, f'pauli_index_to_F2 / pauli_F2_to_index on index {idx.tolist()} (n={n})'
    if what == 'f2_index':
        P = arr('P')
        n = P.shape[-1] // 2
        idx = gp.pauli_F2_to_index(P, with_sign=False)
        back = gp.pauli_index_to_F2(np.asarray(idx, dtype=np.uint64) if np.ndim(idx) else int(idx), n, with_sign=False)
        return (not np.array_equal(back, P)), f'F2->index->F2 on {P.tolist()} gives {np.asarray(back).tolist()}'
    if what in ('mul', 'inv', 'comm'):
        P, Q = arr('P'), arr('Q')
        a, b = PauliOperator(P), PauliOperator(Q)
        if what == 'mul':
            got = (a @ b).F2
            want = pauli_matrix(P) @ pauli_matrix(Q)
            return (np.abs(pauli_matrix(got) - want).max() > 1e-12), f'PauliOperator.__matmul__ wrong for P={P.tolist()} Q={Q.tolist()}: {got.tolist()}'
        if what == 'inv':
            got = a.inverse().F2
            return (np.abs(pauli_matrix(got) @ pauli_matrix(P) - np.eye(2 ** a.num_qubit)).max() > 1e-12), f'PauliOperator.inverse wrong for P={P.tolist()}: {got.tolist()}'
        got = bool(a.commutate_with(b))
        MP, MQ = pauli_matrix(P), pauli_matrix(Q)
        want = np.abs(MP @ MQ - MQ @ MP).max() < 1e-12
        return (got != want), f'commutate_with wrong for P={P.tolist()} Q={Q.tolist()}'
    if what == 'views':
        P, Q = arr('P'), arr('Q')
        for touch in VIEW_TOUCHES:
            a, b = PauliOperator(P), PauliOperator(Q)
            for nm in touch:
                getattr(a, nm)
                getattr(b, nm)
            for tag, x in (('P.inverse()', a.inverse()), ('P@Q', a @ b), ('P.inverse().inverse()', a.inverse().inverse()), ('(P@Q).inverse()', (a @ b).inverse())):
                s_, g_ = gp.pauli_F2_to_str(x.F2)
                M = pauli_matrix(x.F2)
                if x.str_ != s_ or x.sign != g_ or np.abs(x.full_matrix - M).max() > 1e-12 or np.abs(g_ * gp.hf_kron(x.np_list) - M).max() > 1e-12:
                    return True, f'{tag}: views (str_, sign, np_list, full_matrix) = ({x.str_},{x.sign}) disagree with its F2 bits {x.F2.tolist()} after reading {touch} of the operands (P={P.tolist()}, Q={Q.tolist()})'
        return False, 'views agree with the F2 bits'
    if what == 'full':
        P = arr('P')
        return (np.abs(PauliOperator(P).full_matrix - pauli_matrix(P)).max() > 1e-12), f'full_matrix wrong for {P.tolist()}'
    if what == 'rand':
        n, h = p['n'], p['herm']
        for seed in range(200):
            op = numqi.random.rand_pauli(n, is_hermitian=h, seed=seed)
            M = pauli_matrix(op.F2)
            is_h = np.abs(M - M.conj().T).max() < 1e-12
            if is_h != h:
                return True, f'rand_pauli({n}, is_hermitian={h}, seed={seed}) returned {"" if is_h else "non-"}Hermitian {op.F2.tolist()}'
        return False, 'rand_pauli honours is_hermitian on 200 seeds'
    raise ValueError(what)


REPLAYERS = {'c08': replay}


def bp(model, arrs, **kw):
    out = dict(kw)
    for k, a in arrs.items():
        out[k] = H.eval_array(a, H.model_env(model, [a])).tolist()
    return out


# ---------------------------------------------------------------- CrossHair part (pure-Python scalar routines)
def run_crosshair(chk, quick):
    target = os.path.join(HERE, 'ch_pauli.py')
    py = sys.executable
    conds = []
    with open(target) as f:
        for ln, line in enumerate(f, 1):
            m = re.match(r'def (_chk_\w+)\(', line)
            if m:
                conds.append((m.group(1), ln + 1))
    tmo = 25 if quick else 120
    procs = []
    for name, ln in conds:
        cmd = [py, '-m', 'crosshair', 'check', '--report_all', '--per_condition_timeout', str(tmo), f'{target}:{ln}']
        procs.append((name, subprocess.Popen(cmd, stdout=subprocess.PIPE, stderr=subprocess.STDOUT, text=True,
                                             env=dict(os.environ, PYTHONPATH='/verif:' + os.environ.get('PYTHONPATH', '')))))
    res = []
    for name, pr in procs:
        try:
            out, _ = pr.communicate(timeout=tmo * 3 + 60)
        except subprocess.TimeoutExpired:
            pr.kill()
            out = 'TIMEOUT'
        res.append((name, out.strip()))
    n_conf = 0
    for name, out in res:
        if 'Confirmed over all paths' in out:
            n_conf += 1
            chk.samples.append({'crosshair_condition': name, 'result': 'Confirmed over all paths'})
        elif 'error:' in out and ('false when calling' in out or 'raises' in out.lower() or 'Error' in out):
            # counterexample: replay by calling the contract function with the reported arguments
            m = re.search(r'when calling (\w+)\((.*)\)', out)
            reproduced = False
            if m:
                try:
                    import harness.ch_pauli as chp
                    ret = eval(f'chp.{m.group(1)}({m.group(2)})')
                    reproduced = (ret is not True)
                except Exception:
                    reproduced = True
            if reproduced:
                chk.report_reproduced(f'crosshair {name}', out.splitlines()[-1][:300], {'what': 'crosshair', 'cond': name, 'output': out[-500:]}, 'c08')
            else:
                chk.unreproduced.append((name, 'crosshair counterexample did not replay: ' + out[-200:]))
        else:
            chk.engine_errors.append(f'crosshair {name}: inconclusive ({out.splitlines()[-1][:200] if out else "no output"})')
    chk.extra['crosshair_conditions'] = len(conds)
    chk.extra['crosshair_confirmed'] = n_conf
    chk.fn('numqi.gate._pauli._pauli_index_int_to_str (CrossHair)', 'numqi.gate._pauli._pauli_str_to_index_int (CrossHair)')


def run(chk):
    quick = chk.tier == 'quick'
    rng = random.Random(chk.seed)
    chk.fn('numqi.gate.pauli_F2_to_str', 'numqi.gate.pauli_str_to_F2', 'numqi.gate.pauli_index_to_F2', 'numqi.gate.pauli_F2_to_index',
           'numqi.gate.PauliOperator.__matmul__', 'numqi.gate.PauliOperator.inverse', 'numqi.gate.PauliOperator.commutate_with',
           'numqi.gate.PauliOperator.full_matrix', 'numqi.random.rand_pauli', 'numqi.random.rand_F2')
    chk.register_replayer('c08', replay)
    chk.out_of_claim('PauliOperator.from_full_matrix / from_np_list (eigh, float thresholds); group law for n above the bound; get_pauli_subset_* enumerations')
    if not convention_selfcheck():
        chk.engine_error('oracle', RuntimeError('harness convention differs from PauliOperator.full_matrix'))
        return
    nmax = 2 if quick else 3
    chk.bound(group_law_n=f'1..{nmax} (all 4^(n+1) phased operators and all ordered pairs: symbolic bits)', F2_str_n=f'1..{nmax}',
              index_bits='index <-> F2 batched path: n in {1,2,3,5,16,31} (index width up to 62 bits), batch shapes (2,), (2,2)')
    tab, itab = product_table(), inverse_table()
    # ---- group law
    for n in range(1, nmax + 1):
        P, Q = bits(f'P{n}', 2 * n + 2), bits(f'Q{n}', 2 * n + 2)
        chk.configurations += 1

        def f_alg():
            a, b = PauliOperator(P), PauliOperator(Q)
            return (a @ b).F2, a.inverse().F2, a.commutate_with(b), (b @ a).F2
        paths, st = H.run_paths(f_alg, [])
        chk.add_path_stats(st)
        for pi, path in enumerate(paths):
            rp = lambda w: ('c08', lambda m, P=P, Q=Q, w=w: bp(m, {'P': P, 'Q': Q}, what=w))
            if path.status != 'return':
                chk.add(f'PauliOperator algebra raises {type(path.value).__name__} [n={n}]', path.pc, ir.FALSE, key='PauliOperator algebra raises', replay=rp('mul'))
                continue
            prod, inv, comm, prod_ba = path.value
            rprod = ref_product(P, Q, n, tab)
            chk.add(f'P@Q == reference product incl. phase, all ordered pairs [n={n}]', path.pc, ir.band(eq_arr(prod, rprod), ir.bconst(prod.dtype == U8)), key='PauliOperator.__matmul__', replay=rp('mul'))
            chk.add(f'P.inverse() == reference inverse incl. phase [n={n}]', path.pc, eq_arr(inv, ref_inverse(P, n, itab)), key='PauliOperator.inverse', replay=rp('inv'))
            rba = ref_product(Q, P, n, tab)
            chk.add(f'commutate_with(P,Q) <=> PQ == QP (reference) [n={n}]', path.pc, ir.beq(S.as_sb(comm).n, eq_arr(rprod, rba)), key='PauliOperator.commutate_with', replay=rp('comm'))
        # ---- histories: every view (str_, sign, np_list, full_matrix) of an operator obtained through the algebra denotes its own F2 bits,
        #      whichever lazily cached views of the operands were read before (n=1: pairs, n<=2: inverse chains)
        for touch in VIEW_TOUCHES if n == 1 else VIEW_TOUCHES[:2]:
            chk.configurations += 1

            def f_views(touch=touch, n=n):
                a, b = PauliOperator(P), PauliOperator(Q)
                for nm in touch:
                    getattr(a, nm)
                    if n == 1:
                        getattr(b, nm)
                rs = [a.inverse(), a.inverse().inverse()] + ([a @ b, (a @ b).inverse()] if n == 1 else [])
                return [(x.F2, x.str_, x.sign, x.np_list, x.full_matrix) for x in rs]
            try:
                paths, st = H.run_paths(f_views, [], max_paths=5000)
            except S.EngineError as e:
                chk.engine_error(f'PauliOperator views n={n}', e)
                paths = []
            chk.add_path_stats(st)
            rpv = ('c08', lambda m, P=P, Q=Q: bp(m, {'P': P, 'Q': Q}, what='views'))
            for pi, path in enumerate(paths):
                if path.status != 'return':
                    chk.add(f'PauliOperator views raise {type(path.value).__name__} [n={n}, read first: {touch}] path {pi}', path.pc, ir.FALSE, key='PauliOperator views raise', replay=rpv)
                    continue
                cl = []
                for f2, s_, g_, nl, fm in path.value:
                    try:
                        want = gp.pauli_str_to_F2(s_, complex(g_))           # concrete on the path (string routines are claimed separately)
                        M = pauli_matrix(want)
                        okm = np.abs(np.asarray(fm, dtype=complex) - M).max() < 1e-12 and np.abs(complex(g_) * gp.hf_kron([np.asarray(v) for v in nl]) - M).max() < 1e-12
                        cl.append(ir.band(eq_arr(f2, A.sym_array([S.bv_const(int(v), U8) for v in want], U8)), ir.bconst(bool(okm))))
                    except Exception:                                         # noqa: BLE001
                        cl.append(ir.FALSE)
                chk.add(f'views of P.inverse(), P.inverse().inverse()' + (', P@Q, (P@Q).inverse()' if n == 1 else '') + f' denote their own F2 bits [n={n}, read first: {touch}] path {pi}',
                        path.pc, ir.band_all(cl), key='PauliOperator cached views', replay=rpv)
        # ---- F2 -> str -> F2 (paths fork on letters and phase), with the string's matrix meaning checked on the path
        def f_str():
            s, sg = gp.pauli_F2_to_str(P)
            return s, sg, gp.pauli_str_to_F2(s, sg)
        paths, st = H.run_paths(f_str, [])
        chk.add_path_stats(st)
        chk.configurations += 1
        seen = set()
        for pi, path in enumerate(paths):
            rp = ('c08', lambda m, P=P: bp(m, {'P': P}, what='f2_str'))
            if path.status != 'return':
                chk.add(f'pauli_F2_to_str raises {type(path.value).__name__} [n={n}] path {pi}', path.pc, ir.FALSE, key='pauli_F2_to_str raises', replay=rp)
                continue
            s, sg, back = path.value
            seen.add((s, complex(sg)))
            # the (string, sign) pair must denote the same operator as the bits on this path
            M = complex(sg) * gp.hf_kron([gp._one_pauli_str_to_np[c] for c in s])
            want = None
            for f2 in all_paulis(n):
                if np.abs(pauli_matrix(f2) - M).max() < 1e-12:
                    want = f2
            ok_meaning = eq_arr(P, A.sym_array([S.bv_const(int(v), U8) for v in want], U8)) if want is not None else ir.FALSE
            chk.add(f'pauli_F2_to_str denotes the same operator & str_to_F2 inverts it [n={n}] path {pi}:{s},{sg}', path.pc, ir.band(ok_meaning, eq_arr(back, P)), key='pauli_F2_to_str / pauli_str_to_F2', replay=rp)
        chk.add(f'pauli_F2_to_str reaches all 4^(n+1) (string, sign) pairs [n={n}]', [], ir.bconst(len(seen) == 4 ** (n + 1)), key='pauli_F2_to_str not surjective',
                replay=('c08', {'what': 'f2_str', 'P': [0] * (2 * n + 2)}))
        # ---- str -> F2 -> str (finite domain of strings and signs: ground)
        for s in map(''.join, itertools.product('IXYZ', repeat=n)):
            for sg in (1, 1j, -1, -1j):
                f2 = gp.pauli_str_to_F2(s, sg)
                s2, sg2 = gp.pauli_F2_to_str(f2)
                chk.add(f'str->F2->str [{s},{sg}]', [], ir.bconst(s2 == s and sg2 == sg and f2.dtype == U8), key='pauli_str_to_F2 / pauli_F2_to_str',
                        replay=('c08', {'what': 'str_f2', 's': s, 'sign': [complex(sg).real, complex(sg).imag]}))
        # ---- batched F2 -> str equals per-sample
        if n <= 2:
            for bshape in ((2,), (2, 2)) if n == 1 else ((2,),):
                # one symbolic sample inside an otherwise concrete batch (keeps the number of letter/phase forks at 4^(n+1))
                Pb = A.sym_array(np.array([list(all_paulis(n)[(7 * k + 3) % (4 ** (n + 1))]) for k in range(int(np.prod(bshape)))], dtype=U8).reshape(bshape + (2 * n + 2,)), U8)
                Pb[(-1,) * len(bshape)] = bits(f'Pb{n}', 2 * n + 2)

                def f_b():
                    s, sg = gp.pauli_F2_to_str(Pb)
                    return s, sg, gp.pauli_str_to_F2(s, sg)
                paths, st = H.run_paths(f_b, [])
                chk.add_path_stats(st)
                chk.configurations += 1
                for pi, path in enumerate(paths):
                    rp = ('c08', lambda m, Pb=Pb: bp(m, {'P': Pb}, what='f2_str_batch'))
                    if path.status != 'return':
                        chk.add(f'batched pauli_F2_to_str raises {type(path.value).__name__} [n={n},{bshape}] path {pi}', path.pc, ir.FALSE, key='pauli_F2_to_str batch raises', replay=rp)
                        continue
                    s, sg, back = path.value
                    chk.add(f'batched F2->str->F2 [n={n},{bshape}] path {pi}', path.pc, ir.band(eq_arr(back, Pb), ir.bconst(tuple(np.shape(s)) == bshape)), key='pauli_F2_to_str batch', replay=rp)
        # ---- full_matrix
        if n <= 2:
            paths, st = H.run_paths(lambda: PauliOperator(P).full_matrix, [])
            chk.add_path_stats(st)
            chk.configurations += 1
            for pi, path in enumerate(paths):
                rp = ('c08', lambda m, P=P: bp(m, {'P': P}, what='full'))
                if path.status != 'return':
                    chk.add(f'full_matrix raises {type(path.value).__name__} [n={n}] path {pi}', path.pc, ir.FALSE, key='full_matrix raises', replay=rp)
                    continue
                M = np.asarray(A.to_concrete(path.value) if isinstance(path.value, A.SymArray) else path.value, dtype=complex)
                want = None
                for f2 in all_paulis(n):
                    if np.abs(pauli_matrix(f2) - M).max() < 1e-12:
                        want = f2
                cl = eq_arr(P, A.sym_array([S.bv_const(int(v), U8) for v in want], U8)) if want is not None else ir.FALSE
                chk.add(f'full_matrix == phase x kron(letters) [n={n}] path {pi}', path.pc, cl, key='PauliOperator.full_matrix', replay=rp)
    # ---- index <-> F2 (batched bit-slicing path), wide indices
    for n in (1, 2, 3, 5, 16, 31) if not quick else (1, 2, 3, 16, 31):
        for bshape in ((2,), (2, 2)) if n <= 2 else ((2,),):
            for with_sign in (False, True):
                idx = H.bv_array(f'i{n}', bshape, np.uint64)
                inrange = [S.as_sb(e < (1 << (2 * n))).n for e in H.elems(idx)]
                chk.configurations += 1

                def f_idx():
                    f2 = gp.pauli_index_to_F2(idx, n, with_sign=with_sign)
                    return f2, gp.pauli_F2_to_index(f2, with_sign=with_sign)
                paths, st = H.run_paths(f_idx, inrange)
                chk.add_path_stats(st)
                for pi, path in enumerate(paths):
                    rp = ('c08', lambda m, idx=idx, n=n, ws=with_sign: bp(m, {'index': idx}, what='index', n=n, with_sign=ws))
                    if path.status != 'return':
                        chk.add(f'pauli_index_to_F2 raises {type(path.value).__name__} [n={n},{bshape}]', inrange + path.pc, ir.FALSE, key='pauli_index_to_F2 raises', replay=rp)
                        continue
                    f2, back = path.value
                    ok_shape = tuple(f2.shape) == bshape + (2 * n + (2 if with_sign else 0),) and tuple(back.shape) == bshape
                    binary = ir.band_all(S.as_sb(e <= 1).n for e in H.elems(f2))
                    rt = ir.band_all(S.as_sb(a.cast(np.uint64) == b).n for a, b in zip(H.elems(back), H.elems(idx))) if ok_shape else ir.FALSE
                    # digit semantics: base-4 digit k of the index (0,1,2,3 = I,X,Y,Z) <-> (x,z) = (0,0),(1,0),(1,1),(0,1)
                    sem = []
                    fp = A.plain(f2).reshape(-1, f2.shape[-1])
                    off = 2 if with_sign else 0
                    for row, e in zip(fp, H.elems(idx)):
                        for q in range(n):
                            sh = 2 * (n - 1 - q)
                            dig = ir.bvextract(e.n, sh + 1, sh)
                            x, z = ir.bvextract(row[off + q].n, 0, 0), ir.bvextract(row[off + n + q].n, 0, 0)
                            # x = d0 xor d1, z = d1
                            d0, d1 = ir.bvextract(dig, 0, 0), ir.bvextract(dig, 1, 1)
                            sem.append(ir.band(ir.bvcmp('eq', x, ir.bvbin('bvxor', d0, d1)), ir.bvcmp('eq', z, d1)))
                    chk.add(f'index->F2->index round trip, digits <-> (x,z) [n={n},{bshape},sign={with_sign}] path {pi}', inrange + path.pc,
                            ir.band(ir.band(rt, binary), ir.band_all(sem)), key='pauli_index_to_F2 / pauli_F2_to_index', replay=rp,
                            fallback_payloads=[{'what': 'index', 'n': n, 'with_sign': with_sign, 'index': np.array(v, dtype=np.uint64).reshape(bshape).tolist()}
                                               for v in ([[(1 << (2 * n)) - 1 - j] * int(np.prod(bshape)) for j in range(4)] +
                                                         [[((1 << (2 * n - 1)) | (0x5 * j + 1)) % (1 << (2 * n))] * int(np.prod(bshape)) for j in range(1, 5)])])
                    chk.add(f'reach index [n={n},{bshape},{with_sign}] path {pi}', inrange + path.pc, ir.TRUE, kind='reach')
        # F2 -> index -> F2 (symbolic bits)
        if n <= 3:
            Pb = bits(f'F{n}', (2, 2 * n))

            def f_fi():
                i = gp.pauli_F2_to_index(Pb, with_sign=False)
                return i, gp.pauli_index_to_F2(i, n, with_sign=False)
            paths, st = H.run_paths(f_fi, [])
            chk.add_path_stats(st)
            for pi, path in enumerate(paths):
                rp = ('c08', lambda m, Pb=Pb: bp(m, {'P': Pb}, what='f2_index'))
                if path.status != 'return':
                    chk.add(f'pauli_F2_to_index raises {type(path.value).__name__} [n={n}]', path.pc, ir.FALSE, key='pauli_F2_to_index raises', replay=rp)
                    continue
                i, back = path.value
                chk.add(f'F2->index->F2 round trip (batched) [n={n}] path {pi}', path.pc, eq_arr(back, Pb), key='pauli_F2_to_index / pauli_index_to_F2', replay=rp)
            # 1-D (scalar) code path of pauli_F2_to_index agrees with the batched one
            P1 = bits(f'G{n}', 2 * n)
            paths, st = H.run_paths(lambda: gp.pauli_F2_to_index(P1, with_sign=False), [])
            chk.add_path_stats(st)
            for pi, path in enumerate(paths):
                rp = ('c08', lambda m, P1=P1: bp(m, {'P': P1}, what='f2_index'))
                if path.status != 'return':
                    chk.add(f'pauli_F2_to_index (1-D) raises {type(path.value).__name__} [n={n}]', path.pc, ir.FALSE, key='pauli_F2_to_index raises', replay=rp)
                    continue
                val = int(path.value)
                want = gp.pauli_index_to_F2(val, n, with_sign=False)
                chk.add(f'F2->index (1-D path) inverts index->F2 (scalar path) [n={n}] path {pi}', path.pc,
                        eq_arr(P1, A.sym_array([S.bv_const(int(v), U8) for v in want], U8)), key='pauli_F2_to_index 1-D', replay=rp)
    # ---- rand_pauli honours is_hermitian for every draw (draws = symbolic bits)
    from .rngstub import SymRng, rng_globals
    for n in (1, 2, 3):
        for herm in (True, False):
            chk.configurations += 1
            stream = SymRng(f'rp{n}{int(herm)}')
            paths, st = H.run_paths(lambda: numqi.random.rand_pauli(n, is_hermitian=herm, seed=stream).F2, [], extra_globals=rng_globals())
            chk.add_path_stats(st)
            for pi, path in enumerate(paths):
                rp = ('c08', {'what': 'rand', 'n': n, 'herm': herm})
                if path.status != 'return':
                    chk.add(f'rand_pauli raises {type(path.value).__name__} [n={n},herm={herm}]', path.pc, ir.FALSE, key='rand_pauli raises', replay=rp)
                    continue
                F2 = path.value
                is_h = eq_arr(ref_inverse(F2, n, itab), F2)
                chk.add(f'rand_pauli(n={n}, is_hermitian={herm}) is {"" if herm else "anti-"}Hermitian for every draw', path.pc,
                        is_h if herm else ir.bnot(is_h), key='rand_pauli ignores is_hermitian', replay=rp)
    chk.stub('numpy Generator.integers(0,2,size,dtype=uint8) -> fresh symbolic bits (rand_pauli only)')
    run_crosshair(chk, quick)
    chk.solve(timeout_s=60 if quick else 300)
