"""C05 - entanglement criteria never flag a separable state (routing, threshold logic under kernel error, scalar tails)."""
import itertools
import math
import random
import numpy as np
import numqi
import numqi.entangle as E
from symnp import ir, scalars as S, arrays as A, facade, explore
from symnp.scalars import SC, F64
from . import common as H

TOL = 1e-9


def herm_from(M):
    """force exact Hermitian structure: upper triangle kept, lower = conj, diagonal real"""
    P = A.plain(M).copy()
    n = P.shape[0]
    for i in range(n):
        P[i, i] = S.as_sc(P[i, i]).real
        for j in range(i + 1, n):
            P[j, i] = S.as_sc(P[i, j]).conjugate()
    return A.wrap(P, np.complex128)


def separable_state(dims, nterm, tag):
    """rho = sum_k p_k (x) |v_kj><v_kj| with symbolic complex vectors and symbolic weights; returns (rho, vecs, weights)"""
    D = int(np.prod(dims))
    rho = np.zeros((D, D), dtype=object)
    vecs, ws = [], []
    for k in range(nterm):
        p = S.sc_var(f'{tag}p{k}')
        vs = [H.cx_array(f'{tag}v{k}_{j}_', d) for j, d in enumerate(dims)]
        prod = A.plain(vs[0])
        for v in vs[1:]:
            prod = np.kron(prod, A.plain(v))
        outer = np.empty((D, D), dtype=object)
        for i in range(D):
            for j in range(D):
                outer[i, j] = S.as_sc(prod[i]) * S.as_sc(prod[j]).conjugate()
        rho = rho + p * outer
        vecs.append(vs)
        ws.append(p)
    return herm_from(A.wrap(rho, np.complex128)), vecs, ws


def local_op(vs, dims, party, kind):
    """explicit per-term operator the theorem is about, for the product term (x)_j |v_j><v_j|:
       kind 'pt'  -> party transposed:                       (x)_j P_j with P_party^T
       kind 'red' -> rho_party (x) I_rest - rho for the term: P_party (x) ( prod_{j!=party}<v_j|v_j> I - (x)_{j!=party} P_j )"""
    projs, norms = [], []
    for v, d in zip(vs, dims):
        vp = A.plain(v)
        m = np.empty((d, d), dtype=object)
        for a in range(d):
            for b in range(d):
                m[a, b] = S.as_sc(vp[a]) * S.as_sc(vp[b]).conjugate()
        projs.append(m)
        norms.append(sum((S.as_sc(x).real * S.as_sc(x).real + S.as_sc(x).imag * S.as_sc(x).imag for x in vp), SC(ir.ZERO)))
    if kind == 'pt':
        mats = [m.T.copy() if j == party else m for j, m in enumerate(projs)]
        out = mats[0]
        for m in mats[1:]:
            out = np.kron(out, m)
        return out
    full = projs[0]
    for m in projs[1:]:
        full = np.kron(full, m)
    nrest = SC(ir.ONE)
    for j, nn in enumerate(norms):
        if j != party:
            nrest = nrest * nn
    mats = [projs[j] if j == party else np.array([[(SC(ir.ONE) if a == b else SC(ir.ZERO)) for b in range(dims[j])] for a in range(dims[j])], dtype=object) for j in range(len(dims))]
    first = mats[0]
    for m in mats[1:]:
        first = np.kron(first, m)
    return nrest * first - full


def truth(v):
    """B node for a (possibly symbolic) boolean result"""
    if isinstance(v, (S.SB, S.BVS, SC)):
        return S.as_sb(v).n
    return ir.bconst(bool(v))


def concrete_separable(dims, nterm, rng):
    D = int(np.prod(dims))
    rho = np.zeros((D, D), dtype=complex)
    w = rng.uniform(0.1, 1, size=nterm)
    w /= w.sum()
    for k in range(nterm):
        v = np.array([1.0])
        for d in dims:
            x = rng.normal(size=d) + 1j * rng.normal(size=d)
            v = np.kron(v, x / np.linalg.norm(x))
        rho += w[k] * np.outer(v, v.conj())
    return rho


def replay(p):
    what = p['what']
    rng = np.random.default_rng(2025)
    if what in ('ppt', 'reduction', 'gppt', 'swap', 'negativity'):
        dims = tuple(p['dims'])
        bad_n = 0
        tried = 0
        if what == 'swap' and p.get('p') is not None:
            # directed: realise the solver's counterexample (weights p_k, overlaps s_k = |<a_k|b_k>|^2) as a separable state:
            # a_k = |0>, b_k = sqrt(s_k)|0> + sqrt(1-s_k)|1>, weights normalised to trace one
            d = dims[0]
            ws = np.clip(np.array(p['p'], dtype=float), 0, None)
            ss = np.clip(np.array(p['s'], dtype=float), 0, 1)
            cands = ([ws / ws.sum()] if ws.sum() > 0 else []) + [np.ones(len(ws)) / len(ws)]      # the model may leave the weights at 0: any weights realise the same overlaps
            for wn in cands:
                rho = np.zeros((d * d, d * d), dtype=complex)
                for w, sk in zip(wn, ss):
                    a = np.zeros(d); a[0] = 1
                    b = np.zeros(d); b[0] = np.sqrt(sk); b[1] = np.sqrt(1 - sk)
                    v = np.kron(a, b)
                    rho += w * np.outer(v, v.conj())
                if not E.check_swap_witness(rho):
                    return True, f'check_swap_witness rejects the separable state sum_k p_k |0><0| (x) |b_k><b_k| with p={np.round(wn, 6).tolist()}, |<0|b_k>|^2={ss.tolist()} (dims {dims})'
        for trial in range(p.get('trials', 60)):
            nterm = 1 + trial % 4
            rho = concrete_separable(dims, nterm, rng)
            tried += 1
            try:
                if what == 'ppt':
                    ok = E.is_ppt(rho, dims)
                elif what == 'reduction':
                    ok = E.check_reduction_witness(rho, dims)
                elif what == 'gppt':
                    ok = E.is_generalized_ppt(rho, dims)
                elif what == 'swap':
                    ok = E.check_swap_witness(rho)
                else:
                    val = E.get_negativity(rho, dims)
                    ok = np.isfinite(val) and abs(val) < 1e-7
            except Exception as e:
                return True, f'{what} raises {type(e).__name__}: {e} on a separable state of dims {dims}'
            if not ok:
                bad_n += 1
        return (bad_n > 0), f'{what}: {bad_n} of {tried} random separable states of dims {dims} are flagged as entangled'
    if what == 'eof_tail':
        # the model fixes a concurrence value; realise it (and neighbours on the same scale) by the one-parameter family p|Phi+><Phi+| + (1-p) I/4
        cands = [p['c']] + [p['c'] * f for f in (0.5, 2.0)] + [1e-8, 1.26e-8, 5e-9, 2e-8]
        for c in cands:
            if not (0 < c <= 1):
                continue
            rho = werner_like(c)
            val = E.get_eof_2qubit(rho)
            cc = E.get_concurrence_2qubit(rho)
            if not np.isfinite(val):
                return True, f'get_eof_2qubit = {val} for the two-qubit state p|Phi+><Phi+| + (1-p) I/4 with concurrence {cc:.3e}'
        return False, 'get_eof_2qubit finite on the probed states'
    if what == 'conc_pure':
        dA, dB = p['dims']
        a = rng.normal(size=dA) + 1j * rng.normal(size=dA)
        b = rng.normal(size=dB) + 1j * rng.normal(size=dB)
        psi = np.outer(a / np.linalg.norm(a), b / np.linalg.norm(b))
        val = E.get_concurrence_pure(psi)
        return (not (abs(val) < 1e-7)), f'get_concurrence_pure of a product vector = {val}'
    raise ValueError(what)


def werner_like(c):
    """two-qubit state p |Phi+><Phi+| + (1-p) I/4 with concurrence max(0,(3p-1)/2) = c"""
    p_ = (1 + 2 * c) / 3
    phi = np.array([1, 0, 0, 1]) / np.sqrt(2)
    return p_ * np.outer(phi, phi) + (1 - p_) * np.eye(4) / 4


REPLAYERS = {'c05': replay}


def run(chk):
    quick = chk.tier == 'quick'
    chk.fn('numqi.entangle.is_ppt', 'numqi.entangle.check_reduction_witness', 'numqi.entangle.check_swap_witness', 'numqi.entangle.is_generalized_ppt',
           'numqi.entangle.get_negativity', 'numqi.entangle.get_eof_2qubit (scalar tail, binary64)', 'numqi.entangle.get_concurrence_pure')
    chk.register_replayer('c05', replay)
    chk.out_of_claim("the positivity verdict of Cholesky itself, the nuclear norm / eigenvalues computed by LAPACK, concurrence and GME closed forms (eigh), symmetric / bosonic extension SDPs; "
                     "the criteria's soundness theorems themselves (PPT, reduction, realignment) are used, not re-proved")
    dims_list = [(2, 2), (2, 3), (3, 2)] if quick else [(2, 2), (2, 3), (3, 2), (2, 2, 2), (2, 4), (4, 2)]     # permuted unequal dims back to back: state kept between calls must not leak
    chk.bound(dims=[list(d) for d in dims_list], product_terms='2 (linearity in rho extends the routing identity to any number of terms)', weights='symbolic, p_k >= 0',
              kernel_error='nuclear norm returned within 1e-12 of its exact value')
    # ---- 1. routing of is_ppt / check_reduction_witness: the matrix whose positivity is tested is the one the theorem is about
    for dims in dims_list:
        rho, vecs, ws = separable_state(dims, 2, 'r' + ''.join(map(str, dims)) + '_')
        D = rho.shape[0]
        for fn_name, kind in (('is_ppt', 'pt'), ('check_reduction_witness', 'red')):
            chk.configurations += 1
            captured = []

            def cap(M_, shift=0.0, hermitian_eps=None):
                captured.append((M_, shift))
                return True
            fn = getattr(E, fn_name)
            try:
                paths, st = H.run_paths(lambda: fn(rho, dims), [], extra_globals={'numqi.utils': {'is_positive_semi_definite': cap}}, feas_timeout_ms=1000)
            except S.EngineError as e:
                chk.engine_error(f'{fn_name} {dims}', e)
                continue
            chk.add_path_stats(st)
            rp = ('c05', {'what': 'ppt' if kind == 'pt' else 'reduction', 'dims': list(dims)})
            for pi, path in enumerate(paths):
                if path.status != 'return':
                    chk.add(f'{fn_name}{dims} raises {type(path.value).__name__} on a separable state', path.pc + path.facts, ir.FALSE, key=f'{fn_name} raises', replay=rp)
                    continue
                caps = captured[-len(dims):]
                ok = len(caps) == len(dims) and path.value is True or (len(caps) == len(dims) and bool(path.value) is True)
                cl = [ir.bconst(ok)]
                if ok:
                    for party, (M_, shift) in enumerate(caps):
                        want = sum((w * local_op(vs, dims, party, kind) for w, vs in zip(ws, vecs)), np.zeros((D, D), dtype=object))
                        cl.append(ir.band_all(H.eq_sc(a, b) for a, b in zip(H.elems(M_), H.elems(want))))
                        cl.append(ir.bconst(abs(float(shift) - 1e-7) < 1e-15))
                chk.add(f'{fn_name}{dims}: tests positivity of sum_k p_k (x) local PSD operators (the object of the theorem), shifted by +1e-7, one test per party', path.pc + path.facts,
                        ir.band_all(cl), key=f'{fn_name} routing', replay=rp)
    # ---- 2. swap witness: Tr(rho SWAP) = sum_k p_k |<a_k|b_k>|^2 >= 0 > eps
    for d in (2, 3):
        rho, vecs, ws = separable_state((d, d), 2, f's{d}_')
        chk.configurations += 1
        holder = {}

        def spy_fn():
            # run the real function but keep the value it compares with eps
            return E.check_swap_witness(rho)
        pre = [(w >= 0).n for w in ws]
        paths, st = H.run_paths(spy_fn, pre, feas_timeout_ms=3000)
        chk.add_path_stats(st)
        rp = ('c05', {'what': 'swap', 'dims': [d, d]})
        for pi, path in enumerate(paths):
            if path.status != 'return':
                chk.add(f'check_swap_witness d={d} raises {type(path.value).__name__}', pre + path.pc + path.facts, ir.FALSE, key='check_swap_witness raises', replay=rp)
                continue
            res = path.value
            node = res.n if isinstance(res, S.SB) else None
            if node is None or node.op != 'lt':
                chk.add(f'check_swap_witness d={d}: passes for every separable state (path {pi})', pre + path.pc + path.facts, truth(res), key='check_swap_witness flags a separable state', replay=rp)
                continue
            eps_node, val = node.args          # the function returns  eps < Tr(rho SWAP)
            # (a) the compared value is sum_k p_k |<a_k|b_k>|^2 (polynomial identity), (b) such a sum exceeds eps = -1e-7 (with the squares abstracted to s_k >= 0)
            sos = SC(ir.ZERO)
            for w, (va, vb) in zip(ws, vecs):
                ip = sum((S.as_sc(x).conjugate() * S.as_sc(y) for x, y in zip(H.elems(vb), H.elems(va))), SC(ir.ZERO))
                sos = sos + w * (ip.real * ip.real + ip.imag * ip.imag)
            chk.add(f'check_swap_witness d={d}: compared value == sum_k p_k |<a_k|b_k>|^2', path.pc + path.facts, ir.band(ir.rcmp('eq', val, sos.re), ir.bconst(eps_node.op == 'const' and eps_node.val < 0)),
                    key='check_swap_witness value', replay=rp)
            sk = [S.sc_var(f'sq{d}_{k}') for k in range(len(ws))]
            tot = sum((w * s_ for w, s_ in zip(ws, sk)), SC(ir.ZERO))
            rp_dir = ('c05', lambda m, d=d, ws=ws, sk=sk: {'what': 'swap', 'dims': [d, d], 'p': [float(m.get(w.re.val, 0)) for w in ws], 's': [float(m.get(s_.re.val, 0)) for s_ in sk]})
            chk.add(f'check_swap_witness d={d}: sum_k p_k s_k > eps for p_k, s_k >= 0', pre + [(s_ >= 0).n for s_ in sk], ir.rcmp('lt', eps_node, tot.re), key='check_swap_witness flags a separable state', replay=rp_dir)
    # ---- 3. generalized PPT: threshold logic under kernel error
    for dims in dims_list[:2]:
        chk.configurations += 1
        D = int(np.prod(dims))
        rho_c = A.sym_array(np.eye(D, dtype=complex) / D, np.complex128)
        ctxv = {}

        def nuc_stub(x, ord=None, axis=None, keepdims=False):
            if ord != 'nuc':
                return np.linalg.norm(x, ord=ord, axis=axis, keepdims=keepdims)
            c = S.ctx()
            k = c.__dict__.setdefault('_nuc', 0)
            c._nuc = k + 1
            t = S.sc_var(f'tnorm{k}')      # exact trace norm of this realignment of a separable state: t <= 1
            v = S.sc_var(f'vnorm{k}')      # value returned by the SVD kernel: |v - t| <= 1e-12
            c.facts += [(t <= 1).n, (t >= 0).n, (v - t <= S.as_sc(1e-12)).n, (t - v <= S.as_sc(1e-12)).n]
            return v
        fac = facade.make_np_facade(linalg={'norm': nuc_stub})
        paths, st = H.run_paths(lambda: E.is_generalized_ppt(rho_c, dims), [], np_facade=fac, feas_timeout_ms=2000, max_paths=256)
        chk.add_path_stats(st)
        rp = ('c05', {'what': 'gppt', 'dims': list(dims)})
        for pi, path in enumerate(paths):
            if path.status != 'return':
                continue
            chk.add(f'is_generalized_ppt{dims}: answers "passes" whenever every exact norm is <= 1 and the kernel error is <= 1e-12 (path {pi} returns {path.value})',
                    path.pc + path.facts, truth(path.value), key='is_generalized_ppt flags a separable state', replay=rp)
    # ---- 3b. generalized PPT: the matrices whose nuclear norm is taken are the realignments the criterion is about - for every bipartition (rows, cols) of the
    #          2N tensor indices the captured matrix has shape (prod of the row-index dimensions, prod of the column-index dimensions) and entry [r, c] = rho[multi-index]
    for dims in ((2, 3), (3, 2), (2, 2)) if quick else ((2, 3), (3, 2), (2, 2), (2, 4), (2, 2, 3)):
        chk.configurations += 1
        D = int(np.prod(dims))
        rho_s = H.cx_array('gp' + ''.join(map(str, dims)) + '_', (D, D))
        caps = []

        def nuc_cap(x, ord=None, axis=None, keepdims=False):
            if ord != 'nuc':
                return np.linalg.norm(x, ord=ord, axis=axis, keepdims=keepdims)
            caps.append(x)
            return 0.5                 # below the threshold: every bipartition is visited
        fac = facade.make_np_facade(linalg={'norm': nuc_cap})
        with facade.patched(fac):
            S.new_ctx()
            try:
                E.is_generalized_ppt(rho_s, dims)
                err = None
            except Exception as e:      # noqa: BLE001
                err = e
        rp = ('c05', {'what': 'gppt', 'dims': list(dims)})
        if err is not None:
            chk.add(f'is_generalized_ppt{dims} raises {type(err).__name__}: {err}', [], ir.FALSE, key='is_generalized_ppt routing', replay=rp)
            continue
        import numqi.entangle.ppt as PPTM
        dim_list = PPTM._is_generalized_ppt_dim_list(len(dims))
        shape = tuple(dims) + tuple(dims)
        T = A.plain(rho_s).reshape(shape)
        ok = len(caps) == len(dim_list)
        cl = [ir.bconst(ok)]
        for (d0, d1), Mx in (zip(dim_list, caps) if ok else []):
            rows = int(np.prod([shape[x] for x in d0])) if d0 else 1
            cols = int(np.prod([shape[x] for x in d1])) if d1 else 1
            Mp = A.plain(Mx) if isinstance(Mx, A.SymArray) else np.asarray(Mx, dtype=object)
            if Mp.shape != (rows, cols):
                cl.append(ir.FALSE)
                continue
            for r in range(rows):
                ri = np.unravel_index(r, [shape[x] for x in d0]) if d0 else ()
                for c in range(cols):
                    ci = np.unravel_index(c, [shape[x] for x in d1]) if d1 else ()
                    idx = [0] * len(shape)
                    for a_, v_ in zip(d0, ri):
                        idx[a_] = int(v_)
                    for a_, v_ in zip(d1, ci):
                        idx[a_] = int(v_)
                    cl.append(H.eq_sc(Mp[r, c], T[tuple(idx)]))
        chk.add(f'is_generalized_ppt{dims}: every bipartition of the tensor indices is realigned to a (prod row dims) x (prod col dims) matrix with entry [r,c] = rho[multi-index] ({len(dim_list)} bipartitions)',
                [], ir.band_all(cl), key='is_generalized_ppt routing', replay=rp)
    chk.stub("np.linalg.norm(ord='nuc') -> value v with |v - t| <= 1e-12, t <= 1 the exact trace norm (t <= 1 is the theorem for separable states)")
    # ---- 4. get_negativity does not raise for admissible arguments
    chk.configurations += 1
    try:
        rho_c = np.eye(4) / 4
        val = E.get_negativity(rho_c, (2, 2))
        chk.add('get_negativity(rho,(2,2)) returns for an admissible call', [], ir.bconst(bool(np.isfinite(val))), key='get_negativity raises', replay=('c05', {'what': 'negativity', 'dims': [2, 2]}))
    except Exception as e:
        ok, what = replay({'what': 'negativity', 'dims': [2, 2], 'trials': 3})
        if ok:
            chk.report_reproduced('get_negativity raises', what, {'what': 'negativity', 'dims': [2, 2], 'trials': 3}, 'c05')
    # ---- 5. scalar tail of get_eof_2qubit in binary64: finite for every concurrence value in [0,1]
    chk.configurations += 1
    cvar = S.f64_var('conc')
    pre = [(cvar >= 0.0).n, (cvar <= 1.0).n]
    fac64 = facade.make_np_facade(extra={'maximum': lambda a, b: (a.maximum(b) if isinstance(a, F64) else np.maximum(a, b))})
    paths, st = H.run_paths(lambda: E.get_eof_2qubit(None), pre, np_facade=fac64, extra_globals={'numqi.entangle.eof': {'get_concurrence_2qubit': lambda rho: cvar}}, feas_timeout_ms=20000)
    chk.add_path_stats(st)
    for pi, path in enumerate(paths):
        if path.status != 'return':
            chk.add(f'get_eof_2qubit tail raises {type(path.value).__name__}', pre + path.pc + path.facts, ir.FALSE, key='get_eof_2qubit tail raises',
                    replay=('c05', lambda m: {'what': 'eof_tail', 'c': float(m.get('conc', 0.0))}))
            continue
        val = path.value
        rp_e = ('c05', lambda m: {'what': 'eof_tail', 'c': float(m.get('conc', 0.0))})
        fb = [{'what': 'eof_tail', 'c': c_} for c_ in (1e-8, 1.26e-8, 5e-9, 2e-8, 1e-9)]
        if not isinstance(val, F64):
            chk.add(f'get_eof_2qubit: finite for every concurrence value in [0,1] (binary64, path {pi})', pre + path.pc + path.facts, ir.bconst(bool(np.isfinite(val))), key='get_eof_2qubit NaN', replay=rp_e)
            continue
        # monolithic query (fast when there IS a counterexample, usually 'unknown' when there is none) ...
        cl = ir.band(ir.bnot(val.isnan().n), ir.bnot(val.isinf().n))
        mono = chk.add(f'get_eof_2qubit: finite (no NaN) for every concurrence value in [0,1] (binary64, path {pi}) [monolithic]', pre + path.pc + path.facts, cl, key='get_eof_2qubit NaN',
                       replay=rp_e, fallback_payloads=fb, kind='probe_forall')
        # ... and the same claim by solver-checked one-operation interval lemmas (composition bounds the result)
        from symnp import fprange
        lemmas, root_iv = fprange.range_lemmas(val.n, {'conc': (0.0, 1.0)}, path.pc, path.ctx.aux, f'eof{pi}')
        if root_iv is None:
            chk.add(f'get_eof_2qubit: result bounded by interval lemmas (path {pi})', [], ir.FALSE, key='get_eof_2qubit NaN', replay=rp_e, fallback_payloads=fb, kind='probe_forall')
            mono.meta['soft'] = False      # no interval proof on this path: the monolithic query has to decide
        else:
            for lab, asm, clm in lemmas:
                chk.add(f'get_eof_2qubit tail (path {pi}) lemma: {lab}', asm, clm, key='get_eof_2qubit NaN', replay=rp_e, fallback_payloads=fb)
            chk.samples.append({'get_eof_2qubit_path': pi, 'result_interval_proved': list(root_iv), 'lemmas': len(lemmas)})
        chk.notes_from(path)
    chk.stub('get_concurrence_2qubit -> any binary64 in [0,1]; libm log/sqrt per the C contract (fresh values)')
    # ---- 6. get_concurrence_pure vanishes on product vectors (algebraic) and is below sqrt(2(1-1/d))
    for dA, dB in ((2, 2), (2, 3), (3, 3)):
        chk.configurations += 1
        a, b = H.cx_array(f'ca{dA}_', dA), H.cx_array(f'cb{dB}_', dB)
        unit = [H.eq_sc(H.norm2(a), 1), H.eq_sc(H.norm2(b), 1)]
        psi = A.sym_array(np.outer(A.plain(a), A.plain(b)), np.complex128)
        paths, st = H.run_paths(lambda: E.get_concurrence_pure(psi), unit, feas_timeout_ms=2000)
        chk.add_path_stats(st)
        for pi, path in enumerate(paths):
            if path.status != 'return':
                continue
            val = S.as_sc(path.value)
            chk.add(f'get_concurrence_pure == 0 on every product vector ({dA}x{dB})', unit + path.pc + path.facts, H.eq_sc(val, 0), key='get_concurrence_pure non-zero on a product vector',
                    replay=('c05', {'what': 'conc_pure', 'dims': [dA, dB]}))
    chk.solve(timeout_s=120 if quick else 600)
