"""C07 - Clifford tableau simulation equals unitary conjugation for any gate history."""
import itertools
import random
import numpy as np
import numqi
import numqi.sim.clifford as cl
from numqi.gate import PauliOperator
from symnp import ir, scalars as S, arrays as A, facade, explore
from symnp.scalars import SC, BVS
from . import common as H
from .C03 import embed

U8 = np.uint8
ONE_Q = ['X', 'Y', 'Z', 'H', 'S']
TWO_Q = ['CX', 'CY', 'CZ']


# ---------------------------------------------------------------- helpers
def bits(name, shape):
    return H.bit_array(name, shape, U8)


def symplectic_constraints(Sm, n):
    """S^T Lam S == Lam over F2, Lam = [[0,I],[I,0]]  (entries are 0/1 bit terms)"""
    P = A.plain(Sm)
    cons = []
    for i in range(2 * n):
        for j in range(i, 2 * n):
            acc = ir.bvconst(0, 1)
            for k in range(n):
                a = _bit(P[k, i]); b = _bit(P[k + n, j]); c = _bit(P[k + n, i]); d = _bit(P[k, j])
                acc = ir.bvbin('bvxor', acc, ir.bvbin('bvxor', ir.bvbin('bvand', a, b), ir.bvbin('bvand', c, d)))
            want = 1 if (j == i + n) else 0
            cons.append(ir.bvcmp('eq', acc, ir.bvconst(want, 1)))
    return cons


def _bit(e):
    """low bit of a BVS element as a 1-bit term"""
    return ir.bvextract(e.n, 0, 0)


def eq_arr(a, b):
    xs, ys = H.elems(a), H.elems(b)
    assert len(xs) == len(ys), (len(xs), len(ys))
    return ir.band_all(S.as_sb(x == y).n for x, y in zip(xs, ys))


def pauli_matrix(f2):
    """dense matrix of a concrete phased Pauli in numqi's F2 convention (independent of numqi: i^(2b0+b1) * prod X^x Z^z)"""
    f2 = [int(v) for v in f2]
    n = (len(f2) - 2) // 2
    X = np.array([[0, 1], [1, 0]], dtype=complex)
    Z = np.array([[1, 0], [0, -1]], dtype=complex)
    m = np.array([[1]], dtype=complex)
    for q in range(n):
        t = np.eye(2, dtype=complex)
        if f2[2 + q]:
            t = t @ X
        if f2[2 + n + q]:
            t = t @ Z
        m = np.kron(m, t)
    return (1j ** (2 * f2[0] + f2[1])) * m


def all_paulis(n):
    return [np.array(b, dtype=U8) for b in itertools.product((0, 1), repeat=2 * n + 2)]


def matrix_to_f2(M, n):
    for f2 in all_paulis(n):
        if np.abs(pauli_matrix(f2) - M).max() < 1e-9:
            return f2
    raise ValueError('not a Pauli')


def convention_selfcheck():
    """the harness' dense-matrix convention agrees with numqi's own full_matrix on all phased 2-qubit Paulis"""
    for f2 in all_paulis(2):
        if np.abs(PauliOperator(f2).full_matrix - pauli_matrix(f2)).max() > 1e-12:
            return False
    return True


GATE_U = {'X': numqi.gate.X, 'Y': numqi.gate.Y, 'Z': numqi.gate.Z, 'H': numqi.gate.H, 'S': numqi.gate.S}


def gate_unitary(key, idx, n):
    if key in GATE_U:
        return embed(np.asarray(GATE_U[key], dtype=complex), (idx[0],), n).astype(complex)
    return embed(np.asarray(GATE_U[key[1]], dtype=complex), (idx[1],), n, (idx[0],)).astype(complex)


def conj_table(U, n):
    """{P (tuple of bits): F2 of U^dagger P U} by dense matrices"""
    tab = {}
    for f2 in all_paulis(n):
        M = U.conj().T @ pauli_matrix(f2) @ U
        tab[tuple(int(v) for v in f2)] = matrix_to_f2(M, n)
    return tab


def table_lookup(tab, P):
    """symbolic P (SymArray of bits) -> SymArray: ite-chain over the concrete table"""
    Pp = A.plain(P)
    m = len(Pp)
    out = [ir.bvconst(0, 8)] * m
    for key, val in tab.items():
        cond = ir.band_all(S.as_sb(Pp[i] == int(key[i])).n for i in range(m))
        out = [ir.rite(cond, ir.bvconst(int(val[i]), 8), out[i]) for i in range(m)]
    return A.sym_array([BVS(o, U8) for o in out], U8)


def _array_to_F2_with_images(n, imgs):
    """run the real clifford_array_to_F2 with PauliOperator.from_full_matrix (eigen-decomposition, float thresholds) replaced by a stand-in
    that returns prescribed images U X_k U^dag, U Z_k U^dag (F2 bits, in call order X_0, Z_0, X_1, Z_1, ...)"""
    it = iter(imgs)
    real = PauliOperator.__dict__['from_full_matrix']
    PauliOperator.from_full_matrix = staticmethod(lambda m, *a, **k: PauliOperator(next(it)))
    try:
        r_, S_ = cl.clifford_array_to_F2(np.eye(2 ** n))
    finally:
        PauliOperator.from_full_matrix = real
    return r_, S_


# ---------------------------------------------------------------- replayers
def replay(p):
    what = p['what']
    arr = lambda k: np.array(p[k], dtype=U8)
    if what == 'auto':
        r, Sm, P, Q = arr('r'), arr('S'), arr('P'), arr('Q')
        f = lambda x: cl.apply_clifford_on_pauli(x, r, Sm)
        lhs = f((PauliOperator(P) @ PauliOperator(Q)).F2)
        rhs = (PauliOperator(f(P)) @ PauliOperator(f(Q))).F2
        return (not np.array_equal(lhs, rhs)), f'phi(PQ) != phi(P)phi(Q) for r={r.tolist()} S={Sm.tolist()} P={P.tolist()} Q={Q.tolist()}'
    if what == 'array_to_F2':
        n = p['n']
        imgs = [np.array(v, dtype=U8) for v in p['imgs']]
        r_, S_ = _array_to_F2_with_images(n, imgs)
        for k in range(2 * n):
            e = np.zeros(2 * n + 2, dtype=U8)
            e[2 + k] = 1
            got = cl.apply_clifford_on_pauli(e, r_, S_)
            if not np.array_equal(got, imgs[k]):
                return True, f'clifford_array_to_F2: generator {k} has image {imgs[k].tolist()} under U, but the returned (r,S) maps it to {np.asarray(got).tolist()}'
        return False, 'tableau reproduces the generator images'
    if what == 'inj':
        r, Sm, P, Q = arr('r'), arr('S'), arr('P'), arr('Q')
        a = cl.apply_clifford_on_pauli(P, r, Sm)
        b = cl.apply_clifford_on_pauli(Q, r, Sm)
        return (np.array_equal(a, b) and not np.array_equal(P, Q)), f'phi not injective: P={P.tolist()} Q={Q.tolist()}'
    if what == 'mult':
        rx, Sx, ry, Sy, P = arr('rx'), arr('Sx'), arr('ry'), arr('Sy'), arr('P')
        try:
            rz, Sz = cl.clifford_multiply(rx, Sx, ry, Sy)
        except AssertionError:
            return True, 'clifford_multiply: internal parity assert fails for symplectic inputs'
        seq = cl.apply_clifford_on_pauli(cl.apply_clifford_on_pauli(P, rx, Sx), ry, Sy)
        one = cl.apply_clifford_on_pauli(P, rz, Sz)
        return (not np.array_equal(seq, one)), f'clifford_multiply != sequential application on P={P.tolist()}'
    if what == 'history':
        n = p['n']
        circ = numqi.sim.CliffordCircuit()
        U = np.eye(2 ** n, dtype=complex)
        bad = None
        for step in p['steps']:
            if step[0] == 'gate':
                key, idx = step[1], step[2]
                getattr(circ, key)(*idx)
                U = gate_unitary(key, idx, n) @ U
            else:
                P = np.array(step[1], dtype=U8)
                if circ.num_qubit != n:
                    return False, 'history does not touch the last qubit yet'
                if step[0] == 'symplectic':
                    circ.to_symplectic_form()
                    continue
                try:
                    got = circ.apply_pauli_F2(P)
                except Exception as e:       # an exception of the real code on a valid phased Pauli after a valid history is itself the violation
                    bad = f'after {[s[1] + str(s[2]) for s in p["steps"] if s[0] == "gate"]}: apply_pauli_F2({P.tolist()}) raises {type(e).__name__}: {e}'
                    break
                want = matrix_to_f2(U.conj().T @ pauli_matrix(P) @ U, n)
                if not np.array_equal(got, want):
                    bad = f'after {[s[1] + str(s[2]) for s in p["steps"] if s[0] == "gate"]}: query P={P.tolist()} gave {got.tolist()}, U^dag P U = {want.tolist()}'
                    break
        return (bad is not None), bad or 'history consistent'
    if what == 'universal':
        n = p['n']
        circ = numqi.sim.CliffordCircuit()
        U = np.eye(2 ** n, dtype=complex)
        for key, idx in p['gates']:
            getattr(circ, key)(*idx)
            U = gate_unitary(key, idx, n) @ U
        got = circ.to_universal_circuit().to_unitary()
        return (not H.close(got, U, 1e-9)), f'to_universal_circuit differs from the gate product for {p["gates"]}'
    raise ValueError(what)


REPLAYERS = {'c07': replay}


def bits_payload(model, arrs, **kw):
    out = dict(kw)
    for k, a in arrs.items():
        env = H.model_env(model, [a])
        out[k] = H.eval_array(a, env).tolist()
    return out


# ---------------------------------------------------------------- symbolic gate keys (histories)
class SymKey:
    """a gate name known only symbolically: one-hot selector bits over the admissible names"""

    def __init__(self, name, names):
        self.names = names
        self.sel = ir.bvvar(name, 3)
        self.valid = ir.bvcmp('bvult', self.sel, ir.bvconst(len(names), 3))

    def is_(self, i):
        return ir.bvcmp('eq', self.sel, ir.bvconst(i, 3))

    def __hash__(self):
        return id(self)

    def __eq__(self, o):
        return self is o

    def concrete(self, model):
        return self.names[int(model.get(self.sel.val, 0)) % len(self.names)]


def sym_dagger_f2(real_fn):
    """replacement for numqi.sim.clifford._basic_clifford_dagger_f2 accepting SymKey: if-then-else over the REAL per-key tableaux"""
    def f(key):
        if not isinstance(key, SymKey):
            return real_fn(key)
        tabs = [real_fn(k) for k in key.names]
        r0, S0 = tabs[0]
        r = [ir.bvconst(int(v), 8) for v in np.asarray(r0).reshape(-1)]
        Sm = [ir.bvconst(int(v), 8) for v in np.asarray(S0).reshape(-1)]
        for i in range(1, len(tabs)):
            ri, Si = tabs[i]
            c = key.is_(i)
            r = [ir.rite(c, ir.bvconst(int(v), 8), o) for v, o in zip(np.asarray(ri).reshape(-1), r)]
            Sm = [ir.rite(c, ir.bvconst(int(v), 8), o) for v, o in zip(np.asarray(Si).reshape(-1), Sm)]
        shp = np.asarray(S0).shape
        return (A.sym_array([BVS(x, U8) for x in r], U8), A.sym_array([BVS(x, U8) for x in Sm], U8).reshape(shp))
    return f


def ref_gate_map(P, key, idx, n, tables):
    """reference: U_g^dagger P U_g for a (possibly symbolic) key, from dense-matrix conjugation tables embedded on n qubits"""
    if isinstance(key, SymKey):
        outs = [table_lookup(tables[(k, tuple(idx), n)], P) for k in key.names]
        res = A.plain(outs[0]).copy()
        for i in range(1, len(outs)):
            oi = A.plain(outs[i])
            for j in range(len(res)):
                res[j] = BVS(ir.rite(key.is_(i), oi[j].n, res[j].n), U8)
        return A.sym_array(list(res), U8)
    return table_lookup(tables[(key, tuple(idx), n)], P)


def run(chk):
    quick = chk.tier == 'quick'
    rng = random.Random(chk.seed)
    chk.fn('numqi.sim.clifford.apply_clifford_on_pauli', 'numqi.sim.clifford.clifford_multiply', 'numqi.sim.clifford.CliffordCircuit.to_symplectic_form',
           'numqi.sim.clifford.CliffordCircuit.apply_pauli_F2', 'numqi.sim.clifford.CliffordCircuit.to_universal_circuit',
           'numqi.sim.clifford.CliffordCircuit.<gate methods>', 'numqi.sim.clifford._basic_clifford_dagger_f2 (concrete, per key)',
           'numqi.gate.PauliOperator.__matmul__')
    chk.register_replayer('c07', replay)
    chk.out_of_claim('clifford_array_to_F2 on arbitrary Clifford unitaries (eigh inside from_full_matrix; only its concrete output on the eight basic gates enters); '
                     'symbolic symplectic S for n>=3; histories beyond the stated length; random_*_gate')
    if not convention_selfcheck():
        chk.engine_error('oracle', RuntimeError('harness Pauli matrix convention differs from PauliOperator.full_matrix'))
        return
    nmax = 2
    chk.bound(symbolic_S='all of Sp(2,F2) and Sp(4,F2) x all phase vectors x all ordered pairs of phased Paulis (one query each)',
              histories='all shapes of length <= %d on <= %d qubits with symbolic gate names and symbolic queried Pauli; queries after every prefix' % ((3, 2) if quick else (4, 3)))
    # ---- 0. clifford_array_to_F2: whatever Hermitian Paulis the images U X_k U^dag, U Z_k U^dag are, the returned (r, S) maps the generators to them
    chk.fn('numqi.sim.clifford.clifford_array_to_F2 (phase / column bookkeeping; from_full_matrix replaced by symbolic images)')
    chk.stub('PauliOperator.from_full_matrix inside clifford_array_to_F2 -> arbitrary Hermitian phased Pauli (symbolic F2 bits): recognising the Pauli from a dense matrix stays outside')
    for n in (1, 2, 3):
        imgs = [bits(f'img{n}_{k}', 2 * n + 2) for k in range(2 * n)]            # call order X_0, Z_0, X_1, Z_1, ...
        herm = []
        for im in imgs:
            ip = A.plain(im)
            par = S.as_sc(0) if False else None
            acc = ip[2] & ip[2 + n]
            for j in range(1, n):
                acc = acc ^ (ip[2 + j] & ip[2 + n + j])
            herm.append(S.as_sb(ip[1] == acc).n)                                   # Hermitian: the i-bit equals the parity of the number of Y letters
        try:
            paths, st = H.run_paths(lambda n=n, imgs=imgs: _array_to_F2_with_images(n, imgs), herm)
        except S.EngineError as e:
            chk.engine_error(f'clifford_array_to_F2 n={n}', e)
            paths = []
        chk.add_path_stats(st)
        chk.configurations += 1
        rpa = ('c07', lambda m, imgs=imgs, n=n: {'what': 'array_to_F2', 'n': n, 'imgs': [H.eval_array(a_, H.model_env(m, [a_])).tolist() for a_ in imgs]})
        for pi, path in enumerate(paths):
            pre = herm + path.pc
            if path.status != 'return':
                chk.add(f'clifford_array_to_F2 raises {type(path.value).__name__} [n={n}] path {pi}', pre, ir.FALSE, key='clifford_array_to_F2 raises', replay=rpa)
                continue
            r_, S_ = path.value
            for k in range(2 * n):
                # call order (X_0, Z_0, X_1, ...) -> generator index (X_k at k, Z_k at n+k)
                img = imgs[2 * k] if k < n else imgs[2 * (k - n) + 1]
                e = np.zeros(2 * n + 2, dtype=U8)
                e[2 + k] = 1
                try:
                    with path.resume():
                        with facade.patched():
                            got = cl.apply_clifford_on_pauli(A.sym_array([S.bv_const(int(v), U8) for v in e], U8), r_, S_)
                    c_ = eq_arr(got, img)
                except S.EngineError:
                    raise
                chk.add(f'clifford_array_to_F2: (r,S) maps generator {k} to its prescribed image, for every Hermitian image [n={n}] path {pi}', pre, c_,
                        key='clifford_array_to_F2 phase/column bookkeeping', replay=rpa)
    # ---- 1. automorphism / injectivity, 2. composition
    for n in range(1, nmax + 1):
        r = bits(f'r{n}', 2 * n)
        Sm = bits(f's{n}', (2 * n, 2 * n))
        P = bits(f'p{n}', 2 * n + 2)
        Q = bits(f'q{n}', 2 * n + 2)
        symp = symplectic_constraints(Sm, n)

        def f_auto():
            f = lambda x: cl.apply_clifford_on_pauli(x, r, Sm)
            lhs = f((PauliOperator(P) @ PauliOperator(Q)).F2)
            fp, fq = f(P), f(Q)
            rhs = (PauliOperator(fp) @ PauliOperator(fq)).F2
            return lhs, rhs, fp, fq
        paths, st = H.run_paths(f_auto, symp)
        chk.add_path_stats(st)
        chk.configurations += 1
        for pi, path in enumerate(paths):
            pre = symp + path.pc
            rp = ('c07', lambda m, r=r, Sm=Sm, P=P, Q=Q: bits_payload(m, {'r': r, 'S': Sm, 'P': P, 'Q': Q}, what='auto'))
            if path.status != 'return':
                chk.add(f'apply_clifford_on_pauli raises {type(path.value).__name__} [n={n}] path {pi}', pre, ir.FALSE, key='apply_clifford_on_pauli raises', replay=rp)
                continue
            lhs, rhs, fp, fq = path.value
            chk.add(f'phi(PQ) == phi(P)phi(Q) for all symplectic S, r, P, Q [n={n}]', pre, eq_arr(lhs, rhs), key='apply_clifford_on_pauli not a homomorphism', replay=rp)
            inj = ir.bor(ir.bnot(eq_arr(fp, fq)), eq_arr(P, Q))
            chk.add(f'phi injective (incl. phase bits) [n={n}]', pre, inj, key='apply_clifford_on_pauli not injective',
                    replay=('c07', lambda m, r=r, Sm=Sm, P=P, Q=Q: bits_payload(m, {'r': r, 'S': Sm, 'P': P, 'Q': Q}, what='inj')))
            binary = ir.band_all(S.as_sb(x <= 1).n for x in H.elems(fp))
            chk.add(f'phi(P) is a 0/1 vector of dtype uint8 [n={n}]', pre, ir.band(binary, ir.bconst(fp.dtype == U8)), key='apply_clifford_on_pauli output not binary', replay=rp)
            chk.add(f'reach auto [n={n}] path {pi}', pre, ir.TRUE, kind='reach')
        # composition
        rx, Sx, ry, Sy = bits(f'rx{n}', 2 * n), bits(f'sx{n}', (2 * n, 2 * n)), bits(f'ry{n}', 2 * n), bits(f'sy{n}', (2 * n, 2 * n))
        symp2 = symplectic_constraints(Sx, n) + symplectic_constraints(Sy, n)

        def f_mult():
            rz, Sz = cl.clifford_multiply(rx, Sx, ry, Sy)
            seq = cl.apply_clifford_on_pauli(cl.apply_clifford_on_pauli(P, rx, Sx), ry, Sy)
            one = cl.apply_clifford_on_pauli(P, rz, Sz)
            return seq, one, rz, Sz
        paths, st = H.run_paths(f_mult, symp2)
        chk.add_path_stats(st)
        chk.configurations += 1
        for pi, path in enumerate(paths):
            pre = symp2 + path.pc
            rp = ('c07', lambda m, rx=rx, Sx=Sx, ry=ry, Sy=Sy, P=P: bits_payload(m, {'rx': rx, 'Sx': Sx, 'ry': ry, 'Sy': Sy, 'P': P}, what='mult'))
            if path.status != 'return':
                chk.add(f'clifford_multiply raises {type(path.value).__name__} for symplectic inputs [n={n}] path {pi}', pre, ir.FALSE, key='clifford_multiply raises', replay=rp)
                continue
            seq, one, rz, Sz = path.value
            for ei, (x, y) in enumerate(zip(H.elems(seq), H.elems(one))):
                cl_ = S.as_sb(x == y).n
                if n == 2 and ei == 0:
                    # the sign bit is a quartic F2 identity: case-split the first two columns of Sx over the workers
                    col = [A.plain(Sx)[i, j] for j in range(2) for i in range(4)]
                    for v in range(256):
                        extra = [S.as_sb(col[i] == ((v >> i) & 1)).n for i in range(8)]
                        chk.add(f'clifford_multiply == sequential application [n={n}] entry {ei} case Sx[:, :2]={v:08b}', pre + extra, cl_, key='clifford_multiply != sequential', replay=rp,
                                meta={'no_auto_reach': True})      # exhaustive case split over 8 bits: many cases contradict the symplectic constraints by design
                else:
                    chk.add(f'clifford_multiply == sequential application, all (rx,Sx),(ry,Sy),P [n={n}] entry {ei}', pre, cl_, key='clifford_multiply != sequential', replay=rp)
            for ci_, c_ in enumerate(symplectic_constraints(Sz, n)):
                chk.add(f'clifford_multiply result symplectic [n={n}] constraint {ci_}', pre, c_, key='clifford_multiply result not symplectic', replay=rp)
            chk.add(f'clifford_multiply result binary [n={n}]', pre, ir.band_all(S.as_sb(x <= 1).n for x in H.elems(rz) + H.elems(Sz)), key='clifford_multiply result not symplectic', replay=rp)
            chk.add(f'reach mult [n={n}] path {pi}', pre, ir.TRUE, kind='reach')
    # ---- 3. per-gate tableau through the public API == dense conjugation, all phased Paulis (symbolic P)
    tables = {}
    nhist = 2 if quick else 3
    for n in range(1, nhist + 1):
        for key in ONE_Q:
            for q in range(n):
                tables[(key, (q,), n)] = conj_table(gate_unitary(key, (q,), n), n)
        for key in TWO_Q:
            for a, b in itertools.permutations(range(n), 2):
                tables[(key, (a, b), n)] = conj_table(gate_unitary(key, (a, b), n), n)
    for (key, idx, n), tab in tables.items():
        if max(idx) != n - 1:
            continue   # num_qubit is inferred from the highest index
        P = bits(f'p{n}', 2 * n + 2)

        def f_gate(key=key, idx=idx):
            circ = numqi.sim.CliffordCircuit()
            getattr(circ, key)(*idx)
            return circ.apply_pauli_F2(P)
        paths, st = H.run_paths(f_gate, [])
        chk.add_path_stats(st)
        chk.configurations += 1
        for pi, path in enumerate(paths):
            rp = ('c07', lambda m, P=P, key=key, idx=idx, n=n: {'what': 'history', 'n': n, 'steps': [['gate', key, list(idx)], ['apply', H.eval_array(P, H.model_env(m, [P])).tolist()]]})
            if path.status != 'return':
                chk.add(f'CliffordCircuit.{key}{idx}.apply_pauli_F2 raises {type(path.value).__name__}', path.pc, ir.FALSE, key=f'CliffordCircuit raises', replay=rp)
                continue
            chk.add(f'CliffordCircuit.{key}{idx}: tableau(P) == U^dag P U for all phased P [n={n}]', path.pc, eq_arr(path.value, table_lookup(tab, P)),
                    key=f'tableau of gate {key} != conjugation', replay=rp)
    # ---- 4. histories with symbolic gate names
    real_fn = getattr(cl, '_basic_clifford_dagger_f2', None)
    if real_fn is None:
        chk.assume('the internal per-gate table hook _basic_clifford_dagger_f2 is absent in this tree: histories are checked with concrete gate names only')
        shapes = []
        extra = {}
    else:
        extra = {'numqi.sim.clifford': {'_basic_clifford_dagger_f2': sym_dagger_f2(real_fn)}}
        shapes = history_shapes(quick, rng)
    chk.extra['history_shapes'] = len(shapes)
    for hi, (n, steps) in enumerate(shapes):
        keys = {}
        Ps = {}

        def f_hist(n=n, steps=steps, hi=hi):
            circ = numqi.sim.CliffordCircuit()
            out = []
            applied = []
            for si, st_ in enumerate(steps):
                if st_[0] == 'gate':
                    arity, idx = st_[1], st_[2]
                    names = ONE_Q if arity == 1 else TWO_Q
                    k = keys.setdefault(si, SymKey(f'h{hi}k{si}', names))
                    getattr(circ, names[0])(*idx)                      # public append (cache handling is the code's own)
                    circ.gate_index_list[-1] = (k,) + tuple(idx)       # ... with the gate name made symbolic
                    applied.append((k, idx))
                elif st_[0] == 'symplectic':
                    circ.to_symplectic_form()
                else:
                    P = Ps.setdefault(si, bits(f'h{hi}p{si}', 2 * n + 2))
                    got = circ.apply_pauli_F2(P)
                    ref = P
                    for k, idx in reversed(applied):
                        ref = ref_gate_map(ref, k, idx, n, tables)
                    out.append((si, got, ref))
            return out
        valid = []
        paths, st = H.run_paths(f_hist, [], extra_globals=extra)
        valid = [k.valid for k in keys.values()]
        chk.add_path_stats(st)
        chk.configurations += 1
        desc = ' '.join((f'g{s[1]}{tuple(s[2])}' if s[0] == 'gate' else ('sym' if s[0] == 'symplectic' else 'query')) for s in steps)
        for pi, path in enumerate(paths):
            def mk(m, n=n, steps=steps, keys=keys, Ps=Ps):
                out = []
                for si, s in enumerate(steps):
                    if s[0] == 'gate':
                        out.append(['gate', keys[si].concrete(m), list(s[2])])
                    elif s[0] == 'symplectic':
                        out.append(['symplectic', [0] * (2 * n + 2)])
                    else:
                        out.append(['apply', H.eval_array(Ps[si], H.model_env(m, [Ps[si]])).tolist()])
                return {'what': 'history', 'n': n, 'steps': out}
            rp = ('c07', mk)
            if path.status != 'return':
                chk.add(f'history [{desc}] raises {type(path.value).__name__}', valid + path.pc, ir.FALSE, key='CliffordCircuit history raises', replay=rp)
                continue
            for si, got, ref in path.value:
                chk.add(f'history n={n} [{desc}] query@{si} reflects all gates appended so far', valid + path.pc, eq_arr(got, ref),
                        key='CliffordCircuit query does not reflect all appended gates', replay=rp)
            chk.add(f'reach history {hi}', valid + path.pc, ir.TRUE, kind='reach')
    # ---- 4b. histories with CONCRETE gate names through the public API only (no internal hook): all histories of length <= 2 with a
    #          query after every append and cache-priming variants, plus sampled longer ones; the queried Pauli is symbolic
    conc = []
    for n in (1, 2):
        gl = [(k, (q,)) for k in ONE_Q for q in range(n)] + [(k, ab) for k in TWO_Q for ab in itertools.permutations(range(n), 2)]
        first = [g for g in gl if max(g[1]) == n - 1]
        seqs = [(g,) for g in first] + [(g, h) for g in first for h in gl]
        longer = [(g, h, i) for g in first for h in gl for i in gl]
        rng.shuffle(longer)
        seqs += longer[:(40 if quick else 1500)]
        if not quick:
            more = [tuple([rng.choice(first)] + [rng.choice(gl) for _ in range(rng.randint(3, 5))]) for _ in range(300)]
            seqs += more
        for seq in seqs:
            conc.append((n, seq, 'every'))
            if len(seq) >= 2:
                conc.append((n, seq, 'prime'))
    chk.extra['concrete_histories'] = len(conc)
    for ci, (n, seq, mode) in enumerate(conc):
        Pq = {}

        def f_c(n=n, seq=seq, mode=mode, ci=ci):
            circ = numqi.sim.CliffordCircuit()
            out = []
            applied = []
            for si, (key, idx) in enumerate(seq):
                getattr(circ, key)(*idx)
                applied.append((key, idx))
                if mode == 'prime' and si == 0:
                    circ.to_symplectic_form()
                if mode == 'every' or si == len(seq) - 1:
                    P = Pq.setdefault(si, bits(f'c{ci}p{si}', 2 * n + 2))
                    got = circ.apply_pauli_F2(P)
                    ref = P
                    for k, ix in reversed(applied):
                        ref = table_lookup(tables[(k, tuple(ix), n)], ref)
                    out.append((si, got, ref))
            return out
        paths, st = H.run_paths(f_c, [])
        chk.add_path_stats(st)
        chk.configurations += 1
        desc = ' '.join(f'{k}{tuple(i)}' for k, i in seq) + f' [{mode}]'
        for pi, path in enumerate(paths):
            def mk(m, n=n, seq=seq, mode=mode, Pq=Pq):
                steps = []
                for si, (key, idx) in enumerate(seq):
                    steps.append(['gate', key, list(idx)])
                    if mode == 'prime' and si == 0:
                        steps.append(['symplectic', [0] * (2 * n + 2)])
                    if si in Pq:
                        steps.append(['apply', H.eval_array(Pq[si], H.model_env(m, [Pq[si]])).tolist()])
                return {'what': 'history', 'n': n, 'steps': steps}
            rp = ('c07', mk)
            if path.status != 'return':
                chk.add(f'history {desc} raises {type(path.value).__name__}', path.pc, ir.FALSE, key='CliffordCircuit history raises', replay=rp)
                continue
            for si, got, ref in path.value:
                chk.add(f'history n={n} {desc}: query after gate {si} == U^dag P U of all gates appended so far', path.pc, eq_arr(got, ref),
                        key='CliffordCircuit query does not reflect all appended gates', replay=rp)
    # ---- 5. to_universal_circuit == ordered gate product (concrete names, symbolic state via C03 machinery is not needed: ground)
    gates2 = [(k, (q,)) for k in ONE_Q for q in range(2)] + [(k, ab) for k in TWO_Q for ab in ((0, 1), (1, 0))]
    seqs = [(g,) for g in gates2] + (rng.sample(list(itertools.product(gates2, repeat=2)), 40) if quick else list(itertools.product(gates2, repeat=2)))
    bad_univ = None
    nun = 0
    for seq in seqs:
        if max(max(i) for _, i in seq) != 1:
            continue
        nun += 1
        ok, what = replay({'what': 'universal', 'n': 2, 'gates': [[k, list(i)] for k, i in seq]})
        if ok and bad_univ is None:
            bad_univ = [[k, list(i)] for k, i in seq]
    chk.extra['to_universal_circuit_sequences_checked_concretely'] = nun
    if bad_univ is not None:
        chk.report_reproduced('to_universal_circuit != gate product', f'sequence {bad_univ}', {'what': 'universal', 'n': 2, 'gates': bad_univ}, 'c07')
    chk.assume('per-gate reference tables U^dag P U are computed from dense matrices with the harness convention i^(2b0+b1) prod X^x Z^z, cross-checked against PauliOperator.full_matrix each run')
    chk.stub('numqi.sim.clifford._basic_clifford_dagger_f2 -> for a symbolic gate name: if-then-else over the real per-name results (histories only)')
    chk.solve(timeout_s=60 if quick else 600)


def history_shapes(quick, rng):
    """(n, steps) with steps in ('gate', arity, idx) | ('query',) | ('symplectic',); every shape ends with a query and touches qubit n-1 first"""
    shapes = []
    for n in ((1, 2) if quick else (1, 2, 3)):
        one = [('gate', 1, (q,)) for q in range(n)]
        two = [('gate', 2, ab) for ab in itertools.permutations(range(n), 2)]
        gates = one + two
        maxlen = 3 if quick else (4 if n <= 2 else 3)
        for L in range(1, maxlen + 1):
            for seq in itertools.product(gates, repeat=L):
                if max(seq[0][2]) != n - 1:
                    continue     # first gate fixes num_qubit
                # query placements: after every gate (interleaved) plus a cache-priming to_symplectic_form variant
                steps_a = []
                for g in seq:
                    steps_a += [g, ('query',)]
                shapes.append((n, steps_a))
                if L >= 2:
                    steps_b = [seq[0], ('symplectic',)] + list(seq[1:]) + [('query',)]
                    shapes.append((n, steps_b))
                    steps_c = list(seq) + [('query',)]
                    shapes.append((n, steps_c))
    if quick and len(shapes) > 160:
        keep = [s for s in shapes if len([x for x in s[1] if x[0] == 'gate']) <= 2]
        rest = [s for s in shapes if s not in keep]
        rng.shuffle(rest)
        shapes = keep + rest[:max(0, 160 - len(keep))]
    return shapes
