"""C18 - catalogue constructors return the objects they name (algebraic part)."""
import itertools
import math
import random
import numpy as np
from fractions import Fraction
import numqi
import numqi.state as ST
from symnp import ir, scalars as S, arrays as A, facade
from symnp.scalars import SC
from . import common as H
from .C01 import det_small

TOL = 1e-9


def sym_float(x):
    """module-level `float` for numqi.state._internal: symbolic scalars pass through"""
    if A.is_sym_scalar(x):
        return x
    return float(x)


def stub_relative_entropy(rho0, rho1, *a, **k):
    """numqi.utils.get_relative_entropy by its contract (Klein's inequality): a value r >= 0 with r == 0 iff rho0 == rho1"""
    if not (A.has_sym(rho0) or A.has_sym(rho1)):
        return REAL_RELENT(rho0, rho1, *a, **k)
    c = S.ctx()
    r = c.fresh('relent')
    same = ir.band_all(H.eq_sc(x, y) for x, y in zip(H.elems(rho0), H.elems(rho1)))
    c.facts += [ir.rcmp('le', ir.ZERO, r), ir.beq(ir.rcmp('eq', r, ir.ZERO), same)]
    c.notes.append('get_relative_entropy(rho,sigma): fresh r >= 0 with r == 0 iff rho == sigma (Klein inequality); its value is not modelled')
    return SC(r)


REAL_RELENT = numqi.utils.get_relative_entropy
EG = {'numqi.state._internal': {'float': sym_float}, 'numqi.utils': {'get_relative_entropy': stub_relative_entropy}}


def det_any(P):
    P = A.plain(P) if isinstance(P, np.ndarray) else P
    n = P.shape[0]
    if n == 1:
        return S.as_sc(P[0, 0])
    if n <= 3:
        return det_small(P)
    acc = SC(ir.ZERO)
    for j in range(n):
        e = S.as_sc(P[0, j])
        if e.isconst and e.re.val == 0 and e.im.val == 0:
            continue
        minor = np.delete(np.delete(P, 0, axis=0), j, axis=1)
        acc = acc + (e if j % 2 == 0 else -e) * det_any(minor)
    return acc


def blocks_of(Mx):
    """connected components of the sparsity pattern of a symbolic Hermitian matrix"""
    P = A.plain(Mx)
    n = P.shape[0]
    nz = lambda e: not (S.as_sc(e).isconst and S.as_sc(e).re.val == 0 and S.as_sc(e).im.val == 0)
    parent = list(range(n))

    def find(i):
        while parent[i] != i:
            parent[i] = parent[parent[i]]
            i = parent[i]
        return i
    for i in range(n):
        for j in range(n):
            if i != j and (nz(P[i, j]) or nz(P[j, i])):
                parent[find(i)] = find(j)
    comp = {}
    for i in range(n):
        comp.setdefault(find(i), []).append(i)
    return list(comp.values())


def psd_claims(Mx, max_block=4):
    """[(label, B node)]: Hermitian and every principal minor of every diagonal block >= 0  (<=> PSD); None if a block is too large"""
    P = A.plain(Mx)
    out = [('Hermitian', ir.band_all(H.eq_sc(P[i, j], S.as_sc(P[j, i]).conjugate()) for i in range(P.shape[0]) for j in range(i, P.shape[0])))]
    for blk in blocks_of(Mx):
        if len(blk) > max_block:
            return None
        for r in range(1, len(blk) + 1):
            for sub in itertools.combinations(blk, r):
                d = det_any(P[np.ix_(sub, sub)])
                out.append((f'principal minor {sub} >= 0', ir.band(ir.rcmp('le', ir.ZERO, d.re), ir.rcmp('eq', d.im, ir.ZERO))))
    return out


def partial_transpose_ref(P, dA, dB):
    P = A.plain(P)
    return P.reshape(dA, dB, dA, dB).transpose(0, 3, 2, 1).reshape(dA * dB, dA * dB)


FAMILIES = {
    'Werner': (lambda d, x: ST.Werner(d, x), lambda d: (-1.0, 1.0)),
    'Isotropic': (lambda d, x: ST.Isotropic(d, x), lambda d: (-1.0 / (d * d - 1), 1.0)),
    'get_bes2x4_Horodecki1997': (lambda d, x: ST.get_bes2x4_Horodecki1997(x), lambda d: (0.0, 1.0)),
    'get_bes3x3_Horodecki1997': (lambda d, x: ST.get_bes3x3_Horodecki1997(x), lambda d: (0.0, 1.0)),
    'get_2qutrit_Antoine2022': (lambda d, x: ST.get_2qutrit_Antoine2022(x), lambda d: (-2.5, 2.5)),
}


def replay(p):
    what = p['what']
    if what == 'family':
        f, rng_ = FAMILIES[p['name']]
        x = p['x']
        try:
            rho = f(p.get('d'), x)
        except Exception as e:
            return True, f"{p['name']}({p.get('d')}, {x}) raises {type(e).__name__}: {e}"
        ev = np.linalg.eigvalsh((rho + rho.conj().T) / 2)
        bad = np.abs(rho - rho.conj().T).max() > TOL or abs(np.trace(rho) - 1) > TOL or ev.min() < -TOL
        if p.get('ppt'):
            dA, dB = p['ppt']
            evt = np.linalg.eigvalsh(partial_transpose_ref(rho, dA, dB))
            bad |= evt.min() < -TOL
        return bool(bad), f"{p['name']}({p.get('d')}, {x}): not a density matrix" + (' / not PPT' if p.get('ppt') else '')
    if what == 'ket':
        v = np.asarray(eval(p['expr'], {'ST': ST, 'numqi': numqi, 'np': np}))
        return (abs(np.linalg.norm(v) - 1) > TOL or v.ndim != 1 or v.shape[0] != p['size']), f"{p['expr']} is not a normalised ket of size {p['size']}"
    if what == 'dm':
        rho = np.asarray(eval(p['expr'], {'ST': ST, 'numqi': numqi, 'np': np}))
        ev = np.linalg.eigvalsh((rho + rho.conj().T) / 2)
        bad = rho.shape != (p['size'], p['size']) or abs(np.trace(rho) - 1) > TOL or ev.min() < -TOL or np.abs(rho - rho.conj().T).max() > TOL
        return bool(bad), f"{p['expr']} is not a trace-one PSD matrix of shape ({p['size']},{p['size']}) (trace {np.trace(rho):.6g})"
    if what == 'return_dm':
        d = p['d']
        ket = ST.maximally_coherent_state(d)
        rho = ST.maximally_coherent_state(d, return_dm=True)
        return (not H.close(rho, np.outer(ket, ket.conj()), TOL)), f'maximally_coherent_state({d}, return_dm=True) is not the projector of the ket returned without it'
    if what == 'closed':
        fn = getattr(ST, p['fn'])
        val = fn(p['d'], p['x'])
        return (not np.all(np.isfinite(val)) or abs(float(np.max(np.abs(val)))) > 1e-12), f"{p['fn']}({p['d']}, {p['x']}) = {val} on the separable range (must be exactly 0)"
    if what == 'finite':
        fn = getattr(ST, p['fn'])
        val = fn(p['d'], p['x'])
        return (not np.all(np.isfinite(val))), f"{p['fn']}({p['d']}, {p['x']}) = {val} is not finite"
    if what == 'upb':
        import numqi.entangle as E
        kind, args = p['kind'], p.get('args')
        args = tuple(args) if isinstance(args, list) else args
        trials = [args] if kind != 'sixparam' else [np.random.default_rng(s_).uniform(0.1, 1.4, size=6) for s_ in range(8)] + ([np.array(p['para'], dtype=float)] if p.get('para') else [])
        for a_ in trials:
            upb = E.load_upb(kind, a_, ignore_warning=True)
            dims = [x.shape[1] for x in upb]
            prod = E.load_upb(kind, a_, return_product=True, ignore_warning=True)
            n, D = prod.shape
            bad = not H.close(prod.conj() @ prod.T, np.eye(n), 1e-9)
            for x in upb:
                bad |= not H.close(np.linalg.norm(x, axis=1), np.ones(n), 1e-9)
            bes = E.upb_to_bes(upb)
            ev = np.linalg.eigvalsh((bes + bes.conj().T) / 2)
            bad |= np.abs(bes - bes.conj().T).max() > 1e-9 or abs(np.trace(bes) - 1) > 1e-9 or ev.min() < -1e-9 or int(np.sum(ev > 1e-9)) != D - n
            if len(dims) == 2:
                pt = bes.reshape(dims[0], dims[1], dims[0], dims[1]).transpose(0, 3, 2, 1).reshape(D, D)
                bad |= np.linalg.eigvalsh((pt + pt.conj().T) / 2).min() < -1e-9
            if bad:
                return True, f'load_upb({kind!r}, {a_ if kind != "sixparam" else np.round(a_, 4).tolist()}): not an orthonormal product set / complementary projector is not a PPT state of rank D - |UPB|'
        return False, f'load_upb({kind!r}) is an orthonormal product set with a PPT complementary state'
    if what == 'iso_eof_formula':
        d = p['d']
        xs = ([p['x']] if p.get('x') is not None else []) + list(np.linspace(1.0 / (d + 1) + 1e-6, 1.0, 400))
        for x_ in xs:
            if not (1.0 / (d + 1) + 2.0 ** -20 <= x_ <= 1.0):
                continue
            F = (1 + x_ * d * d - x_) / (d * d)
            if F <= 4 * (d - 1) / (d * d):
                g = (np.sqrt(F) + np.sqrt((d - 1) * (1 - F))) ** 2 / d
                want = -g * np.log(g) - ((1 - g) * np.log(1 - g) if g < 1 else 0.0) + (1 - g) * np.log(d - 1)
            else:
                want = d * np.log(d - 1) * (F - 1) / (d - 2) + np.log(d)
            got = float(ST.get_Isotropic_eof(d, x_))
            if not abs(got - want) <= 1e-9:
                return True, f'get_Isotropic_eof({d}, {x_!r}) = {got!r} but the published piecewise formula (Terhal-Vollbrecht) gives {want!r}'
        return False, 'get_Isotropic_eof agrees with the published piecewise formula on the scanned values'
    if what == 'finite_scan':
        # directed: the solver's value first (if any), then the first 400 binary64 values above the separability boundary and a coarse grid
        fn = getattr(ST, p['fn'])
        xs = ([p['x']] if p.get('x') is not None else [])
        a = p['bound']
        for _ in range(400):
            xs.append(a)
            a = float(np.nextafter(a, 2.0))
        xs += list(np.linspace(p['bound'], 1.0, 101))
        with np.errstate(all='ignore'):
            for x_ in xs:
                if not (p['bound'] <= x_ <= 1.0):
                    continue
                val = fn(p['d'], x_)
                if not np.all(np.isfinite(val)):
                    return True, f"{p['fn']}({p['d']}, {x_!r}) = {val}: not finite for a (barely) entangled state"
        return False, f"{p['fn']}({p['d']}, x) finite on the scanned values"
    raise ValueError(what)


REPLAYERS = {'c18': replay}


def run(chk):
    quick = chk.tier == 'quick'
    chk.fn('numqi.state.Werner', 'numqi.state.Isotropic', 'numqi.state.get_bes2x4_Horodecki1997', 'numqi.state.get_bes3x3_Horodecki1997', 'numqi.state.get_2qutrit_Antoine2022',
           'numqi.state.Wtype', 'numqi.state.W', 'numqi.state.GHZ', 'numqi.state.Bell', 'numqi.state.Dicke', 'numqi.state.maximally_entangled_state', 'numqi.state.maximally_mixed_state',
           'numqi.state.maximally_coherent_state', 'numqi.state.get_Werner_ree/GME/eof', 'numqi.state.get_Isotropic_ree/GME/eof')
    chk.register_replayer('c18', replay)
    chk.out_of_claim('agreement of the closed forms with the generic (eigen/log) routines off the separable range; UPB/BES tables, tetrahedron POVM and Chebyshev bases '
                     '(irrational float tables: not reliably liftable); load_upb; get_Wtype_state_GME; get_qubit_dicke_state_GME')
    chk.bound(d='2,3 (4 thorough) for Werner/Isotropic', parameter='symbolic over the whole documented range incl. both end points',
              psd='Hermitian + every principal minor of every diagonal block of the sparsity pattern >= 0 (exact criterion), blocks up to 4x4')
    chk.stub('numqi.utils.get_relative_entropy -> fresh r >= 0 with r == 0 iff the two states are equal (only reached if a closed form leaves its zero branch)')
    chk.stub("module-level float() in numqi.state._internal passes symbolic scalars through (get_2qutrit_Antoine2022 calls float(q))")
    dims = (2, 3) if quick else (2, 3, 4)
    x = S.sc_var('x')
    # ---- parameterised families: density matrix over the whole range (+ PPT where documented)
    jobs = [('Werner', d, None) for d in dims] + [('Isotropic', d, None) for d in dims] + \
           [('get_bes2x4_Horodecki1997', None, (2, 4)), ('get_bes3x3_Horodecki1997', None, (3, 3)), ('get_2qutrit_Antoine2022', None, None)]
    for name, d, ppt in jobs:
        f, rg = FAMILIES[name]
        lo, hi = rg(d)
        pre = [(x >= S.as_sc(lo)).n, (x <= S.as_sc(hi)).n]
        chk.configurations += 1
        paths, st = H.run_paths(lambda: f(d, x), pre, extra_globals=EG, feas_timeout_ms=2000)
        chk.add_path_stats(st)
        rp = ('c18', lambda m, name=name, d=d, ppt=ppt: {'what': 'family', 'name': name, 'd': d, 'x': float(m.get('x', 0)), 'ppt': ppt})
        for pi, path in enumerate(paths):
            ap = pre + path.pc + path.facts
            if path.status != 'return':
                chk.add(f'{name}(d={d}) raises {type(path.value).__name__} inside the documented range (path {pi})', ap, ir.FALSE, key=f'{name} raises in range', replay=rp)
                continue
            rho = path.value
            side = [c for k, c in path.side]
            n = rho.shape[0]
            tr = sum((S.as_sc(A.plain(rho)[i, i]) for i in range(n)), SC(ir.ZERO))
            chk.add(f'{name}(d={d}): trace 1 and no division by zero over the whole range', ap, ir.band(H.eq_sc(tr, 1), ir.band_all(side)), key=f'{name} trace/definedness', replay=rp)
            cl = psd_claims(rho)
            if cl is None:
                chk.engine_error(f'{name} d={d}', RuntimeError('diagonal block larger than 4'))
            else:
                for lab, c in cl:
                    chk.add(f'{name}(d={d}): {lab}', ap + side, c, key=f'{name} not PSD/Hermitian', replay=rp)
            if ppt or name == 'get_2qutrit_Antoine2022':
                dA, dB = ppt if ppt else (3, 3)
                extra = [] if ppt else [(x <= S.as_sc(1.5)).n, (x >= S.as_sc(-1.5)).n]
                # the partial transpose is the one the real is_ppt hands to its positivity test (captured)
                captured = []

                def cap(M_, shift=0.0, hermitian_eps=None):
                    captured.append((M_, shift))
                    return True
                with facade.patched(None, {'numqi.utils': {'is_positive_semi_definite': cap}}):
                    try:
                        numqi.entangle.is_ppt(rho, (dA, dB))
                    except Exception as e:
                        chk.engine_error(f'is_ppt capture for {name}', e)
                ref = partial_transpose_ref(rho, dA, dB)
                ok_cap = len(captured) == 2
                if ok_cap:
                    same = ir.band_all(ir.bor(ir.band_all(H.eq_sc(a, b) for a, b in zip(H.elems(c_[0]), H.elems(ref))),
                                              ir.band_all(H.eq_sc(a, b) for a, b in zip(H.elems(c_[0]), H.elems(A.plain(ref).T)))) for c_ in captured)
                    shift_ok = all(abs(float(c_[1]) - 1e-7) < 1e-12 for c_ in captured)
                    chk.add(f'{name}: is_ppt tests the partial transposes of rho, shifted by +1e-7', ap, ir.band(same, ir.bconst(shift_ok)), key='is_ppt routing', replay=rp)
                    clt = psd_claims(A.wrap(ref.copy(), np.complex128))
                    if clt is None:
                        chk.engine_error(f'{name} PPT', RuntimeError('diagonal block larger than 4'))
                    else:
                        for lab, c in clt:
                            chk.add(f'{name}: partial transpose {lab}' + ('' if ppt else ' for |q|<=1.5'), ap + side + extra, c, key=f'{name} not PPT', replay=rp)
                else:
                    chk.add(f'{name}: is_ppt tests one partial transpose per party', [], ir.FALSE, key='is_ppt routing', replay=rp)
            chk.add(f'reach {name} d={d} path {pi}', ap, ir.TRUE, kind='reach')
    # ---- Wtype(coeff): normalised ket with the coefficients on the weight-one basis states
    for n in (2, 3):
        c = H.re_array(f'w{n}_', n)
        nz = ir.bnot(H.eq_sc(H.norm2(c), 0))
        paths, st = H.run_paths(lambda: ST.Wtype(c), [nz], feas_timeout_ms=2000)
        chk.add_path_stats(st)
        chk.configurations += 1
        for pi, path in enumerate(paths):
            if path.status != 'return':
                continue
            v = path.value
            sup = ir.band_all(H.eq_sc(e, 0) for k, e in enumerate(H.elems(v)) if bin(k).count('1') != 1)
            chk.add(f'Wtype(coeff) n={n}: unit norm, supported on weight-one basis states', [nz] + path.pc + path.facts, ir.band(H.eq_sc(H.norm2(v), 1), ir.band(sup, ir.bconst(len(H.elems(v)) == 2 ** n))),
                    key='Wtype not normalised', replay=('c18', {'what': 'ket', 'expr': f'ST.Wtype(np.arange(1.0,{n}+1))', 'size': 2 ** n}))
    # ---- parameter-free constructors (ground, exact radicals)
    ctx = S.new_ctx('g')
    with facade.patched():
        kets = [(f'ST.W({n})', 2 ** n) for n in (1, 2, 3, 4)] + [(f'ST.GHZ({n})', 2 ** n) for n in (1, 2, 3, 4)] + [(f'ST.Bell({i})', 4) for i in range(4)] + \
               [(f'ST.maximally_entangled_state({d})', d * d) for d in (2, 3, 4)] + [(f'ST.maximally_coherent_state({d})', d) for d in (1, 2, 3, 5)] + \
               [('ST.Dicke(1,1)', 4), ('ST.Dicke(2,1)', 8), ('ST.Dicke(1,1,1)', 27), ('ST.Dicke(0,2)', 4)]
        for expr, size in kets:
            chk.configurations += 1
            v = eval(expr, {'ST': ST, 'numqi': numqi, 'np': facade.make_np_facade()})
            ok = np.ndim(v) == 1 and len(v) == size
            chk.add(f'{expr}: normalised ket of size {size}', ctx.facts, ir.band(H.eq_sc(H.norm2(v), 1), ir.bconst(ok)) if ok else ir.FALSE, key=f'{expr.split("(")[0]} not a normalised ket',
                    replay=('c18', {'what': 'ket', 'expr': expr, 'size': size}))
        for coeff in ([1, 1, 1], [1, 2, 2], [3, 0, 4, 0], [1, 1]):
            chk.configurations += 1
            v = ST.Wtype(np.array(coeff))                 # integer dtype coefficients
            n = len(coeff)
            vp = A.plain(v) if isinstance(v, A.SymArray) else np.asarray(v, dtype=object)
            nrm2 = sum(c_ * c_ for c_ in coeff)
            ok = np.ndim(v) == 1 and len(vp) == 2 ** n
            cl = [H.eq_sc(H.norm2(vp), 1)] if ok else [ir.FALSE]
            if ok:
                for k_, c_ in enumerate(coeff):           # amplitude at index 2^k (the code's convention) equals coeff_k / |coeff|
                    e_ = S.as_sc(vp[2 ** k_])
                    cl.append(H.eq_sc(e_ * e_ * nrm2, c_ * c_))
                    cl.append(ir.rcmp('le', ir.ZERO, e_.re))
            chk.add(f'ST.Wtype(np.array({coeff})) [integer dtype]: normalised, amplitudes coeff_k/|coeff| on the weight-one basis states', ctx.facts, ir.band_all(cl), key='Wtype not normalised',
                    replay=('c18', {'what': 'ket', 'expr': f'ST.Wtype(np.array({coeff}))', 'size': 2 ** n}))
        for d in (1, 2, 3):
            chk.configurations += 1
            rho = ST.maximally_mixed_state(d)
            P = A.plain(rho) if isinstance(rho, A.SymArray) else np.asarray(rho, dtype=object)
            ok = P.shape == (d * d, d * d)
            tr = sum((S.as_sc(P[i, i]) for i in range(P.shape[0])), SC(ir.ZERO))
            diag = ir.band_all(H.eq_sc(P[i, j], (S.as_sc(1) / (d * d)) if i == j else 0) for i in range(P.shape[0]) for j in range(P.shape[1]))
            chk.add(f'maximally_mixed_state({d}) == I/d^2 (trace one, shape (d^2,d^2))', ctx.facts, ir.band(ir.band(H.eq_sc(tr, 1), diag), ir.bconst(ok)), key='maximally_mixed_state not trace one',
                    replay=('c18', {'what': 'dm', 'expr': f'ST.maximally_mixed_state({d})', 'size': d * d}))
        for d in (1, 2, 3, 4):
            chk.configurations += 1
            ket = ST.maximally_coherent_state(d)
            rho = ST.maximally_coherent_state(d, return_dm=True)
            kp, rp_ = H.elems(ket), A.plain(rho) if isinstance(rho, A.SymArray) else np.asarray(rho, dtype=object)
            cl = ir.band_all(H.eq_sc(rp_[i, j], S.as_sc(kp[i]) * S.as_sc(kp[j]).conjugate()) for i in range(d) for j in range(d)) if rp_.shape == (d, d) else ir.FALSE
            chk.add(f'maximally_coherent_state({d}, return_dm=True) == projector of the ket', ctx.facts, cl, key='maximally_coherent_state return_dm is not the projector', replay=('c18', {'what': 'return_dm', 'd': d}))
    # ---- closed forms vanish exactly on the separable range (the branch conditions are the subject); finite at the end points
    for fn, dlist, lo_f, hi_f in (('get_Werner_ree', dims, lambda d: -1.0, lambda d: 1.0 / d), ('get_Werner_GME', dims, lambda d: -1.0, lambda d: 1.0 / d), ('get_Werner_eof', dims, lambda d: -1.0, lambda d: 1.0 / d),
                                  ('get_Isotropic_ree', dims, lambda d: -1.0 / (d * d - 1), lambda d: 1.0 / (d + 1)), ('get_Isotropic_GME', dims, lambda d: -1.0 / (d * d - 1), lambda d: 1.0 / (d + 1)),
                                  ('get_Isotropic_eof', dims, lambda d: -1.0 / (d * d - 1), lambda d: 1.0 / (d + 1))):
        for d in dlist:
            from fractions import Fraction
            lo = Fraction(lo_f(d)).limit_denominator(1000)
            hi = Fraction(hi_f(d)).limit_denominator(1000)
            pre = [(x >= S.as_sc(lo)).n, (x <= S.as_sc(hi)).n]
            chk.configurations += 1
            try:
                paths, st = H.run_paths(lambda: getattr(ST, fn)(d, x), pre, extra_globals=EG, feas_timeout_ms=2000, max_paths=64)
            except S.EngineError as e:
                chk.engine_error(f'{fn} d={d}', e)
                continue
            chk.add_path_stats(st)
            rp = ('c18', lambda m, fn=fn, d=d: {'what': 'closed', 'fn': fn, 'd': d, 'x': float(m.get('x', 0))})
            for pi, path in enumerate(paths):
                ap = pre + path.pc + path.facts
                if path.status != 'return':
                    chk.add(f'{fn}(d={d}) raises {type(path.value).__name__} on the separable range (path {pi})', ap, ir.FALSE, key=f'{fn} raises', replay=rp)
                    continue
                val = path.value
                zero = ir.band_all(H.eq_sc(e, 0) for e in H.elems(val)) if not isinstance(val, (int, float)) else ir.bconst(val == 0)
                chk.add(f'{fn}(d={d}, x) == 0 exactly for every x in the separable range [{lo},{hi}] (path {pi})', ap + [c for k, c in path.side], zero, key=f'{fn} non-zero on the separable range', replay=rp)
            for xe in (float(lo_f(d)), float(hi_f(d)), 1.0, 0.0):
                ok, what = replay({'what': 'finite', 'fn': fn, 'd': d, 'x': xe})
                chk.add(f'{fn}({d}, {xe:.6g}) finite (ground, binary64)', [], ir.bconst(not ok), key=f'{fn} not finite at {xe:.6g}', replay=('c18', {'what': 'finite', 'fn': fn, 'd': d, 'x': xe}))
    # ---- unextendible product bases: the six-parameter family symbolically (every parameter value), the parameter-free / integer-argument kinds as ground checks
    import numqi.entangle.upb as UPBM
    chk.fn('numqi.entangle.load_upb', 'numqi.entangle.upb_to_bes')
    para = H.re_array('upbp', 6)
    chk.configurations += 1
    # domain: the normalisation constants N_A, N_B are not clamped (cos^2(gamma) + sin^2(gamma) cos^2(theta) > 1e-20); in the clamped corner the code itself warns "NOT a upb"
    S.new_ctx('upb')
    pp = A.plain(para)
    cg = lambda i: S.as_sc(pp[i]).cos()
    sg = lambda i: S.as_sc(pp[i]).sin()
    pre_u = [((cg(0) * cg(0) + sg(0) * sg(0) * cg(1) * cg(1)) > 1e-20).n, ((cg(3) * cg(3) + sg(3) * sg(3) * cg(4) * cg(4)) > 1e-20).n]
    try:
        paths, st = H.run_paths(lambda: UPBM.load_upb('sixparam', para, ignore_warning=True), pre_u, feas_timeout_ms=2000, max_paths=16)
    except S.EngineError as e:
        chk.engine_error('load_upb(sixparam)', e)
        paths = []
    if paths:
        chk.add_path_stats(st)
    rpu = ('c18', lambda m: {'what': 'upb', 'kind': 'sixparam', 'para': [float(m.get(f'upbp{i}', 0.7)) for i in range(6)]})
    for pi, path in enumerate(paths):
        if path.status != 'return':
            chk.add(f"load_upb('sixparam') raises {type(path.value).__name__} (path {pi})", path.pc + path.facts, ir.FALSE, key='load_upb(sixparam) raises', replay=rpu)
            continue
        with path.resume():
            ua, ub = (np.asarray(A.plain(x) if isinstance(x, A.SymArray) else x, dtype=object) for x in path.value)
            base = pre_u + path.pc + path.facts + [c for k_, c in path.side]
            ip = lambda u_, i, j: sum((S.as_sc(u_[i, t]).conjugate() * S.as_sc(u_[j, t]) for t in range(u_.shape[1])), SC(ir.ZERO))
            ok = ua.shape == (5, 3) and ub.shape == (5, 3)
            cl = [H.eq_sc(ip(u_, i, i), 1) for u_ in (ua, ub) for i in range(5)] if ok else [ir.FALSE]
            chk.add(f"load_upb('sixparam'): every local vector has unit norm, for all six parameters (path {pi})", base, ir.band_all(cl), key='load_upb(sixparam) not normalised', replay=rpu)
            for i in range(5):
                for j in range(i + 1, 5):
                    chk.add(f"load_upb('sixparam'): product vectors {i},{j} orthogonal (<a_i|a_j><b_i|b_j> == 0), for all six parameters (path {pi})", base,
                            H.eq_sc(ip(ua, i, j) * ip(ub, i, j), 0) if ok else ir.FALSE, key='load_upb(sixparam) not orthogonal', replay=rpu)
    for kind, args in [('tiles', None), ('pyramid', None), ('feng4x4', None), ('min4x4', None), ('feng2x2x2x2', None), ('quadres', 3), ('genshifts', 3), ('gentiles1', 4), ('gentiles2', (3, 4))] + \
            ([] if quick else [('quadres', 7), ('genshifts', 5), ('gentiles1', 6), ('gentiles2', (4, 4)), ('gentiles2', (3, 5))]):
        chk.configurations += 1
        pay = {'what': 'upb', 'kind': kind, 'args': list(args) if isinstance(args, tuple) else args}
        try:
            ok, what = replay(pay)
        except Exception as e:
            ok, what = True, f'load_upb({kind!r}, {args}) raises {type(e).__name__}: {e}'
        chk.add(f'load_upb({kind!r}, {args}): orthonormal product vectors; complementary projector Hermitian, trace one, PSD, PPT, rank D-|UPB| (ground, binary64 tol 1e-9)', [], ir.bconst(not ok),
                key=f'load_upb({kind}) invalid', replay=('c18', pay))
    # ---- isotropic EOF on the entangled range: the published piecewise formula (curved up to F_c = 4(d-1)/d^2, straight line beyond), exact reals
    for d in (2, 3, 4) if quick else (2, 3, 4, 5, 6):
        chk.configurations += 1
        lo = Fraction(1, d + 1) + Fraction(1, 2 ** 20)      # the sliver within 2^-20 of the boundary (where the code clamps 1-gamma at the smallest normal) is covered by the binary64 slice below
        pre = [(x >= S.as_sc(lo)).n, (x <= 1).n]
        try:
            paths, st = H.run_paths(lambda: ST.get_Isotropic_eof(d, x), pre, extra_globals=EG, feas_timeout_ms=2000, max_paths=64)
        except S.EngineError as e:
            chk.engine_error(f'get_Isotropic_eof d={d} entangled range', e)
            continue
        chk.add_path_stats(st)
        rp = ('c18', lambda m, d=d: {'what': 'iso_eof_formula', 'd': d, 'x': (float(m['x']) if 'x' in m else None)})
        for pi, path in enumerate(paths):
            ap = pre + path.pc + path.facts
            if path.status != 'return':
                chk.add(f'get_Isotropic_eof(d={d}) raises {type(path.value).__name__} on the entangled range (path {pi})', ap, ir.FALSE, key='get_Isotropic_eof raises', replay=rp)
                continue
            with path.resume():
                n_code = len(path.ctx.aux)
                val = S.as_sc(H.elems(path.value)[0])
                F = (1 + x * d * d - x) / (d * d)
                Fc = S.as_sc(Fraction(4 * (d - 1), d * d))
                g = (F.sqrt() + ((d - 1) * (1 - F)).sqrt())
                g = g * g / d
                curved = -g * g.log() - (1 - g) * (1 - g).log() + (1 - g) * S.as_sc(float(np.log(d - 1)))      # log(d-1), log(d) are concrete binary64 constants in the code
                cl = [ir.bor(ir.bnot((F <= Fc).n), H.eq_sc(val, curved))]
                if d > 2:
                    linear = S.as_sc(float(d * np.log(d - 1))) * (F - 1) / (d - 2) + S.as_sc(float(np.log(d)))      # d*log(d-1) is one concrete binary64 product in the code
                    cl.append(ir.bor(ir.bnot((F > Fc).n), H.eq_sc(val, linear)))
                else:
                    cl.append(ir.bnot((F > Fc).n))
                side = [c for k, c in path.side]
                hyps = H.matched_congruence(chk, path.ctx, n_code, [], f'get_Isotropic_eof d={d} (path {pi})', 'get_Isotropic_eof != published piecewise formula', rp, kinds=('log', 'sqrt', 'recip'), base=ap + side)
                chk.add(f'get_Isotropic_eof(d={d}, x) == curved branch for F <= 4(d-1)/d^2, straight line beyond, every x in [1/(d+1)+2^-20, 1] (path {pi})', ap + path.facts + side + hyps, ir.band_all(cl),
                        key='get_Isotropic_eof != published piecewise formula', replay=rp)
    # ---- closed forms in binary64 just above the separability boundary (0*log(0), log of a value rounded outside its range): never NaN / inf
    from symnp.scalars import F64
    chk.stub('binary64 slice: libm log / sqrt by their C contract; the parameter is any binary64 in the stated window')
    for fn, bound_f in (('get_Werner_eof', lambda d: 1.0 / d), ('get_Isotropic_eof', lambda d: 1.0 / (d + 1))):     # the GME forms clamp explicitly (np.maximum / np.clip)
        for d in (2, 3) if quick else (2, 3, 4, 5):
            b = bound_f(d)
            xf = S.f64_var(f'xb_{fn}_{d}')
            pre = [(xf >= b).n, (xf <= b * (1 + 2.0 ** -30)).n]
            chk.configurations += 1
            try:
                paths, st = H.run_paths(lambda: getattr(ST, fn)(d, xf), pre, feas_timeout_ms=2000, max_paths=32)
            except S.EngineError as e:
                chk.engine_error(f'{fn} d={d} binary64', e)
                continue
            chk.add_path_stats(st)
            for pi, path in enumerate(paths):
                ap = pre + path.pc + path.facts
                rp = ('c18', lambda m, fn=fn, d=d, b=b, xf=xf: {'what': 'finite_scan', 'fn': fn, 'd': d, 'bound': b, 'x': (float(m[xf.n.val]) if xf.n.val in m else None)})
                fb = [{'what': 'finite_scan', 'fn': fn, 'd': d, 'bound': b, 'x': None}]
                if path.status != 'return':
                    chk.add(f'{fn}(d={d}) raises {type(path.value).__name__} next to the separability boundary (binary64, path {pi})', ap, ir.FALSE, key=f'{fn} raises', replay=rp)
                    continue
                v = H.elems(path.value)[0] if not isinstance(path.value, (int, float)) else path.value
                if not isinstance(v, F64):
                    continue
                mono = chk.add(f'{fn}(d={d}, x): no NaN / inf for every binary64 x in [bound, bound(1+2^-30)] (path {pi}) [monolithic]', ap, ir.band(ir.bnot(v.isnan().n), ir.bnot(v.isinf().n)),
                               key=f'{fn} not finite next to the separability boundary', replay=rp, fallback_payloads=fb, kind='probe_forall', timeout_s=40 if quick else 150,
                               meta={'no_auto_reach': True})     # paths whose binary64 feasibility was 'unknown' may be infeasible in the window: benign vacuity
                # the same claim by solver-checked one-operation interval lemmas (composition bounds the result, hence finite)
                from symnp import fprange
                lemmas, root_iv = fprange.range_lemmas(v.n, {xf.n.val: (b, b * (1 + 2.0 ** -30))}, path.pc, path.ctx.aux, f'c18{fn[4]}{d}{pi}')
                if root_iv is None and fprange.INFO['infeasible']:
                    # the path condition contradicts the proved interval of one of its own operands: the path is infeasible (feasibility was 'unknown' for z3)
                    for lab, asm, clm in lemmas:
                        chk.add(f'{fn}(d={d}) boundary window (infeasible path {pi}) lemma: {lab}', asm, clm, key=f'{fn} not finite next to the separability boundary', replay=rp, fallback_payloads=fb, meta={'no_auto_reach': True})
                elif root_iv is None:
                    mono.meta['soft'] = False          # no interval proof on this path: the monolithic query has to decide
                else:
                    for lab, asm, clm in lemmas:
                        chk.add(f'{fn}(d={d}) boundary window (path {pi}) lemma: {lab}', asm, clm, key=f'{fn} not finite next to the separability boundary', replay=rp, fallback_payloads=fb, meta={'no_auto_reach': True})
                    chk.samples.append({'function': fn, 'd': d, 'path': pi, 'result_interval_proved': list(root_iv), 'lemmas': len(lemmas)})
    chk.solve(timeout_s=60 if quick else 300)
