"""C01 - every trivialization map lands on its manifold (NumPy branches of the algebraic maps)."""
import itertools
import random
import numpy as np
import scipy
import scipy.special
import numqi
import numqi.manifold as M
from symnp import ir, scalars as S, arrays as A, facade, transc
from symnp.scalars import SC
from . import common as H
from . import torchsup as T

TOL = 1e-9


# ---------------------------------------------------------------- stubs
def sym_expit(x):
    """scipy.special.expit on symbolic reals: fresh value under the contract 0 < expit(t) < 1 (and expit(0) = 1/2, monotone sign)"""
    def one(e):
        e = S.as_sc(e)
        c = S.ctx()
        tab = c.__dict__.setdefault('_expit', {})
        r = tab.get(e.re.id)
        if r is None:
            v = c.fresh('expit')
            c.facts += [ir.rcmp('lt', ir.ZERO, v), ir.rcmp('lt', v, ir.ONE),
                        ir.beq(ir.rcmp('lt', e.re, ir.ZERO), ir.rcmp('lt', v, ir.rconst('1/2'))),
                        ir.beq(ir.rcmp('eq', e.re, ir.ZERO), ir.rcmp('eq', v, ir.rconst('1/2')))]
            c.aux.append((v, 'expit', e.re))
            c.notes.append('expit(t): fresh value v with 0<v<1, sign(v-1/2)=sign(t)')
            r = SC(v)
            tab[e.re.id] = r
        return r
    if isinstance(x, np.ndarray):
        return A.wrap(A._elementwise(one, x), np.float64)
    if A.is_sym_scalar(x):
        return one(x)
    return scipy.special.expit(x)


def adj_inv(a):
    """exact inverse of a symbolic 2x2 / 3x3 (batched) matrix by the adjugate; side condition det != 0"""
    p = A.plain(a) if isinstance(a, A.SymArray) else np.asarray(a, dtype=object)
    if p.ndim == 3:
        return A.wrap(np.stack([A.plain(adj_inv(x)) for x in p]))
    n = p.shape[0]
    if n == 1:
        return A.wrap(np.array([[S.as_sc(1) / S.as_sc(p[0, 0])]], dtype=object))
    if n == 2:
        det = S.as_sc(p[0, 0]) * p[1, 1] - S.as_sc(p[0, 1]) * p[1, 0]
        adj = np.array([[p[1, 1], -S.as_sc(p[0, 1])], [-S.as_sc(p[1, 0]), p[0, 0]]], dtype=object)
    elif n == 3:
        c = lambda i, j: (S.as_sc(p[(i + 1) % 3, (j + 1) % 3]) * p[(i + 2) % 3, (j + 2) % 3] - S.as_sc(p[(i + 1) % 3, (j + 2) % 3]) * p[(i + 2) % 3, (j + 1) % 3])
        cof = np.array([[c(i, j) for j in range(3)] for i in range(3)], dtype=object)
        det = sum((S.as_sc(p[0, j]) * cof[0, j] for j in range(3)), SC(ir.ZERO))
        adj = cof.T
    else:
        raise S.EngineError('np.linalg.inv stub: only up to 3x3')
    r = det.recip()
    out = np.empty((n, n), dtype=object)
    for i in range(n):
        for j in range(n):
            out[i, j] = S.as_sc(adj[i, j]) * r
    return A.wrap(out)


def exact_cholesky(a):
    """np.linalg.cholesky on symbolic entries, computed exactly by the Cholesky-Banachiewicz recursion (works for SC and Dual
    scalars; batched); side conditions: the pivots are positive (A positive definite)"""
    p = A.plain(a) if isinstance(a, A.SymArray) else np.asarray(a, dtype=object)
    if p.ndim == 3:
        return A.wrap(np.stack([A.plain(exact_cholesky(x)) for x in p]))
    n = p.shape[0]
    if n > 3:
        raise S.EngineError('np.linalg.cholesky stub: only up to 3x3')
    Z = S.Dual(SC(ir.ZERO)) if any(isinstance(e, S.Dual) for e in p.reshape(-1)) else SC(ir.ZERO)
    L = np.empty((n, n), dtype=object)
    L[:, :] = Z
    lift = (lambda e: e if isinstance(e, S.Dual) else S.Dual(S.as_sc(e))) if isinstance(Z, S.Dual) else S.as_sc
    for i in range(n):
        for j in range(i + 1):
            acc = lift(p[i, j])
            for k in range(j):
                acc = acc - L[i, k] * L[j, k].conjugate()
            if i == j:
                d = acc.real
                v = d.v if isinstance(d, S.Dual) else d
                S.ctx().side.append(('cholesky', ir.rcmp('lt', ir.ZERO, v.re)))
                L[i, j] = d.sqrt()
            else:
                L[i, j] = acc / L[j, j]
    return A.wrap(L)


def det_small(p):
    p = A.plain(p)
    n = p.shape[0]
    if n == 2:
        return S.as_sc(p[0, 0]) * p[1, 1] - S.as_sc(p[0, 1]) * p[1, 0]
    if n == 3:
        t = SC(ir.ZERO)
        for perm, sg in (((0, 1, 2), 1), ((1, 2, 0), 1), ((2, 0, 1), 1), ((0, 2, 1), -1), ((1, 0, 2), -1), ((2, 1, 0), -1)):
            t = t + sg * S.as_sc(p[0, perm[0]]) * p[1, perm[1]] * p[2, perm[2]]
        return t
    raise ValueError


def np_fac():
    def inv(a):
        if isinstance(a, A.SymArray) and not A.is_all_const(a):
            return adj_inv(a)
        return np.linalg.inv(A.to_concrete(a) if isinstance(a, A.SymArray) else a)
    def chol(a):
        if isinstance(a, A.SymArray) and not A.is_all_const(a):
            return exact_cholesky(a)
        return np.linalg.cholesky(A.to_concrete(a) if isinstance(a, A.SymArray) else a)
    return facade.make_np_facade(linalg={'inv': inv, 'cholesky': chol})


def extra_globals():
    sp = facade.Facade(scipy, {'special': facade.Facade(scipy.special, {'expit': sym_expit}, 'scipy.special')}, 'scipy')
    return {'numqi.manifold._internal': {'scipy': sp}}


# ---------------------------------------------------------------- constraint builders
def gram_is_identity(X):
    """list of B nodes: X^dagger X == I entry by entry (X: dim x rank object array)"""
    X = A.plain(X)
    d, r = X.shape
    out = []
    for i in range(r):
        for j in range(i, r):
            acc = SC(ir.ZERO)
            for k in range(d):
                acc = acc + S.as_sc(X[k, i]).conjugate() * S.as_sc(X[k, j])
            out.append(((i, j), H.eq_sc(acc, 1 if i == j else 0)))
    return out


def hermitian(Mx):
    Mx = A.plain(Mx)
    n = Mx.shape[0]
    return ir.band_all(H.eq_sc(Mx[i, j], S.as_sc(Mx[j, i]).conjugate()) for i in range(n) for j in range(i, n))


def trace(Mx):
    Mx = A.plain(Mx)
    return sum((S.as_sc(Mx[i, i]) for i in range(Mx.shape[0])), SC(ir.ZERO))


def fro2(Mx):
    return H.norm2(A.plain(Mx).reshape(-1))


# ---------------------------------------------------------------- replay: evaluate the real function numerically and test the manifold constraint
def numeric_check(kind, out, **kw):
    out = np.asarray(out)
    if kind == 'sphere':
        return abs(np.linalg.norm(out) - 1) > 1e-8
    if kind == 'ball':
        return not (np.linalg.norm(out) < 1)
    if kind == 'simplex':
        return out.min() < -1e-12 or abs(out.sum() - 1) > 1e-8
    if kind == 'stiefel':
        return np.abs(out.conj().T @ out - np.eye(out.shape[1])).max() > 1e-8
    if kind == 'so':
        return np.abs(out.conj().T @ out - np.eye(out.shape[0])).max() > 1e-8 or abs(np.linalg.det(out) - 1) > 1e-8
    if kind == 'psd':
        ev = np.linalg.eigvalsh((out + out.conj().T) / 2)
        return np.abs(out - out.conj().T).max() > 1e-8 or abs(np.trace(out) - 1) > 1e-8 or ev.min() < -1e-8 or np.sum(ev > 1e-8) > kw['rank']
    if kind == 'sym':
        bad = np.abs(out - out.conj().T).max() > 1e-8
        if kw.get('trace0'):
            bad |= abs(np.trace(out)) > 1e-8
        if kw.get('norm1'):
            bad |= abs(np.linalg.norm(out) - 1) > 1e-8
        return bool(bad)
    if kind == 'interval':
        return not (kw['lower'] < float(out) < kw['upper'])
    if kind == 'positive':
        return not np.all(out > 0)
    raise ValueError(kind)


FUNCS = {
    'to_sphere_quotient': lambda th, **k: M.to_sphere_quotient(th, is_real=k['is_real']),
    'to_sphere_coordinate': lambda th, **k: M.to_sphere_coordinate(th, is_real=k['is_real']),
    'to_ball': lambda th, **k: M.to_ball(th, is_real=k['is_real']),
    'to_discrete_probability_sphere': lambda th, **k: M.to_discrete_probability_sphere(th),
    'to_symmetric_matrix': lambda th, **k: M.to_symmetric_matrix(th, k['dim'], is_trace0=k['trace0'], is_norm1=k['norm1']),
    'to_trace1_psd_cholesky': lambda th, **k: M.to_trace1_psd_cholesky(th, k['dim'], k['rank']),
    'to_stiefel_euler': lambda th, **k: M.to_stiefel_euler(th, k['dim'], k['rank'], with_phase=k.get('with_phase', False)),
    'to_stiefel_choleskyL': lambda th, **k: M.to_stiefel_choleskyL(th, k['dim'], k['rank']),
    'to_stiefel_polar': lambda th, **k: M.to_stiefel_polar(th, k['dim'], k['rank']),
    'to_special_orthogonal_cayley': lambda th, **k: M.to_special_orthogonal_cayley(th, k['dim'], order=k.get('order', 2)),
    'to_open_interval': lambda th, **k: M.to_open_interval(th, k['lower'], k['upper']),
    'to_positive_real_softplus': lambda th, **k: M.to_positive_real_softplus(th),
    'to_positive_real_exp': lambda th, **k: M.to_positive_real_exp(th),
}


def replay(p):
    f = FUNCS[p['fn']]
    kw = p.get('kw', {})
    th = np.array(p['theta'], dtype=np.float64)
    if p.get('backend'):
        bad, msg = T.replay_backend(lambda arrs, as_torch: f(arrs[0], **kw), [th])
        return bad, f"{p['fn']}{kw} theta={np.round(th, 6).tolist()}: {msg}"
    if p.get('batch'):
        thb = np.array(p['theta_batch'], dtype=np.float64)
        try:
            got = f(thb, **kw)
            per = np.stack([f(x, **kw) for x in thb])
        except Exception as e:
            return True, f"{p['fn']}{kw}: batched call raises {type(e).__name__}: {e}"
        return (not H.close(got, per, 1e-9)), f"{p['fn']}{kw}: batch of shape {thb.shape} differs from per-sample calls"
    if p.get('scales'):
        import torch as _torch
        if np.linalg.norm(th) < 1e-9 or (p['fn'] == 'to_stiefel_polar' and np.linalg.matrix_rank((th[:kw['dim'] * kw['rank']] + (1j * th[kw['dim'] * kw['rank']:] if len(th) > kw['dim'] * kw['rank'] else 0)).reshape(kw['dim'], kw['rank'])) < kw['rank']):
            th = np.random.default_rng(7).normal(size=th.shape)      # the model left theta at a degenerate default (outside the domain: M must have full rank)
        for sc in p['scales']:
            for backend in ('numpy', 'torch'):
                x = th * sc
                try:
                    out = f(x if backend == 'numpy' else _torch.tensor(x), **kw)
                    out = np.asarray(out if backend == 'numpy' else out.numpy())
                except Exception as e:
                    return True, f"{p['fn']}{kw} [{backend}]: raises {type(e).__name__}: {e} for theta={x.tolist()}"
                if not np.all(np.isfinite(out)) or numeric_check(p['kind'], out, **kw):
                    return True, f"{p['fn']}{kw} [{backend}]: output violates the {p['kind']} constraint for theta = {sc:g} * {np.round(th, 6).tolist()}"
        return False, f"{p['fn']}{kw}: constraint holds on both backends at scales {p['scales']}"
    try:
        out = f(th, **kw)
    except Exception as e:
        return True, f"{p['fn']}{kw}: raises {type(e).__name__}: {e} for theta={th.tolist()}"
    if not np.all(np.isfinite(out)):
        return True, f"{p['fn']}{kw}: non-finite output for theta={th.tolist()}"
    bad = numeric_check(p['kind'], out, **kw)
    return bool(bad), f"{p['fn']}{kw}: output violates the {p['kind']} constraint for theta={np.round(th, 6).tolist()}"


REPLAYERS = {'c01': replay}


def theta_payload(model, th, fn, kind, kw):
    env = H.model_env(model, [th])
    v = H.eval_array(th, env)
    return {'fn': fn, 'kind': kind, 'kw': kw, 'theta': np.real(v).tolist()}


def run(chk):
    quick = chk.tier == 'quick'
    rng = random.Random(chk.seed)
    chk.fn(*['numqi.manifold.' + k for k in FUNCS])
    chk.register_replayer('c01', replay)
    chk.out_of_claim('nn.Module wrappers (parameter storage, autograd); float32; torch softplus threshold=20 linearisation (differs from log(1+e^x) by < 2.1e-9); softmax, exp (expm), QR, polar (eigh), '
                     'symmetric_matrix_to_trace1PSD, SeparableDensityMatrix, QuantumChannel, _ABk modules; to_trace1_psd_ensemble (softmax)')
    chk.bound(dims='2..4 (Euler: (3,2),(4,2),(4,3),(2,2),(3,3) quick; + (5,2),(5,3),(4,4) thorough)', theta='unbounded exact reals (conditioning bound irrelevant in the exact model)',
              batch='(2,n) equals per-sample calls for every map')
    chk.stub('scipy.special.expit -> fresh v in (0,1); np.linalg.inv -> exact adjugate inverse (dim<=3, side condition det != 0); np.linalg.cholesky -> exact Cholesky-Banachiewicz recursion (dim<=3, side condition: positive pivots)')
    fac = np_fac()
    eg = extra_globals()

    def explore(fn_name, th, kw, pre=()):
        f = FUNCS[fn_name]
        paths, st = H.run_paths(lambda: f(th, **kw), list(pre), np_facade=fac, extra_globals=eg, feas_timeout_ms=2000)
        chk.add_path_stats(st)
        chk.configurations += 1
        return paths

    def handle_raises(paths, fn_name, kind, kw, th, pre):
        ok = []
        for pi, path in enumerate(paths):
            if path.status != 'return':
                chk.add(f'{fn_name}{kw} raises {type(path.value).__name__} on admissible theta (path {pi})', list(pre) + path.pc + path.facts, ir.FALSE,
                        key=f'{fn_name} raises {type(path.value).__name__} {kw_key(kw)}', replay=('c01', lambda m, th=th: theta_payload(m, th, fn_name, kind, kw)))
            else:
                ok.append((pi, path))
                chk.notes_from(path)
        return ok

    def side_of(path, kinds=('div', 'sqrt', 'log', 'log1p', 'cholesky')):
        return [c for k, c in path.side if k in kinds]

    def batch_check(fn_name, n, kw, kind):
        """batch (2,n) equals the two per-sample calls (identity; same partial-operation variables by memoisation)"""
        thb = H.re_array(f'tb{n}_', (2, n))
        f = FUNCS[fn_name]

        def run_():
            got = f(thb, **kw)
            per = [f(thb[0], **kw), f(thb[1], **kw)]
            return got, per
        paths, st = H.run_paths(run_, [], np_facade=fac, extra_globals=eg, feas_timeout_ms=500, max_paths=64)
        chk.add_path_stats(st)
        rp = ('c01', lambda m, thb=thb: {'fn': fn_name, 'kind': kind, 'kw': kw, 'batch': True, 'theta': [0], 'theta_batch': np.real(H.eval_array(thb, H.model_env(m, [thb]))).tolist()})
        for pi, path in enumerate(paths[:4]):
            if path.status != 'return':
                chk.add(f'{fn_name}{kw} batched call raises {type(path.value).__name__}', path.pc + path.facts, ir.FALSE, key=f'{fn_name} batch raises {kw_key(kw)}', replay=rp)
                continue
            got, per = path.value
            ok = tuple(got.shape) == (2,) + tuple(np.shape(per[0]))
            cl = ir.band_all(H.eq_sc(x, y) for x, y in zip(H.elems(got), H.elems(per))) if ok else ir.FALSE
            chk.add(f'{fn_name}{kw}: batch (2,{n}) == per-sample calls (path {pi})', path.pc + path.facts, cl, key=f'{fn_name} batch != per-sample {kw_key(kw)}', replay=rp)

    # ---- sphere (quotient / coordinates), ball, simplex
    for d in (2, 3, 4):
        for is_real in (True, False):
            n = d if is_real else 2 * d
            th = H.re_array(f's{n}_', n)
            kw = {'is_real': is_real}
            nonzero = ir.bnot(H.eq_sc(H.norm2(th), 0))
            for pi, path in handle_raises(explore('to_sphere_quotient', th, kw, [nonzero]), 'to_sphere_quotient', 'sphere', kw, th, [nonzero]):
                chk.add(f'to_sphere_quotient{kw} d={d}: unit norm for every theta != 0', [nonzero] + path.pc + path.facts, H.eq_sc(H.norm2(path.value), 1), key=f'to_sphere_quotient not unit {kw_key(kw)}',
                        replay=('c01', lambda m, th=th, kw=kw: theta_payload(m, th, 'to_sphere_quotient', 'sphere', kw)))
            for pi, path in handle_raises(explore('to_ball', th, kw), 'to_ball', 'ball', kw, th, []):
                n2 = H.norm2(path.value)
                chk.add(f'to_ball{kw} d={d}: norm strictly below one for every theta', path.pc + path.facts, ir.rcmp('lt', n2.re, ir.ONE), key=f'to_ball norm >= 1 {kw_key(kw)}',
                        replay=('c01', lambda m, th=th, kw=kw: theta_payload(m, th, 'to_ball', 'ball', kw)))
            if d <= 3:
                batch_check('to_sphere_quotient', n, kw, 'sphere')
                batch_check('to_ball', n, kw, 'ball')
        th = H.re_array(f'p{d}_', d)
        nonzero = ir.bnot(H.eq_sc(H.norm2(th), 0))
        for pi, path in handle_raises(explore('to_discrete_probability_sphere', th, {}, [nonzero]), 'to_discrete_probability_sphere', 'simplex', {}, th, [nonzero]):
            out = H.elems(path.value)
            cl = ir.band(ir.band_all(ir.rcmp('le', ir.ZERO, S.as_sc(x).re) for x in out), H.eq_sc(sum((S.as_sc(x) for x in out), SC(ir.ZERO)), 1))
            chk.add(f'to_discrete_probability_sphere d={d}: entries >= 0, sum 1', [nonzero] + path.pc + path.facts, cl, key='to_discrete_probability_sphere not on simplex',
                    replay=('c01', lambda m, th=th: theta_payload(m, th, 'to_discrete_probability_sphere', 'simplex', {})))
        # spherical coordinates
        for is_real in (True, False):
            npar = (d if is_real else 2 * d) - 1
            th = H.re_array(f'c{npar}_', npar)
            kw = {'is_real': is_real}
            for pi, path in handle_raises(explore('to_sphere_coordinate', th, kw), 'to_sphere_coordinate', 'sphere', kw, th, []):
                chk.add(f'to_sphere_coordinate{kw} d={d}: unit norm for all angles', path.pc + path.facts, H.eq_sc(H.norm2(path.value), 1), key=f'to_sphere_coordinate not unit {kw_key(kw)}',
                        replay=('c01', lambda m, th=th, kw=kw: theta_payload(m, th, 'to_sphere_coordinate', 'sphere', kw)))
            if d == 3:
                batch_check('to_sphere_coordinate', npar, kw, 'sphere')
    # ---- symmetric / Hermitian matrices
    for d in (2, 3) if quick else (2, 3, 4):
        for is_real, tr0, nm1 in itertools.product((True, False), (False, True), (False, True)):
            npar = ((d * (d + 1)) // 2 if is_real else d * d) - (1 if tr0 else 0)
            th = H.re_array(f'm{npar}_', npar)
            kw = {'dim': d, 'trace0': tr0, 'norm1': nm1}
            pre = [ir.bnot(H.eq_sc(H.norm2(th), 0))] if nm1 else []
            for pi, path in handle_raises(explore('to_symmetric_matrix', th, kw, pre), 'to_symmetric_matrix', 'sym', kw, th, pre):
                Mx = path.value
                cl = [hermitian(Mx)]
                if is_real:
                    cl.append(ir.band_all(H.eq_sc(S.as_sc(x).imag, 0) for x in H.elems(Mx)))
                if tr0:
                    cl.append(H.eq_sc(trace(Mx), 0))
                if nm1:
                    cl.append(H.eq_sc(fro2(Mx), 1))
                cl.append(ir.bconst(tuple(Mx.shape) == (d, d)))
                chk.add(f'to_symmetric_matrix d={d} real={is_real} trace0={tr0} norm1={nm1}: symmetric/Hermitian, trace, norm', pre + path.pc + path.facts + side_of(path), ir.band_all(cl),
                        key=f'to_symmetric_matrix constraint {kw_key(kw)} real={is_real}', replay=('c01', lambda m, th=th, kw=kw: theta_payload(m, th, 'to_symmetric_matrix', 'sym', kw)))
            if d == 2:
                batch_check('to_symmetric_matrix', npar, kw, 'sym')
    # ---- trace-one PSD via Cholesky factor
    for d, r in ((2, 1), (2, 2), (3, 1), (3, 2)) if quick else ((2, 1), (2, 2), (3, 1), (3, 2), (3, 3), (4, 2)):
        N0 = (r * (2 * d - r + 1)) // 2
        for is_real in (True, False):
            npar = N0 if is_real else 2 * N0 - r
            th = H.re_array(f'h{npar}_', npar)
            kw = {'dim': d, 'rank': r}
            for pi, path in handle_raises(explore('to_trace1_psd_cholesky', th, kw), 'to_trace1_psd_cholesky', 'psd', kw, th, []):
                rho = path.value
                pre = path.pc + path.facts
                rp = ('c01', lambda m, th=th, kw=kw: theta_payload(m, th, 'to_trace1_psd_cholesky', 'psd', kw))
                chk.add(f'to_trace1_psd_cholesky d={d} r={r} real={is_real}: Hermitian, trace 1 (path {pi})', pre, ir.band(hermitian(rho), H.eq_sc(trace(rho), 1)),
                        key=f'to_trace1_psd_cholesky not Hermitian/trace-1 {kw_key(kw)}', replay=rp)
                # rank <= r: all (r+1) x (r+1) minors vanish (checked for r+1 <= 3)
                if r < d and r + 1 <= 3:
                    P = A.plain(rho)
                    minors = []
                    for rows in itertools.combinations(range(d), r + 1):
                        for cols in itertools.combinations(range(d), r + 1):
                            minors.append(H.eq_sc(det_small(P[np.ix_(rows, cols)]), 0))
                    chk.add(f'to_trace1_psd_cholesky d={d} r={r} real={is_real}: rank <= r (all {r + 1}x{r + 1} minors vanish) (path {pi})', pre, ir.band_all(minors),
                            key=f'to_trace1_psd_cholesky rank > r {kw_key(kw)}', replay=rp)
                if d == 2 and pi == 0:
                    batch_check('to_trace1_psd_cholesky', npar, kw, 'psd')
                if d == 2:
                    v = H.cx_array('v', 2)
                    P = A.plain(rho)
                    quad = SC(ir.ZERO)
                    for i in range(2):
                        for j in range(2):
                            quad = quad + S.as_sc(v[i]).conjugate() * S.as_sc(P[i, j]) * S.as_sc(v[j])
                    chk.add(f'to_trace1_psd_cholesky d={d} r={r} real={is_real}: v^dag rho v >= 0 for all v (path {pi})', pre, ir.rcmp('le', ir.ZERO, quad.re),
                            key=f'to_trace1_psd_cholesky not PSD {kw_key(kw)}', replay=rp)
    # ---- Euler-Hurwitz Stiefel
    euler = [(3, 2), (4, 2), (2, 2), (3, 3), (2, 1), (3, 1)] + ([(4, 3)] if True else []) + ([] if quick else [(5, 2), (5, 3), (4, 4)])
    for d, r in euler:
        N0 = d * r - r * (r + 1) // 2
        for mode in ('real', 'complex', 'phase'):
            if mode != 'real' and (d, r) in ((4, 3), (5, 3), (4, 4), (5, 2)) and quick:
                continue
            npar = N0 if mode == 'real' else (2 * N0 + (r if mode == 'phase' else 0))
            if npar == 0:
                continue
            th = H.re_array(f'e{npar}_', npar)
            kw = {'dim': d, 'rank': r, 'with_phase': mode == 'phase'}
            try:
                paths = explore('to_stiefel_euler', th, kw)
            except S.EngineError as e:
                chk.engine_error(f'to_stiefel_euler {kw}', e)
                continue
            for pi, path in handle_raises(paths, 'to_stiefel_euler', 'stiefel', kw, th, []):
                X = path.value
                rp = ('c01', lambda m, th=th, kw=kw: theta_payload(m, th, 'to_stiefel_euler', 'stiefel', kw))
                if tuple(X.shape) != (d, r):
                    chk.add(f'to_stiefel_euler {kw}: output shape', [], ir.FALSE, key=f'to_stiefel_euler shape {kw_key(kw)}', replay=rp)
                    continue
                hard = (mode == 'real' and (d, r) not in ((5, 3), (4, 4))) or (d, r) not in ((4, 3), (5, 3), (4, 4), (5, 2))     # the large complex charts may exceed the solver budget: soft (reported, not a pass)
                for (i, j), cl in gram_is_identity(X):
                    chk.add(f'to_stiefel_euler d={d} r={r} {mode}: (X^dag X)[{i},{j}] == delta for all angles', path.pc + path.facts + side_of(path), cl,
                            key=f'to_stiefel_euler not isometric {kw_key(kw)}', replay=rp, kind='forall' if hard else 'probe_forall', timeout_s=None if hard else 150)
            if (d, r) in ((3, 2), (2, 1)):
                batch_check('to_stiefel_euler', npar, kw, 'stiefel')
    # ---- Cholesky-L chart (np.linalg.cholesky / inv computed exactly for sizes <= 3)
    for d, r in ((2, 1), (2, 2), (3, 2)) if quick else ((2, 1), (2, 2), (3, 2), (3, 3), (4, 2)):
        N0 = (r * (r + 1)) // 2
        for is_real in (True, False):
            npar = d * r - N0 if is_real else 2 * d * r - 2 * N0
            if npar == 0:
                continue
            if not is_real and (d, r) == (3, 3):
                continue
            th = H.re_array(f'l{npar}_', npar)
            kw = {'dim': d, 'rank': r}
            try:
                paths = explore('to_stiefel_choleskyL', th, kw)
            except S.EngineError as e:
                chk.engine_error(f'to_stiefel_choleskyL {kw} real={is_real}', e)
                continue
            for pi, path in handle_raises(paths, 'to_stiefel_choleskyL', 'stiefel', kw, th, []):
                X = path.value
                rp = ('c01', lambda m, th=th, kw=kw: theta_payload(m, th, 'to_stiefel_choleskyL', 'stiefel', kw))
                if tuple(X.shape) != (d, r):
                    chk.add(f'to_stiefel_choleskyL {kw}: output shape', [], ir.FALSE, key=f'to_stiefel_choleskyL shape {kw_key(kw)}', replay=rp)
                    continue
                softc = (d, r) == (4, 2) and not is_real
                for (i, j), cl in gram_is_identity(X):
                    chk.add(f'to_stiefel_choleskyL d={d} r={r} real={is_real}: (X^dag X)[{i},{j}] == delta', path.pc + path.facts + side_of(path), cl,
                            key=f'to_stiefel_choleskyL not isometric {kw_key(kw)} real={is_real}', replay=rp, kind='probe_forall' if softc else 'forall', timeout_s=150 if softc else None)
    # ---- Cayley chart
    for d in (2, 3):
        for is_real in (True, False):
            npar = d * (d - 1) // 2 if is_real else d * d - 1
            if not is_real and d == 3 and quick:
                continue
            th = H.re_array(f'y{npar}_', npar)
            for order in (1, 2):
                kw = {'dim': d, 'order': order}
                try:
                    paths = explore('to_special_orthogonal_cayley', th, kw)
                except S.EngineError as e:
                    chk.engine_error(f'cayley {kw}', e)
                    continue
                for pi, path in handle_raises(paths, 'to_special_orthogonal_cayley', 'so', kw, th, []):
                    X = path.value
                    rp = ('c01', lambda m, th=th, kw=kw: theta_payload(m, th, 'to_special_orthogonal_cayley', 'so', kw))
                    pre = path.pc + path.facts + side_of(path)
                    softc = d == 3 and not is_real and order == 2
                    for (i, j), cl in gram_is_identity(X):
                        chk.add(f'cayley d={d} real={is_real} order={order}: (X^dag X)[{i},{j}] == delta', pre, cl, key=f'cayley not orthogonal/unitary {kw_key(kw)} real={is_real}', replay=rp,
                                kind='probe_forall' if softc else 'forall', timeout_s=150 if softc else None)
                    if is_real:
                        chk.add(f'cayley d={d} real order={order}: det == 1', pre, H.eq_sc(det_small(X), 1), key=f'cayley det != 1 {kw_key(kw)}', replay=rp)
                if d == 2 and order == 1:
                    batch_check('to_special_orthogonal_cayley', npar, kw, 'so')
    # ---- interval / positive reals
    th = H.re_array('t', 1)
    lo, up = S.sc_var('lower'), S.sc_var('upper')
    for lower, upper, pre in ((-1.5, 2.0, []), (0.0, 1.0, [])):
        kw = {'lower': lower, 'upper': upper}
        for pi, path in handle_raises(explore('to_open_interval', th, kw), 'to_open_interval', 'interval', kw, th, []):
            v = S.as_sc(H.elems(path.value)[0])
            chk.add(f'to_open_interval({lower},{upper}): strictly inside for every theta', path.pc + path.facts, ir.band(ir.rcmp('lt', ir.rconst(S.lift_float(lower)), v.re), ir.rcmp('lt', v.re, ir.rconst(S.lift_float(upper)))),
                    key='to_open_interval outside', replay=('c01', lambda m, th=th, kw=kw: dict(theta_payload(m, th, 'to_open_interval', 'interval', kw), theta=float(np.real(H.eval_array(th, H.model_env(m, [th])))[0]))))
    for fn_name in ('to_positive_real_softplus', 'to_positive_real_exp'):
        th2 = H.re_array('u', 2)
        for pi, path in handle_raises(explore(fn_name, th2, {}), fn_name, 'positive', {}, th2, []):
            chk.add(f'{fn_name}: strictly positive for every theta (path {pi})', path.pc + path.facts + side_of(path), ir.band_all(ir.rcmp('lt', ir.ZERO, S.as_sc(x).re) for x in H.elems(path.value)),
                    key=f'{fn_name} not positive', replay=('c01', lambda m, th2=th2, fn_name=fn_name: theta_payload(m, th2, fn_name, 'positive', {})))
    # ---- polar chart X = M (M^dag M)^(-1/2) (the default Stiefel parametrisation of the convex-roof models): eigen-solver / matrix square root by contract
    #   NumPy:  eigh(A) -> (lambda, V);  X = M V D V^dag, D = diag(sqrt(1/lambda)).   torch:  S = PSDMatrixSqrtm(A);  X = M inv(S).
    #   code-level obligations: the decomposed matrix is A = M^dag M; X is that product; generic matrix lemmas (fresh atoms) finish X^dag X = I from the contract.
    from symnp import symtorch as SYT
    import numqi.manifold._stiefel as STF

    def mmul(*ms):
        out = ms[0]
        for m_ in ms[1:]:
            out = np.dot(out, m_)
        return out

    def dagm(m_):
        o = np.empty(m_.shape[::-1], dtype=object)
        for i in range(m_.shape[0]):
            for j in range(m_.shape[1]):
                o[j, i] = S.as_sc(m_[i, j]).conjugate()
        return o

    def eqm(a_, b_):
        return [H.eq_sc(x_, y_) for x_, y_ in zip(np.asarray(a_, dtype=object).reshape(-1), np.asarray(b_, dtype=object).reshape(-1))]
    chk.stub('polar chart: np.linalg.eigh(A) -> symbolic (lambda > 0, V) with the contract V^dag A V = diag(lambda), V V^dag = I; PSDMatrixSqrtm.apply(A) -> symbolic Hermitian S with the contract S S = A; '
             'torch.linalg.inv -> exact adjugate inverse')
    for d, r in ((3, 2), (2, 2)) if quick else ((3, 2), (2, 2), (4, 2), (3, 3)):
        for is_real in (True, False):
            npar = d * r if is_real else 2 * d * r
            th = H.re_array(f'po{d}{r}{int(is_real)}_', npar)
            kw = {'dim': d, 'rank': r}
            tagp = f'to_stiefel_polar d={d} r={r} real={is_real}'
            rp = ('c01', lambda m, th=th, kw=kw: dict(theta_payload(m, th, 'to_stiefel_polar', 'stiefel', kw), scales=[1.0, 1e-4, 1e-8]))
            keyp = f'to_stiefel_polar not isometric {kw_key(kw)} real={is_real}'
            thp = A.plain(th)
            Mref = np.array([[S.as_sc(thp[i * r + j]) if is_real else SC(S.as_sc(thp[i * r + j]).re, S.as_sc(thp[d * r + i * r + j]).re) for j in range(r)] for i in range(d)], dtype=object)
            Aref = mmul(dagm(Mref), Mref)
            # ---------- NumPy branch
            chk.configurations += 1
            lam = [S.sc_var(f'pl{d}{r}{int(is_real)}_{j}') for j in range(r)]
            V = H.cx_array(f'pv{d}{r}{int(is_real)}_', (1, r, r)) if not is_real else H.re_array(f'pv{d}{r}{int(is_real)}_', (1, r, r))
            cap = []

            def eigh_stub(x, lam=lam, V=V, cap=cap, r=r):
                cap.append(x)
                return A.sym_array(np.array(lam, dtype=object).reshape(1, r), np.float64), V
            facp = facade.make_np_facade(linalg={'eigh': eigh_stub})
            prep = [(l_ > 0).n for l_ in lam]
            try:
                paths, st = H.run_paths(lambda: M.to_stiefel_polar(th, d, r), prep, np_facade=facp, feas_timeout_ms=2000, max_paths=8)
            except S.EngineError as e:
                chk.engine_error(tagp + ' numpy', e)
                paths = []
            chk.add_path_stats(st) if paths else None
            for pi, path in enumerate(paths):
                if path.status != 'return':
                    chk.add(f'{tagp} [numpy] raises {type(path.value).__name__}', prep + path.pc + path.facts, ir.FALSE, key=keyp, replay=rp)
                    continue
                with path.resume():
                    base = prep + path.pc + path.facts + [c for k_, c in path.side]
                    X = A.plain(path.value)
                    Vp = A.plain(V)[0]
                    dm = [(S.as_sc(1) / lam[i]).sqrt() for i in range(r)]
                    Dm = np.array([[dm[i] if i == j else SC(ir.ZERO) for j in range(r)] for i in range(r)], dtype=object)
                    ok = tuple(X.shape) == (d, r) and len(cap) >= 1 and tuple(cap[-1].shape)[-2:] == (r, r)
                    chk.add(f'{tagp} [numpy] P1: the matrix handed to eigh is M^dag M', base, ir.band_all(eqm(A.plain(cap[-1]).reshape(r, r), Aref)) if ok else ir.FALSE, key=keyp, replay=rp)
                    chk.add(f'{tagp} [numpy] P2: X == M V D V^dag with D = diag(sqrt(1/lambda)), and D_i^2 lambda_i == 1', base,
                            ir.band_all(eqm(X, mmul(Mref, Vp, Dm, dagm(Vp))) + [H.eq_sc(dm[i] * dm[i] * lam[i], 1) for i in range(r)]) if ok else ir.FALSE, key=keyp, replay=rp)
            # generic lemmas (fresh atoms): G1 re-association, G2 spectral step
            Mv, Vv, Av = A.plain(H.cx_array(f'gM{d}{r}_', (d, r))), A.plain(H.cx_array(f'gV{d}{r}_', (r, r))), A.plain(H.herm_array(f'gA{d}{r}_', r))
            dv = [S.sc_var(f'gd{d}{r}_{i}') for i in range(r)]
            lv = [S.sc_var(f'gl{d}{r}_{i}') for i in range(r)]
            Dv = np.array([[dv[i] if i == j else SC(ir.ZERO) for j in range(r)] for i in range(r)], dtype=object)
            Tv = mmul(Vv, Dv, dagm(Vv))
            if is_real:          # the lemmas do not depend on the field: state them once per (d, r)
                chk.add(f'polar lemma G1 [d={d},r={r}]: (M T)^dag (M T) == V D (V^dag (M^dag M) V) D V^dag for T = V D V^dag, D real diagonal (identity in M, V, D)', [],
                        ir.band_all(eqm(mmul(dagm(mmul(Mv, Tv)), mmul(Mv, Tv)), mmul(Vv, Dv, mmul(dagm(Vv), mmul(dagm(Mv), Mv), Vv), Dv, dagm(Vv)))), key='polar chart lemma', replay=rp)
                Wv = A.plain(H.cx_array(f'gW{d}{r}_', (r, r)))
                Ir = np.array([[S.as_sc(1 if i == j else 0) for j in range(r)] for i in range(r)], dtype=object)
                hyp_a = eqm(Wv, np.array([[lv[i] if i == j else SC(ir.ZERO) for j in range(r)] for i in range(r)], dtype=object)) + [H.eq_sc(dv[i] * dv[i] * lv[i], 1) for i in range(r)]
                chk.add(f'polar lemma G2a [r={r}]: V^dag A V = diag(lambda), D_i^2 lambda_i = 1  =>  D (V^dag A V) D == I', hyp_a, ir.band_all(eqm(mmul(Dv, Wv, Dv), Ir)), key='polar chart lemma', replay=rp)
                Yv = A.plain(H.cx_array(f'gY{d}{r}_', (r, r)))
                chk.add(f'polar lemma G2b [r={r}]: Y = I, V V^dag = I  =>  V Y V^dag == I', eqm(Yv, Ir) + eqm(mmul(Vv, dagm(Vv)), Ir), ir.band_all(eqm(mmul(Vv, Yv, dagm(Vv)), Ir)), key='polar chart lemma', replay=rp)
            # ---------- torch branch
            chk.configurations += 1
            Ssym = H.herm_array(f'ps{d}{r}{int(is_real)}_', r)
            if is_real:
                Sre = np.empty((r, r), dtype=object)
                for i in range(r):
                    for j in range(r):
                        Sre[i, j] = S.as_sc(A.plain(Ssym)[min(i, j), max(i, j)]).real
                Ssym = A.wrap(Sre, np.float64)
            capt = []

            class SqrtStub:
                @staticmethod
                def apply(x, capt=capt, Ssym=Ssym, r=r):
                    capt.append(x._sym if isinstance(x, SYT.SymTensor) else x)
                    return SYT.tensor(A.sym_array(A.plain(Ssym).reshape(1, r, r), np.float64 if is_real else np.complex128))
            nq = facade.Facade(numqi, {'_torch_op': facade.Facade(numqi._torch_op, {'PSDMatrixSqrtm': SqrtStub}, 'numqi._torch_op')}, 'numqi')
            tf = SYT.torch_facade(stubs={'inv': adj_inv})
            egt = T.torch_globals(tf, {'numqi.manifold._stiefel': {'numqi': nq}})
            try:
                paths, st = H.run_paths(lambda: M.to_stiefel_polar(SYT.tensor(th.copy()), d, r), [], extra_globals=egt, feas_timeout_ms=2000, max_paths=8)
            except S.EngineError as e:
                chk.engine_error(tagp + ' torch', e)
                paths = []
            chk.add_path_stats(st) if paths else None
            for pi, path in enumerate(paths):
                if path.status != 'return':
                    chk.add(f'{tagp} [torch] raises {type(path.value).__name__}: {path.value}', path.pc + path.facts, ir.FALSE, key=keyp, replay=rp)
                    continue
                with path.resume():
                    base = path.pc + path.facts + [c for k_, c in path.side]
                    X = A.plain(path.value._sym)
                    ok = tuple(X.shape) == (d, r) and len(capt) >= 1
                    Sinv = A.plain(adj_inv(A.wrap(A.plain(Ssym).copy())))
                    chk.add(f'{tagp} [torch] T1: the matrix handed to the matrix square root is M^dag M', base, ir.band_all(eqm(A.plain(capt[-1]).reshape(r, r), Aref)) if ok else ir.FALSE, key=keyp, replay=rp)
                    chk.add(f'{tagp} [torch] T2: X == M inv(S)', base, ir.band_all(eqm(X, mmul(Mref, Sinv))) if ok else ir.FALSE, key=keyp, replay=rp)
            if is_real and r <= 2:
                Sv = A.plain(H.herm_array(f'gS{d}{r}_', r))
                Siv = A.plain(adj_inv(A.wrap(Sv.copy())))
                ctxg = S.ctx()
                chk.add(f'polar lemma G3 [r={r}]: S Hermitian, invertible, A = S S  =>  inv(S)^dag A inv(S) == I (adjugate inverse)', [c for k_, c in ctxg.side if k_ == 'div'] + list(ctxg.facts),
                        ir.band_all(eqm(mmul(dagm(Siv), mmul(Sv, Sv), Siv), np.array([[S.as_sc(1 if i == j else 0) for j in range(r)] for i in range(r)], dtype=object))), key='polar chart lemma', replay=rp)
                Sg = A.plain(H.cx_array(f'gSi{d}{r}_', (r, r)))
                chk.add(f'polar lemma G4 [d={d},r={r}]: (M T)^dag (M T) == T^dag (M^dag M) T (identity)', [], ir.band_all(eqm(mmul(dagm(mmul(Mv, Sg)), mmul(Mv, Sg)), mmul(dagm(Sg), mmul(dagm(Mv), Mv), Sg))), key='polar chart lemma', replay=rp)
    # ---- PyTorch branches: same exact values as the NumPy branch on the same symbolic theta (symnp.symtorch.SymTensor)
    chk.fn('numqi.gellmann.gellmann_basis_to_matrix [torch branch]')
    chk.stub('torch branch: torch.sigmoid -> same fresh-value contract as expit; torch.linalg.inv / cholesky_ex -> the exact adjugate / Cholesky stubs of the NumPy branch; '
             'torch.nn.functional.softplus -> log1p(exp(-|x|)) + max(x,0) (== log(1+e^x) over the reals)')
    stubs = {'sigmoid': sym_expit, 'inv': adj_inv, 'cholesky': exact_cholesky}
    trng = random.Random(chk.seed + 1)

    def backend(fn_name, npar, kw, kind, pre_fn=None, batch=False):
        th = H.re_array(f'q{npar}{"b" if batch else ""}_', (2, npar) if batch else npar)
        pre = pre_fn(th) if pre_fn else []
        f = FUNCS[fn_name]
        rp = ('c01', lambda m, th=th: {'fn': fn_name, 'kind': kind, 'kw': kw, 'backend': True, 'theta': np.real(H.eval_array(th, H.model_env(m, [th]))).tolist()})
        T.backend_equiv(chk, f'{fn_name}{kw}{" batch (2,n)" if batch else ""}', lambda arrs, as_torch: f(arrs[0], **kw), [th], rp, f'{fn_name} {kw_key(kw)}',
                        np_fac=fac, eg=eg, stubs=stubs, pre=pre, rng=trng)

    nz = lambda th: [ir.bnot(H.eq_sc(H.norm2(th.reshape(-1)[:th.shape[-1]]), 0))] + ([ir.bnot(H.eq_sc(H.norm2(th[1]), 0))] if th.ndim == 2 else [])
    for d in (2, 3) if quick else (2, 3, 4):
        for is_real in (True, False):
            n = d if is_real else 2 * d
            kw = {'is_real': is_real}
            for batch in (False, True):
                backend('to_sphere_quotient', n, kw, 'sphere', nz, batch)
                backend('to_ball', n, kw, 'ball', None, batch)
                backend('to_sphere_coordinate', n - 1, kw, 'sphere', None, batch)
        backend('to_discrete_probability_sphere', d, {}, 'simplex', nz)
    for d in (2, 3):
        for is_real, tr0, nm1 in itertools.product((True, False), (False, True), (False, True)):
            npar = ((d * (d + 1)) // 2 if is_real else d * d) - (1 if tr0 else 0)
            kw = {'dim': d, 'trace0': tr0, 'norm1': nm1}
            for batch in (False, True) if d == 2 else (False,):
                backend('to_symmetric_matrix', npar, kw, 'sym', nz if nm1 else None, batch)
    for d, r in ((2, 1), (2, 2), (3, 2)) if quick else ((2, 1), (2, 2), (3, 1), (3, 2), (3, 3)):
        N0 = (r * (2 * d - r + 1)) // 2
        for is_real in (True, False):
            backend('to_trace1_psd_cholesky', N0 if is_real else 2 * N0 - r, {'dim': d, 'rank': r}, 'psd')
            if d == 2:
                backend('to_trace1_psd_cholesky', N0 if is_real else 2 * N0 - r, {'dim': d, 'rank': r}, 'psd', None, True)
    for d, r in ((3, 2), (2, 2), (2, 1), (3, 3)) if quick else ((3, 2), (4, 2), (2, 2), (3, 3), (2, 1), (3, 1), (4, 3)):
        N0 = d * r - r * (r + 1) // 2
        for mode in ('real', 'complex', 'phase'):
            npar = N0 if mode == 'real' else (2 * N0 + (r if mode == 'phase' else 0))
            if npar:
                backend('to_stiefel_euler', npar, {'dim': d, 'rank': r, 'with_phase': mode == 'phase'}, 'stiefel')
                if (d, r) == (3, 2):
                    backend('to_stiefel_euler', npar, {'dim': d, 'rank': r, 'with_phase': mode == 'phase'}, 'stiefel', None, True)
    for d, r in ((2, 1), (2, 2), (3, 2)):
        N0 = (r * (r + 1)) // 2
        for is_real in (True, False):
            npar = d * r - N0 if is_real else 2 * d * r - 2 * N0
            if npar:
                backend('to_stiefel_choleskyL', npar, {'dim': d, 'rank': r}, 'stiefel')
    for d in (2, 3):
        for is_real in (True, False):
            if d == 3 and not is_real:
                continue
            for order in (1, 2):
                backend('to_special_orthogonal_cayley', d * (d - 1) // 2 if is_real else d * d - 1, {'dim': d, 'order': order}, 'so')
    backend('to_open_interval', 1, {'lower': -1.5, 'upper': 2.0}, 'interval')
    backend('to_positive_real_softplus', 2, {}, 'positive')
    backend('to_positive_real_exp', 2, {}, 'positive')
    chk.assume('cos/sin enter only through c^2+s^2=1 (angle abstraction), exp/log1p/expit through sign and range axioms: exactly what the manifold constraints need')
    chk.solve(timeout_s=90 if quick else 600)


def kw_key(kw):
    return ','.join(f'{k}={v}' for k, v in sorted(kw.items()))
