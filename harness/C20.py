"""C20 - rank certificates are sound (thin slice: decision logic under kernel error, singularity of the hierarchy matrix for planted
low-rank elements, (anti)symmetric basis identities)."""
import itertools
import math
import random
import numpy as np
import scipy
import scipy.linalg
import numqi
import numqi.matrix_space as MS
import numqi.matrix_space._numerical_range as NR
import numqi.matrix_space._hierarchy as HI
from symnp import ir, scalars as S, arrays as A, facade
from symnp.scalars import SC
from . import common as H
from .C18 import det_any

TOL = 1e-9


def planted_family(rng, dA, dB, k):
    u = rng.normal(size=dA)
    v = rng.normal(size=dB)
    mats = [np.outer(u, v)] + [rng.normal(size=(dA, dB)) for _ in range(k - 1)]
    mix = rng.normal(size=(k, k))
    return np.einsum('ij,jab->iab', mix, np.stack(mats))


def replay(p):
    what = p['what']
    rng = np.random.default_rng(2026)
    if what == 'rank_one_detector':
        bad = 0
        tot = 0
        for t in range(150):
            dA, dB = rng.integers(2, 5), rng.integers(2, 5)
            k = int(rng.integers(1, min(4, dA * dB - 1) + 1))
            ms = planted_family(rng, dA, dB, k)
            tag, ub = MS.detect_real_matrix_subspace_rank_one(ms)
            tot += 1
            if not tag:
                bad += 1
        return (bad > 0), f"detect_real_matrix_subspace_rank_one answers 'no rank-one element' for {bad} of {tot} real subspaces with a planted rank-one element"
    if what == 'hierarchy':
        dA, dB, ngen, rank = p['dA'], p['dB'], p['ngen'], p['rank']
        bad = 0
        for t in range(40):
            low = sum(np.outer(rng.normal(size=dA), rng.normal(size=dB)) for _ in range(rank - 1))
            mats = np.stack([low] + [rng.normal(size=(dA, dB)) for _ in range(ngen - 1)])
            mix = rng.normal(size=(ngen, ngen))
            ms = np.einsum('ij,jab->iab', mix, mats)
            q, _ = np.linalg.qr(ms.reshape(ngen, -1).T)
            ms = q.T.reshape(ngen, dA, dB)           # orthonormal generators (the certificate uses absolute thresholds)
            if MS.has_rank_hierarchical_method(ms, rank, hierarchy_k=p.get('k', 1)):
                bad += 1
        return (bad > 0), f'has_rank_hierarchical_method certifies rank >= {rank} for {bad} of 40 subspaces containing an element of rank {rank - 1}'
    if what == 'basis':
        d, r, kind = p['d'], p['r'], p['kind']
        B = MS.get_symmetric_basis(d, r) if kind == 'sym' else MS.get_antisymmetric_basis(d, r)
        Bd = np.asarray(B.todense() if hasattr(B, 'todense') else B)
        n = Bd.shape[0]
        want = math.comb(d + r - 1, r) if kind == 'sym' else math.comb(d, r)
        bad = n != want or not H.close(Bd @ Bd.T, np.eye(n), TOL)
        P = Bd.T @ Bd
        Pt = P.reshape((d,) * (2 * r))
        for a in range(r - 1):
            sw = np.swapaxes(Pt, a, a + 1)
            bad |= not H.close(sw, Pt if kind == 'sym' else -Pt, TOL)
        return bool(bad), f'get_{kind}metric_basis({d},{r}) is not an orthonormal basis of the {kind}metric subspace'
    if what == 'antisym_proj':
        mats = [np.array(m, dtype=float) for m in p['mats']]
        INDEX = tuple(p['INDEX'])
        got = HI.tensor2d_project_to_antisym_basis(mats, INDEX)
        want = antisym_ref_numeric(mats, INDEX)
        return (got.shape != want.shape or not H.close(got, want, TOL)), f'tensor2d_project_to_antisym_basis(INDEX={INDEX}) differs from (1/r!) sum_(s,t) sgn(s)sgn(t) prod_k M_k[I_s(k),J_t(k)] by {np.abs(got - want).max() if got.shape == want.shape else "shape"}'
    if what == 'sym_proj':
        vs = [np.array(v, dtype=float) for v in p['vecs']]
        INDEX = tuple(p['INDEX'])
        got = HI.project_to_symmetric_basis(vs, INDEX)
        full = functools_reduce_kron([vs[i] for i in INDEX])
        want = HI.get_symmetric_basis(len(vs[0]), len(INDEX)) @ full
        return (got.shape != want.shape or not H.close(got, want, TOL)), f'project_to_symmetric_basis(INDEX={INDEX}) differs from <symmetric basis, v_i1 (x) ... (x) v_im>'
    raise ValueError(what)


def functools_reduce_kron(vs):
    out = vs[0]
    for v in vs[1:]:
        out = np.kron(out, v)
    return out


def _sgn(perm):
    s = 1
    for i in range(len(perm)):
        for j in range(i + 1, len(perm)):
            if perm[i] > perm[j]:
                s = -s
    return s


def antisym_ref_numeric(mats, INDEX):
    r = len(INDEX)
    dA, dB = mats[0].shape
    Is, Js = list(itertools.combinations(range(dA), r)), list(itertools.combinations(range(dB), r))
    out = np.zeros((len(Is), len(Js)))
    perms = [(pp, _sgn(pp)) for pp in itertools.permutations(range(r))]
    for a, I in enumerate(Is):
        for b, J in enumerate(Js):
            acc = 0.0
            for s_, ss in perms:
                for t_, st in perms:
                    term = ss * st
                    for k in range(r):
                        term = term * mats[INDEX[k]][I[s_[k]], J[t_[k]]]
                    acc += term
            out[a, b] = acc / math.factorial(r)
    return out


def antisym_ref_symbolic(mats, INDEX):
    r = len(INDEX)
    dA, dB = mats[0].shape
    Is, Js = list(itertools.combinations(range(dA), r)), list(itertools.combinations(range(dB), r))
    out = np.empty((len(Is), len(Js)), dtype=object)
    perms = [(pp, _sgn(pp)) for pp in itertools.permutations(range(r))]
    inv = S.as_sc(1) / math.factorial(r)
    for a, I in enumerate(Is):
        for b, J in enumerate(Js):
            acc = SC(ir.ZERO)
            for s_, ss in perms:
                for t_, st in perms:
                    term = S.as_sc(ss * st)
                    for k in range(r):
                        term = term * S.as_sc(mats[INDEX[k]][I[s_[k]], J[t_[k]]])
                    acc = acc + term
            out[a, b] = acc * inv
    return out


REPLAYERS = {'c20': replay}


def run(chk):
    quick = chk.tier == 'quick'
    chk.fn('numqi.matrix_space.detect_real_matrix_subspace_rank_one (decision logic)', 'numqi.matrix_space.has_rank_hierarchical_method (matAAT construction)',
           'numqi.matrix_space.tensor2d_project_to_antisym_basis', 'numqi.matrix_space.project_to_symmetric_basis', 'numqi.matrix_space.get_symmetric_basis', 'numqi.matrix_space.get_antisymmetric_basis')
    chk.register_replayer('c20', replay)
    chk.out_of_claim('MOSTLY OUTSIDE: get_matrix_orthogonal_basis (SVD / eigh), its complement and dimension count, numerical ranges (eigh / optimiser), tripartite completely-entangled tests, '
                     'the LU pivots themselves (scipy.linalg.lu), sizes above the stated ones')
    chk.bound(rank_one_detector='threshold logic for every value the numerical-range kernel may return within 1e-10 of the exact maximum t=1',
              hierarchy='(dA,dB,generators,rank bound,k): quick (2,2,2,2,1),(2,3,2,2,1),(3,3,2,3,1),(3,3,2,2,2); thorough adds (3,3,2,3,2),(3,3,3,2,1),(3,4,2,3,1),(2,2,2,2,3); the planted combination has coefficient 1 on one stated generator, all other generators and coefficients symbolic', bases='(d,r) with d<=4, r<=3 (ground)')
    # ---- (a) decision logic of the rank-one detector under kernel error
    chk.configurations += 1
    ms = np.stack([np.outer([1.0, 2.0], [1.0, -1.0]), np.array([[0.0, 1.0], [1.0, 0.0]])])

    def basis_stub(x, field='real', **k):
        b = x / np.linalg.norm(x.reshape(x.shape[0], -1), axis=1)[:, None, None]
        return b, None

    def range_stub(proj, kind='max', **k):
        c = S.ctx()
        v = S.sc_var('upper_bound')
        c.facts += [(v >= S.as_sc(1) - S.as_sc(1e-10)).n, (v <= S.as_sc(1) + S.as_sc(1e-10)).n]
        return v
    eg = {'numqi.matrix_space._numerical_range': {'get_matrix_orthogonal_basis': basis_stub, 'get_real_bipartite_numerical_range': range_stub}}
    paths, st = H.run_paths(lambda: NR.detect_real_matrix_subspace_rank_one(ms), [], extra_globals=eg, feas_timeout_ms=2000)
    chk.add_path_stats(st)
    rp = ('c20', {'what': 'rank_one_detector'})
    for pi, path in enumerate(paths):
        if path.status != 'return':
            chk.add(f'detect_real_matrix_subspace_rank_one raises {type(path.value).__name__}', path.pc + path.facts, ir.FALSE, key='detect_real_matrix_subspace_rank_one raises', replay=rp)
            continue
        tag = path.value[0]
        chk.add(f"detect_real_matrix_subspace_rank_one never answers 'no rank-one element' when the exact maximum is 1 and the kernel error is <= 1e-10 (path {pi} returns {tag})",
                path.pc + path.facts, ir.bconst(bool(tag)), key="detect_real_matrix_subspace_rank_one: 'no rank-one element' for a subspace containing one", replay=rp)
    chk.stub('get_matrix_orthogonal_basis -> normalised input (its SVD is outside); get_real_bipartite_numerical_range -> any v with |v - 1| <= 1e-10 '
             '(1 is the exact bipartite maximum of the projector whenever the subspace contains a rank-one element)')
    # ---- (b) hierarchy certificate: the matrix whose LU pivots are tested is singular when the subspace contains an element of rank < bound.
    #      Subspace: generators G_j arbitrary symbolic except one, G_p = low - sum_{j != p} b_j G_j, so that low = sum_j b_j G_j (b_p = 1) has rank (bound-1).
    #      Claim: the explicit non-zero vector c_INDEX = multinomial(INDEX) prod_{i in INDEX} b_i (the symmetric power of b) satisfies c^T matAAT == 0.
    cfgs = [(2, 2, 2, 2, 1, 0), (2, 3, 2, 2, 1, 1), (3, 3, 2, 3, 1, 0), (3, 3, 2, 2, 2, 0)] + ([] if quick else [(3, 3, 2, 3, 2, 0), (3, 3, 2, 3, 2, 1), (3, 3, 3, 2, 1, 2), (3, 4, 2, 3, 1, 0), (2, 2, 2, 2, 3, 0)])
    for dA, dB, ngen, rank, kk, piv in cfgs:
        chk.configurations += 1
        tag_ = f'h{dA}{dB}{ngen}{rank}{kk}{piv}_'
        low = np.zeros((dA, dB), dtype=object)
        for t in range(rank - 1):
            u = H.re_array(tag_ + f'u{t}_', dA)
            v = H.re_array(tag_ + f'v{t}_', dB)
            low = low + np.outer(A.plain(u), A.plain(v))
        bco = [S.as_sc(1) if j == piv else S.sc_var(tag_ + f'b{j}') for j in range(ngen)]
        gens = [None if j == piv else A.plain(H.re_array(tag_ + f'g{j}_', (dA, dB))) for j in range(ngen)]
        acc = low
        for j in range(ngen):
            if j != piv:
                acc = acc - bco[j] * gens[j]
        gens[piv] = acc
        sub = np.empty((ngen, dA, dB), dtype=object)
        for j in range(ngen):
            sub[j] = gens[j]
        sub = A.wrap(sub, np.float64)
        lu_seen = []

        def lu_stub(M_, *a, **k):
            lu_seen.append(M_)
            n_ = M_.shape[0]
            return None, None, A.sym_array(np.eye(n_), np.float64)
        fac = facade.make_np_facade(linalg={'eigvalsh': lambda x: A.sym_array(np.ones(x.shape[-1]), np.float64)})
        sl = facade.Facade(scipy.linalg, {'lu': lu_stub}, 'scipy.linalg')
        eg = {'numqi.matrix_space._hierarchy': {'scipy': facade.Facade(scipy, {'linalg': sl}, 'scipy')}}
        try:
            paths, st = H.run_paths(lambda: HI.has_rank_hierarchical_method(sub, rank, hierarchy_k=kk, return_info=True), [], np_facade=fac, extra_globals=eg, feas_timeout_ms=1000, max_paths=16)
        except S.EngineError as e:
            chk.engine_error(f'has_rank_hierarchical_method {dA}x{dB}', e)
            continue
        chk.add_path_stats(st)
        rp = ('c20', {'what': 'hierarchy', 'dA': dA, 'dB': dB, 'ngen': ngen, 'rank': rank, 'k': kk})
        cfg = f'[{dA}x{dB}, {ngen} generators, rank bound {rank}, k={kk}, planted combination has coefficient 1 on generator {piv}]'
        for pi, path in enumerate(paths[:2]):
            if path.status != 'return':
                chk.add(f'has_rank_hierarchical_method raises {type(path.value).__name__} {cfg}', path.pc + path.facts, ir.FALSE, key='has_rank_hierarchical_method raises', replay=rp)
                continue
            ret, matAAT = path.value
            Mx = A.plain(matAAT)
            same = ir.bconst(bool(lu_seen)) if not lu_seen else ir.band_all(H.eq_sc(a, b) for a, b in zip(H.elems(lu_seen[-1]), H.elems(matAAT)))
            chk.add(f'has_rank_hierarchical_method {cfg}: the LU test is applied to matAAT', path.pc + path.facts, same, key='has_rank_hierarchical_method routing', replay=rp)
            idxs = list(itertools.combinations_with_replacement(range(ngen), rank - 1 + kk))
            if Mx.shape != (len(idxs), len(idxs)):
                chk.add(f'has_rank_hierarchical_method {cfg}: matAAT has one row per generator multiset', [], ir.FALSE, key='has_rank_hierarchical_method shape', replay=rp)
                continue
            cvec = []
            for INDEX in idxs:
                mult = math.factorial(len(INDEX))
                for v_ in __import__('collections').Counter(INDEX).values():
                    mult //= math.factorial(v_)
                term = S.as_sc(mult)
                for i_ in INDEX:
                    term = term * bco[i_]
                cvec.append(term)
            with path.resume():
                for col in range(len(idxs)):
                    tot = SC(ir.ZERO)
                    for row in range(len(idxs)):
                        tot = tot + cvec[row] * S.as_sc(Mx[row, col])
                    chk.add(f'has_rank_hierarchical_method {cfg}: (c^T matAAT)[{col}] == 0 for the non-zero vector c = Sym^(r+k)(b): matAAT is singular whenever the subspace contains an element of rank {rank - 1} '
                            '(an exact LU has a zero pivot: the certificate cannot be True beyond rounding)', path.pc + path.facts, H.eq_sc(tot, 0),
                            key='has_rank_hierarchical_method: matAAT regular for a planted low-rank element', replay=rp)
    chk.stub('scipy.linalg.lu -> captured (its pivots are outside); np.linalg.eigvalsh in the independence assert -> positive')
    # ---- (c) symmetric / antisymmetric bases (ground)
    for d, r in ((2, 2), (3, 2), (3, 3), (4, 2)) if quick else ((2, 2), (3, 2), (3, 3), (4, 2), (4, 3), (2, 3)):
        for kind in ('sym', 'antisym'):
            if kind == 'antisym' and r > d:
                continue
            chk.configurations += 1
            ok, what = replay({'what': 'basis', 'd': d, 'r': r, 'kind': kind})
            chk.add(f'get_{kind}metric_basis({d},{r}): orthonormal rows, projector (anti)symmetric under every transposition, dimension C(.,.) (ground, binary64 tol 1e-9)', [], ir.bconst(not ok),
                    key=f'get_{kind}metric_basis', replay=('c20', {'what': 'basis', 'd': d, 'r': r, 'kind': kind}))
    # ---- (d) the building blocks of the hierarchy matrix on symbolic generators, including repeated generators (the INDEX short-cuts):
    #      tensor2d_project_to_antisym_basis == the r x r mixed minors by definition; project_to_symmetric_basis == <orthonormal symmetric basis, v (x) ... (x) v>
    chk.fn('numqi.matrix_space._hierarchy.permutation_with_antisymmetric_factor', 'numqi.matrix_space._hierarchy.get_antisymmetric_basis_index', 'numqi.matrix_space._hierarchy.get_symmetric_basis_index')
    patterns = [(0,), (0, 0), (0, 1), (1, 0), (0, 0, 0), (0, 0, 1), (0, 1, 1), (0, 1, 2), (1, 0, 0)] + ([] if quick else [(2, 0, 1), (1, 1, 1), (0, 2, 2)])
    ctx = S.new_ctx()
    with facade.patched():
        for dA, dB in ((3, 3), (2, 3)) if quick else ((3, 3), (2, 3), (3, 4), (4, 4)):
            mats = [A.plain(H.re_array(f'am{dA}{dB}_{j}_', (dA, dB))) for j in range(3)]
            for INDEX in patterns:
                if len(INDEX) > min(dA, dB) or (dA * dB > 9 and len(INDEX) == 3 and quick):
                    continue
                chk.configurations += 1
                got = HI.tensor2d_project_to_antisym_basis([A.wrap(m.copy(), np.float64) for m in mats], INDEX)
                want = antisym_ref_symbolic(mats, INDEX)
                ok = tuple(np.shape(got)) == want.shape
                cl = ir.band_all(H.eq_sc(x, y) for x, y in zip(H.elems(got), want.reshape(-1))) if ok else ir.FALSE
                chk.add(f'tensor2d_project_to_antisym_basis [{dA}x{dB}, INDEX={INDEX}] == (1/r!) sum sgn(s) sgn(t) prod_k M_k[I_s(k), J_t(k)] for all real generators', ctx.facts, cl,
                        key='tensor2d_project_to_antisym_basis != mixed minors', replay=('c20', lambda m, mats=mats, INDEX=INDEX: {'what': 'antisym_proj', 'INDEX': list(INDEX),
                                                                                                'mats': [np.real(H.eval_array(A.wrap(x.copy(), np.float64), H.model_env(m, [A.wrap(x.copy(), np.float64)]))).tolist() for x in mats]}))
        for n in (2, 3):
            vs = [A.plain(H.re_array(f'sv{n}_{j}_', n)) for j in range(3)]
            for INDEX in patterns:
                if len(INDEX) < 2:
                    continue
                chk.configurations += 1
                got = HI.project_to_symmetric_basis([A.wrap(v.copy(), np.float64) for v in vs], INDEX)
                full = functools_reduce_kron([vs[i] for i in INDEX])
                Bm = HI.get_symmetric_basis(n, len(INDEX))
                Bp = A.plain(Bm) if isinstance(Bm, A.SymArray) else np.asarray(Bm, dtype=object)
                want = [sum((S.as_sc(Bp[row, c]) * S.as_sc(full[c]) for c in range(full.shape[0]) if not (isinstance(Bp[row, c], float) and Bp[row, c] == 0.0)), SC(ir.ZERO)) for row in range(Bp.shape[0])]
                ge = H.elems(got)
                cl = ir.band_all(H.eq_sc(x, y) for x, y in zip(ge, want)) if len(ge) == len(want) else ir.FALSE
                chk.add(f'project_to_symmetric_basis [dim {n}, INDEX={INDEX}] == <orthonormal symmetric basis, v_i1 (x) ... (x) v_im> for all real vectors', ctx.facts, cl,
                        key='project_to_symmetric_basis != definition', replay=('c20', lambda m, vs=vs, INDEX=INDEX: {'what': 'sym_proj', 'INDEX': list(INDEX),
                                                                                   'vecs': [np.real(H.eval_array(A.wrap(x.copy(), np.float64), H.model_env(m, [A.wrap(x.copy(), np.float64)]))).tolist() for x in vs]}))
    chk.notes_from(ctx)
    chk.solve(timeout_s=120 if quick else 600)
