"""C19 - shipped quantum codes satisfy Knill-Laflamme and their listed stabilizers."""
import itertools
import math
import random
from fractions import Fraction
import numpy as np
import numqi
from symnp import ir, scalars as S, arrays as A, facade
from symnp.scalars import SC
from . import common as H
from .C03 import embed, mv

TOL = 1e-9
LETTER = {'X': numqi.gate.X, 'Y': numqi.gate.Y, 'Z': numqi.gate.Z}
STAB = {
    '523': ['XIYXX', 'IXXZX', 'ZIXYZ', 'IZZXZ'], '422': ['XZII', 'ZXZZ', 'IIXX'], '442': ['XZZX', 'ZXXZ'], '642': ['XZXZZX', 'ZXZXXZ'],
    '883': ['XIZIYZXY', 'IXZZYXYI', 'IIXYZZYX', 'ZZZZXZZX'], '8_64_2': ['XZXXZZZX', 'ZXZZXXXZ'],
    '10_4_4': ['XIIIXIYXZY', 'IXIIYXYIZZ', 'IIXIIZZZXX', 'IIIXYXZYXI', 'ZIIIXYIYXX', 'IZIIIXZXYY', 'ZIIZIIXZZX', 'ZIZZZIZXYY'],
}
PARAMS = {'523': (5, 2, 3), '422': (4, 2, 2), '442': (4, 4, 2), '642': (6, 4, 2), '883': (8, 8, 3), '8_64_2': (8, 64, 2), '10_4_4': (10, 4, 4), '11_2_5': (11, 2, 5)}


def pauli_string_matrix(s):
    m = np.array([[1]], dtype=complex)
    for c in s:
        m = np.kron(m, np.eye(2) if c == 'I' else LETTER[c])
    return m


def apply_string(s, vec):
    """Pauli string applied to an object vector, letter by letter with explicit bit logic (reference, no numqi simulator)"""
    n = len(s)
    v = A.plain(vec) if isinstance(vec, np.ndarray) else vec
    for q, c in enumerate(s):
        if c == 'I':
            continue
        out = np.empty(len(v), dtype=object)
        for r in range(len(v)):
            bit = (r >> (n - 1 - q)) & 1
            src = r ^ (1 << (n - 1 - q)) if c in 'XY' else r
            x = v[src]
            if c == 'X':
                out[r] = x
            elif c == 'Z':
                out[r] = x if bit == 0 else -S.as_sc(x)
            else:  # Y = [[0,-i],[i,0]] : out[bit=0] = -i v[1], out[bit=1] = i v[0]
                out[r] = S.as_sc(x) * (SC(ir.ZERO, ir.MONE) if bit == 0 else SC(ir.ZERO, ir.ONE))
        v = out
    return v


def error_to_bits(err, n):
    x = [0] * n
    z = [0] * n
    for idx, g in err:
        q = idx[0]
        g = np.asarray(g)
        if np.allclose(g, numqi.gate.X):
            x[q] ^= 1
        elif np.allclose(g, numqi.gate.Y):
            x[q] ^= 1
            z[q] ^= 1
        elif np.allclose(g, numqi.gate.Z):
            z[q] ^= 1
        else:
            raise ValueError('non-Pauli gate in error list')
    return tuple(x + z)


def code_numeric(name):
    code = getattr(numqi.qec, 'generate_code' + name)()
    return code, numqi.qec.generate_code_np(code['encode'], code['num_logical_dim'])


def replay(p):
    what = p['what']
    if what in ('ortho', 'kl', 'stab'):
        name = p['code']
        n, K, d = PARAMS[name]
        code, cn = code_numeric(name)
        if what == 'ortho':
            g = cn.conj() @ cn.T
            return (not H.close(g, np.eye(K), TOL)), f'code {name}: code words are not orthonormal'
        if what == 'kl':
            errs = numqi.qec.make_error_list(n, d)
            e = errs[p['err']]
            M = numqi.qec.knill_laflamme_inner_product(cn, [e])[0]
            bad = not H.close(M, M[0, 0] * np.eye(K), 1e-8)
            return bad, f'code {name}: Knill-Laflamme violated for error #{p["err"]} {error_to_bits(e, n)}'
        if what == 'stab':
            k = p['k']
            s = STAB[name][k]
            circ = code['stabilizer'][k]
            Pm = pauli_string_matrix(s)
            U = np.eye(2 ** n, dtype=complex)
            if len(circ.gate_index_list):
                rng = np.random.default_rng(7)
                q = rng.normal(size=2 ** n) + 1j * rng.normal(size=2 ** n)
                got = circ.apply_state(q) if circ.num_qubit == n else None
                # circuits that do not touch the last qubit infer a smaller register: compare on the padded register
                if got is None:
                    m = circ.num_qubit
                    got = np.stack([circ.apply_state(col) for col in q.reshape(2 ** m, -1).T], axis=1).reshape(-1)
                bad = not H.close(got, Pm @ q, TOL)
            else:
                bad = True
            fix = H.close(cn @ Pm.T, cn, 1e-8)
            return (bad or not fix), f'code {name}: stabilizer circuit #{k} does not implement {s}' + ('' if fix else ' / string does not fix the code words')
    if what == 'parse':
        if True:
            s = p['s']
            n = len(s)
            circ = numqi.qec.parse_simple_pauli(s, tag_circuit=True)
            ops = numqi.qec.parse_simple_pauli(s, tag_circuit=False)
            rng = np.random.default_rng(3)
            q = rng.normal(size=2 ** n) + 1j * rng.normal(size=2 ** n)
            ref = q
            for g, idx in ops:
                ref = embed(np.asarray(g, dtype=complex), (idx,), n).astype(complex) @ ref
            want = pauli_string_matrix(s) @ q
            got = q
            for g_, idx in circ.gate_index_list:
                got = embed(np.asarray(g_.array, dtype=complex), tuple(idx), n).astype(complex) @ got
            return (not H.close(got, want, TOL) or not H.close(ref, want, TOL)), f'parse_simple_pauli({s!r}): circuit / operator list do not implement the string'
    if what == 'errset':
        n, d = p['n'], p['d']
        errs = numqi.qec.make_error_list(n, d)
        got = sorted(error_to_bits(e, n) for e in errs)
        want = sorted(b for b in itertools.product((0, 1), repeat=2 * n) if 1 <= sum(1 for q in range(n) if b[q] or b[n + q]) <= d - 1)
        return (got != want), f'make_error_list({n},{d}) is not exactly the Paulis of weight 1..{d - 1}'
    if what == 'asym':
        n, d, wz = p['n'], p['d'], p['wz']
        errs = numqi.qec.make_asymmetric_error_set(n, d, wz)
        got = sorted(error_to_bits(e, n) for e in errs)
        want = []
        for b in itertools.product((0, 1), repeat=2 * n):
            nxy = sum(1 for q in range(n) if b[q])
            nz = sum(1 for q in range(n) if b[n + q] and not b[q])
            if (nxy + nz) > 0 and nxy + Fraction(wz) * nz < d:
                want.append(b)
        return (got != sorted(want)), f'make_asymmetric_error_set({n},{d},{wz}) is not exactly the operators below the weighted bound'
    if what == 'qwe':
        name = p['code']
        n, K, d = PARAMS[name]
        code, cn = code_numeric(name)
        Aw, Bw = numqi.qec.quantum_weight_enumerator(cn)
        bad = abs(Aw.sum() - (2 ** n / K - 1)) > 1e-7 or abs(Bw.sum() - (2 ** n * K - 1)) > 1e-7 or np.any(Bw - Aw < -1e-7) or np.abs(Aw[:d - 1] - Bw[:d - 1]).max() > 1e-7
        return bool(bad), f'code {name}: weight enumerator sum rules violated'
    raise ValueError(what)


REPLAYERS = {'c19': replay}


def run(chk):
    quick = chk.tier == 'quick'
    rng = random.Random(chk.seed)
    chk.fn('numqi.qec.generate_code*', 'numqi.qec.parse_simple_pauli', 'numqi.qec.make_error_list', 'numqi.qec.make_asymmetric_error_set',
           'numqi.qec.knill_laflamme_inner_product', 'numqi.qec.quantum_weight_enumerator', 'numqi.sim.Circuit.apply_state')
    chk.register_replayer('c19', replay)
    chk.out_of_claim('VarQEC models (torch); degeneracy() (eigvalsh); codes (11,2,5) unless the thorough tier completes it; float rounding')
    names = ['523', '422', '442', '642'] if quick else ['523', '422', '442', '642', '883', '8_64_2', '10_4_4']
    chk.bound(codes=[f'(({",".join(map(str, PARAMS[x]))}))' for x in names], logical_amplitudes='two fully symbolic logical vectors a, b in C^K (K<=8); K=64: basis pairs (ground)',
              errors='every element of make_error_list(n,d)', error_sets='n<=5, d<=3 quick; n<=6, d<=4 thorough; asymmetric weights 1/2, 1, 2, 3')
    with facade.patched():
        for name in names:
            n, K, d = PARAMS[name]
            ctx = S.new_ctx('c' + name)
            code = getattr(numqi.qec, 'generate_code' + name)()
            circ = code['encode']
            chk.configurations += 1
            meta_ok = (code['num_qubit'], code['num_logical_dim'], code['distance']) == (n, K, d) and circ.num_qubit == n
            chk.add(f'code {name}: declared (n,K,d) and register size', [], ir.bconst(meta_ok), key=f'code {name} metadata', replay=('c19', {'what': 'ortho', 'code': name}))
            if not meta_ok:
                continue
            sym = K <= 8
            if sym:
                a = H.cx_array(f'a{name}_', K)
                b = H.cx_array(f'b{name}_', K)
                va = np_zeros_state(n, a)
                vb = np_zeros_state(n, b)
                Ca = circ.apply_state(va)
                Cb = circ.apply_state(vb)
                # <Ca|Cb> == <a|b>
                ip = inner(Ca, Cb)
                chk.add(f'code {name}: <Ca|Cb> == <a|b> for all logical a, b', ctx.facts, H.eq_sc(ip, inner(a, b)), key=f'code {name} not isometric', replay=('c19', {'what': 'ortho', 'code': name}))
                q2 = A.sym_array(np.stack([A.plain(Ca), A.plain(Cb)]), np.complex128)
                e0 = np_zeros_state(n, A.sym_array([1] + [0] * (K - 1), np.complex128))
                Ce0 = circ.apply_state(e0)
                qe = A.sym_array(np.stack([A.plain(Ce0), A.plain(Ce0)]), np.complex128)
            else:
                code_arr = numqi.qec.generate_code_np(circ, K)
            errs = numqi.qec.make_error_list(n, d)
            if quick and len(errs) > 120:
                idxs = sorted(rng.sample(range(len(errs)), 120))
            else:
                idxs = list(range(len(errs)))
            if sym:
                M = numqi.qec.knill_laflamme_inner_product(q2, [errs[i] for i in idxs])
                M0 = numqi.qec.knill_laflamme_inner_product(qe, [errs[i] for i in idxs])
                aa, ab = inner(a, a), inner(a, b)
                for j, i in enumerate(idxs):
                    cE = S.as_sc(A.plain(M0)[j, 0, 0])
                    cl = ir.band(H.eq_sc(A.plain(M)[j, 0, 1], cE * ab), H.eq_sc(A.plain(M)[j, 0, 0], cE * aa))
                    chk.add(f'code {name}: <Ca|E|Cb> == c_E <a|b> for error #{i}', ctx.facts, cl, key=f'code {name} Knill-Laflamme', replay=('c19', {'what': 'kl', 'code': name, 'err': i}))
            else:
                # K = 64: exact ground check of the K x K matrices against c_E * identity
                M = numqi.qec.knill_laflamme_inner_product(code_arr, [errs[i] for i in idxs])
                Mp = A.plain(M)
                for j, i in enumerate(idxs):
                    cE = S.as_sc(Mp[j, 0, 0])
                    cl = ir.band_all(H.eq_sc(Mp[j, r, c], cE if r == c else 0) for r in range(K) for c in range(K))
                    chk.add(f'code {name}: <i|E|j> == c_E delta_ij for error #{i} (ground)', ctx.facts, cl, key=f'code {name} Knill-Laflamme', replay=('c19', {'what': 'kl', 'code': name, 'err': i}))
            # stabilizer circuits: implement the listed strings on an arbitrary state, and fix every code word
            strings = STAB[name]
            ok_len = len(code['stabilizer']) == len(strings)
            chk.add(f'code {name}: {len(strings)} stabilizer circuits shipped', [], ir.bconst(ok_len), key=f'code {name} stabilizer count', replay=('c19', {'what': 'stab', 'code': name, 'k': 0}))
            if n <= 6:
                psi = H.cx_array(f'psi{n}_', 2 ** n)
            for k, (s, sc_) in enumerate(zip(strings, code['stabilizer'])):
                rp = ('c19', {'what': 'stab', 'code': name, 'k': k})
                if n <= 6:
                    got = apply_on_register(sc_, psi, n)
                    want = apply_string(s, psi)
                    chk.add(f'code {name}: stabilizer circuit #{k} acts as {s} on every state', ctx.facts, ir.band_all(H.eq_sc(x, y) for x, y in zip(H.elems(got), H.elems(want))),
                            key=f'code {name} stabilizer circuit != listed string', replay=rp)
                if sym:
                    got = apply_on_register(sc_, Ca, n)
                    chk.add(f'code {name}: stabilizer circuit #{k} ({s}) fixes every code word', ctx.facts, ir.band_all(H.eq_sc(x, y) for x, y in zip(H.elems(got), H.elems(Ca))),
                            key=f'code {name} stabilizer circuit does not fix the code', replay=rp)
                    want = apply_string(s, Ca)
                    chk.add(f'code {name}: listed string {s} fixes every code word', ctx.facts, ir.band_all(H.eq_sc(x, y) for x, y in zip(H.elems(want), H.elems(Ca))),
                            key=f'code {name} listed stabilizer does not fix the code', replay=rp)
            chk.notes_from(ctx)
        # ---- parse_simple_pauli: both output kinds implement the string, both input syntaxes
        ctx = S.new_ctx('pp')
        for s in ['XIYXX', 'ZZ', 'IYI', 'X0Y2Z3', 'Z1X0', 'IIZ']:
            chk.configurations += 1
            if any(ch.isdigit() for ch in s):
                pairs = [(t[0], int(t[1:])) for t in __import__('re').findall('[XYZI][0-9]+', s)]
                n = max(p[1] for p in pairs) + 1
                plain_s = ['I'] * n
                for l, q in pairs:
                    plain_s[q] = l
                plain_s = ''.join(plain_s)
            else:
                n = len(s)
                plain_s = s
            psi = H.cx_array(f'pp{n}_', 2 ** n)
            circ = numqi.qec.parse_simple_pauli(s, tag_circuit=True)
            ops = numqi.qec.parse_simple_pauli(s, tag_circuit=False)
            got = psi
            for g, idx in circ.gate_index_list:
                got = numqi.sim.state.apply_gate(got, g.array, idx)
            ref = psi
            for g, idx in ops:
                ref = numqi.sim.state.apply_gate(ref, g, (idx,))
            want = apply_string(plain_s, psi)
            rp = ('c19', {'what': 'parse', 's': plain_s})
            chk.add(f'parse_simple_pauli({s!r}, tag_circuit=True) implements the string', ctx.facts, ir.band_all(H.eq_sc(x, y) for x, y in zip(H.elems(got), H.elems(want))),
                    key='parse_simple_pauli circuit != string', replay=rp)
            chk.add(f'parse_simple_pauli({s!r}, tag_circuit=False) implements the string', ctx.facts, ir.band_all(H.eq_sc(x, y) for x, y in zip(H.elems(ref), H.elems(want))),
                    key='parse_simple_pauli operator list != string', replay=rp)
    # ---- error sets: a symbolic Pauli of admissible weight equals exactly one listed error
    nd = [(n, d) for n in range(2, 6) for d in (2, 3) if d <= n + 1] if quick else [(n, d) for n in range(2, 7) for d in (2, 3, 4) if d <= n + 1]
    for n, d in nd:
        chk.configurations += 1
        errs = numqi.qec.make_error_list(n, d)
        listed = [error_to_bits(e, n) for e in errs]
        xs = [ir.bvvar(f'x{q}', 1) for q in range(n)]
        zs = [ir.bvvar(f'z{q}', 1) for q in range(n)]
        wt = ir.bvconst(0, 8)
        for q in range(n):
            wt = ir.bvbin('bvadd', wt, ir.bvext(ir.bvbin('bvor', xs[q], zs[q]), 8, False))
        pre = [ir.bvcmp('bvule', ir.bvconst(1, 8), wt), ir.bvcmp('bvule', wt, ir.bvconst(d - 1, 8))]
        cnt = ir.bvconst(0, 16)
        for bts in listed:
            hit = ir.band_all(ir.bvcmp('eq', v, ir.bvconst(bv, 1)) for v, bv in zip(xs + zs, bts))
            cnt = ir.bvbin('bvadd', cnt, ir.rite(hit, ir.bvconst(1, 16), ir.bvconst(0, 16)))
        in_range = all(1 <= sum(1 for q in range(n) if bts[q] or bts[n + q]) <= d - 1 for bts in listed)
        chk.add(f'make_error_list({n},{d}): every Pauli of weight 1..{d - 1} listed exactly once; all listed in range', pre,
                ir.band(ir.bvcmp('eq', cnt, ir.bvconst(1, 16)), ir.bconst(in_range)), key='make_error_list', replay=('c19', {'what': 'errset', 'n': n, 'd': d}))
        chk.add(f'reach errset {n},{d}', pre, ir.TRUE, kind='reach')
    for n, d, wz in ([(3, 2, 1), (4, 3, 2), (4, 3, 0.5), (5, 3, 3), (4, 2, 2)] if quick else [(3, 2, 1), (4, 3, 2), (4, 3, 0.5), (5, 3, 3), (4, 2, 2), (5, 4, 2), (6, 3, 0.5), (6, 4, 3), (5, 4, 1)]):
        chk.configurations += 1
        errs = numqi.qec.make_asymmetric_error_set(n, d, wz)
        listed = [error_to_bits(e, n) for e in errs]
        xs = [ir.bvvar(f'x{q}', 1) for q in range(n)]
        zs = [ir.bvvar(f'z{q}', 1) for q in range(n)]
        fz = Fraction(wz).limit_denominator(100)
        p_, q_ = fz.numerator, fz.denominator
        nxy = ir.bvconst(0, 8)
        nz = ir.bvconst(0, 8)
        for q in range(n):
            nxy = ir.bvbin('bvadd', nxy, ir.bvext(xs[q], 8, False))
            nz = ir.bvbin('bvadd', nz, ir.bvext(ir.bvbin('bvand', zs[q], ir.bvun('bvnot', xs[q])), 8, False))
        lhs = ir.bvbin('bvadd', ir.bvbin('bvmul', nxy, ir.bvconst(q_, 8)), ir.bvbin('bvmul', nz, ir.bvconst(p_, 8)))
        below = ir.band(ir.bvcmp('bvult', lhs, ir.bvconst(q_ * d, 8)), ir.bvcmp('bvult', ir.bvconst(0, 8), ir.bvbin('bvadd', nxy, nz)))
        cnt = ir.bvconst(0, 16)
        for bts in listed:
            hit = ir.band_all(ir.bvcmp('eq', v, ir.bvconst(bv, 1)) for v, bv in zip(xs + zs, bts))
            cnt = ir.bvbin('bvadd', cnt, ir.rite(hit, ir.bvconst(1, 16), ir.bvconst(0, 16)))
        claim = ir.bvcmp('eq', cnt, ir.rite(below, ir.bvconst(1, 16), ir.bvconst(0, 16)))
        chk.add(f'make_asymmetric_error_set({n},{d},{wz}): listed exactly the operators with nx+ny+{wz}*nz<{d} (once each)', [], claim, key='make_asymmetric_error_set',
                replay=('c19', {'what': 'asym', 'n': n, 'd': d, 'wz': wz}))
    # ---- weight enumerator sum rules (ground; exact arithmetic through the real routine for the small codes)
    for name in (['422'] if quick else ['422', '442', '523']):
        n, K, d = PARAMS[name]
        chk.configurations += 1
        ok, what = replay({'what': 'qwe', 'code': name})
        chk.add(f'code {name}: weight enumerator sum rules  sum A_j = 2^n/K - 1, sum B_j = 2^n K - 1, A_j<=B_j, A_j=B_j (j<d)  (ground, binary64 with tolerance 1e-7)', [], ir.bconst(not ok),
                key=f'code {name} weight enumerator', replay=('c19', {'what': 'qwe', 'code': name}))
    chk.assume('H gates enter as exact 1/sqrt2 (prime radical); logical basis state i is the computational basis state |i> of the full register')
    chk.solve(timeout_s=120 if quick else 900)


def np_zeros_state(n, amp):
    """2^n vector with the logical amplitudes in the first K entries"""
    out = np.empty(2 ** n, dtype=object)
    out[:] = [SC(ir.ZERO)] * (2 ** n)
    ap = A.plain(amp)
    for i in range(len(ap)):
        out[i] = ap[i]
    return A.wrap(out, np.complex128)


def inner(x, y):
    xs, ys = H.elems(x), H.elems(y)
    acc = SC(ir.ZERO)
    for u, v in zip(xs, ys):
        acc = acc + S.as_sc(u).conjugate() * S.as_sc(v)
    return acc


def apply_on_register(circ, vec, n):
    """apply a (possibly narrower) circuit gate by gate on the n-qubit register with the real simulator"""
    got = vec
    for g, idx in circ.gate_index_list:
        got = numqi.sim.state.apply_gate(got, g.array, idx)
    return got
