"""C17 - partial traces and the Dicke-basis reduction equal the explicit contraction (NumPy backend)."""
import itertools
import math
import random
import numpy as np
import numqi
from symnp import ir, scalars as S, arrays as A, facade
from symnp.scalars import SC
from . import common as H
from . import torchsup as TS

TOL = 1e-9


def ptrace_ref(rho, dims, keep):
    """explicit-loop partial trace; rho: (D,D) object or numeric array"""
    rho = A.plain(rho) if isinstance(rho, np.ndarray) else rho
    n = len(dims)
    keep = sorted(keep)
    drop = [i for i in range(n) if i not in keep]
    kd = [dims[i] for i in keep]
    dd = [dims[i] for i in drop]
    K = int(np.prod(kd)) if kd else 1
    out = np.zeros((K, K), dtype=object if rho.dtype == object else complex)

    def flat(idx):
        r = 0
        for i, d in zip(idx, dims):
            r = r * d + i
        return r
    for ri, rk in enumerate(itertools.product(*[range(d) for d in kd])):
        for ci, ck in enumerate(itertools.product(*[range(d) for d in kd])):
            acc = 0
            for t in itertools.product(*[range(d) for d in dd]):
                ridx = [0] * n
                cidx = [0] * n
                for p, v in zip(keep, rk):
                    ridx[p] = v
                for p, v in zip(keep, ck):
                    cidx[p] = v
                for p, v in zip(drop, t):
                    ridx[p] = v
                    cidx[p] = v
                acc = acc + rho[flat(ridx), flat(cidx)]
            out[ri, ci] = acc
    return out


def _c(p, key):
    a = np.array(p[key], dtype=float)
    return a[..., 0] + 1j * a[..., 1]


def payload(model, arrs, **kw):
    out = dict(kw)
    for key, a in arrs.items():
        env = H.model_env(model, [a])
        v = H.eval_array(a, env)
        out[key] = np.stack([np.real(v), np.imag(v)], axis=-1).tolist()
    return out


def dicke_ref_numeric(k, d):
    """Dicke basis by direct definition: rows indexed by occupation tuples in numqi's klist order"""
    klist = numqi.dicke.get_dicke_klist(k, d)
    out = np.zeros((len(klist), d ** k))
    for r, occ in enumerate(klist):
        cnt = 0
        for idx in itertools.product(range(d), repeat=k):
            if tuple(idx.count(x) for x in range(d)) == tuple(occ):
                f = 0
                for i in idx:
                    f = f * d + i
                out[r, f] = 1
                cnt += 1
        out[r] /= math.sqrt(cnt)
    return out


def abk_call(k, dB):
    def f(arrs, as_torch):
        return numqi.dicke.partial_trace_ABk_to_AB(arrs[0], numqi.dicke.get_partial_trace_ABk_to_AB_index(k, dB))
    return f


def replay(p):
    what = p['what']
    if what == 'abk_backend':
        bad, msg = TS.replay_backend(abk_call(p['k'], p['dB']), [_c(p, 'psi')])
        return bad, f"partial_trace_ABk_to_AB dA={p['dA']} dB={p['dB']} k={p['k']}: {msg}"
    if what == 'ptrace':
        rho = _c(p, 'rho')
        dims, keep = p['dims'], p['keep']
        arg = {'set': set(keep), 'reversed list': list(keep)[::-1], 'reversed tuple with a repeat': tuple(list(keep)[::-1] + list(keep)[:1]),
               'int': keep[0]}[p.get('form', 'set')]
        got = numqi.utils.partial_trace(rho, dims, arg)
        ref = ptrace_ref(rho, dims, keep)
        return (not H.close(got, ref, TOL)), f'partial_trace dims={dims} keep_index={arg!r} differs from the explicit contraction over the kept set'
    if what == 'ptrace2':
        rho = _c(p, 'rho')
        dims, k1, k2 = p['dims'], p['keep1'], p['keep2']
        a = numqi.utils.partial_trace(rho, dims, set(k1))
        b = numqi.utils.partial_trace(a, [dims[i] for i in k1], set(k2))
        c = numqi.utils.partial_trace(rho, dims, set(k1[i] for i in k2))
        return (not H.close(b, c, TOL)), f'two-step partial trace dims={dims}'
    if what == 'dicke_basis':
        k, d = p['k'], p['d']
        got = numqi.dicke.get_dicke_basis(k, d)
        return (not H.close(got, dicke_ref_numeric(k, d), TOL)), f'get_dicke_basis({k},{d}) is not the orthonormal symmetric basis'
    if what == 'abk':
        psi = _c(p, 'psi')
        dA, dB, k = p['dA'], p['dB'], p['k']
        Bij = numqi.dicke.get_partial_trace_ABk_to_AB_index(k, dB)
        got = numqi.dicke.partial_trace_ABk_to_AB(psi, Bij)
        basis = dicke_ref_numeric(k, dB)
        full = (psi @ basis).reshape(-1)
        rho = np.outer(full, full.conj())
        ref = ptrace_ref(rho, [dA] + [dB] * k, [0, 1])
        return (not H.close(got, ref, TOL)), f'partial_trace_ABk_to_AB dA={dA} dB={dB} k={k}'
    if what == 'tensor':
        k, d = p['k'], p['d']
        T = numqi.dicke.get_partial_trace_ABk_to_AB_index(k, d, return_tensor=True)
        basis = dicke_ref_numeric(k, d)
        n = basis.shape[0]
        ref = np.zeros((d, d, n, n))
        Bk = basis.reshape(n, d, -1)
        for r in range(d):
            for s in range(d):
                ref[r, s] = Bk[:, r, :] @ Bk[:, s, :].T
        return (not H.close(T, ref, TOL)), f'B_rsab tensor (k={k}, d={d}) differs from the definition'
    if what == 'klist':
        k, d = p['k'], p['d']
        kl = numqi.dicke.get_dicke_klist(k, d)
        want = sorted(t for t in itertools.product(range(k + 1), repeat=d) if sum(t) == k)
        return (sorted(kl) != want or len(set(kl)) != len(kl)), f'get_dicke_klist({k},{d}) is not the set of occupation tuples'
    raise ValueError(what)


REPLAYERS = {'c17': replay}


def run(chk):
    quick = chk.tier == 'quick'
    rng = random.Random(chk.seed)
    chk.fn('numqi.utils.partial_trace', 'numqi.dicke.get_dicke_basis', 'numqi.dicke._dicke_hf0', 'numqi.dicke.get_dicke_klist',
           'numqi.dicke.get_partial_trace_ABk_to_AB_index', 'numqi.dicke.partial_trace_ABk_to_AB', 'numqi.dicke.get_dicke_number')
    chk.register_replayer('c17', replay)
    chk.out_of_claim('torch backend of functions other than partial_trace_ABk_to_AB (partial_trace is NumPy-only code); dimension lists / (dimA,dimB,k) above the bounds; float rounding')
    ctx = S.new_ctx()
    dim_lists = [dl for L in (2, 3) for dl in itertools.product((2, 3), repeat=L) if np.prod(dl) <= (12 if quick else 27)]
    if not quick:
        dim_lists += [dl for dl in itertools.product((2, 3), repeat=4) if np.prod(dl) <= 24]
    abk = [(dA, dB, k) for dA in (2, 3) for dB in (2, 3) for k in (1, 2, 3, 4) if dA * dB ** k <= (54 if quick else 162)]
    chk.bound(dimension_lists=[list(x) for x in dim_lists], keep_subsets='all non-empty proper and improper subsets',
              dimA_dimB_k=abk, operators='arbitrary complex D x D, fully symbolic', vectors='arbitrary complex vectors in A (x) Sym^k(B), fully symbolic')
    with facade.patched():
        # 1. partial trace == explicit contraction, trace preserved, two-step == one-step
        for dims in dim_lists:
            D = int(np.prod(dims))
            rho = H.cx_array('r' + ''.join(map(str, dims)), (D, D))
            n = len(dims)
            for r in range(1, n + 1):
                for keep in itertools.combinations(range(n), r):
                    chk.configurations += 1
                    got = numqi.utils.partial_trace(rho, list(dims), set(keep))
                    ref = ptrace_ref(rho, dims, keep)
                    ok_shape = tuple(got.shape) == ref.shape
                    cl = ir.band_all(H.eq_sc(a, b) for a, b in zip(H.elems(got), H.elems(ref))) if ok_shape else ir.FALSE
                    tr_got = sum((S.as_sc(got[i, i]) for i in range(got.shape[0])), SC(ir.ZERO))
                    tr_rho = sum((S.as_sc(rho[i, i]) for i in range(D)), SC(ir.ZERO))
                    cl = ir.band(cl, H.eq_sc(tr_got, tr_rho))
                    chk.add(f'partial_trace[dims={dims},keep={keep}] == explicit contraction & trace preserved', [], cl, key='partial_trace != contraction',
                            replay=('c17', lambda m, rho=rho, dims=dims, keep=keep: payload(m, {'rho': rho}, what='ptrace', dims=list(dims), keep=list(keep))))
                    # the kept subsystems may be named by any iterable (or a bare int): the result is that of the kept *set*
                    forms = [('reversed list', list(keep)[::-1]), ('reversed tuple with a repeat', tuple(list(keep)[::-1] + list(keep)[:1]))] if len(keep) >= 2 else [('int', keep[0])]
                    for fname, arg in forms:
                        try:
                            g2 = numqi.utils.partial_trace(rho, list(dims), arg)
                            cl2 = ir.band_all(H.eq_sc(a, b) for a, b in zip(H.elems(g2), H.elems(ref))) if tuple(g2.shape) == ref.shape else ir.FALSE
                        except S.EngineError:
                            raise
                        except Exception:                    # noqa: BLE001
                            cl2 = ir.FALSE
                        chk.add(f'partial_trace[dims={dims},keep_index={arg!r}] ({fname}) == explicit contraction over the kept set', [], cl2, key='partial_trace: keep_index form',
                                replay=('c17', lambda m, rho=rho, dims=dims, keep=keep, fname=fname: payload(m, {'rho': rho}, what='ptrace', dims=list(dims), keep=list(keep), form=fname)))
                    if len(keep) >= 2:
                        for r2 in range(1, len(keep)):
                            for k2 in itertools.combinations(range(len(keep)), r2):
                                b = numqi.utils.partial_trace(got, [dims[i] for i in keep], set(k2))
                                c = numqi.utils.partial_trace(rho, list(dims), set(keep[i] for i in k2))
                                chk.add(f'Tr_B Tr_C == Tr_BC [dims={dims},keep={keep}->{k2}]', [],
                                        ir.band_all(H.eq_sc(x, y) for x, y in zip(H.elems(b), H.elems(c))), key='partial_trace two-step != one-step',
                                        replay=('c17', lambda m, rho=rho, dims=dims, keep=keep, k2=k2: payload(m, {'rho': rho}, what='ptrace2', dims=list(dims), keep1=list(keep), keep2=list(k2))))
        # 2. Dicke basis: orthonormal, permutation invariant (ground, exact radicals); klist enumerates occupations once
        # larger (copies, dimension) pairs - in particular d^k beyond 128 / 256 / 32768 (index arithmetic in narrow integer types) - get the basis
        # claims only (orthonormal, permutation invariant, row count, klist); the index tensor is checked for the small pairs
        small = [(k, d) for d in (2, 3) for k in ((1, 2, 3, 4) if d == 2 else (1, 2, 3))]
        large = [(5, 2), (8, 2), (4, 3), (5, 3), (3, 4), (2, 12)] + ([] if quick else [(9, 2), (4, 4), (5, 4), (3, 6), (6, 3), (2, 16)])
        for k, d in small + large:
            if True:
                light = (k, d) in large
                chk.configurations += 1
                B = numqi.dicke.get_dicke_basis(k, d)
                Bp = A.plain(B) if isinstance(B, A.SymArray) else np.asarray(B, dtype=object)
                nrow = Bp.shape[0]
                cl = []
                for i in range(nrow):
                    for j in range(i, nrow):
                        acc = SC(ir.ZERO)
                        for t in range(Bp.shape[1]):
                            acc = acc + S.as_sc(Bp[i, t]) * S.as_sc(Bp[j, t])
                        cl.append(H.eq_sc(acc, 1 if i == j else 0))
                rp = ('c17', {'what': 'dicke_basis', 'k': k, 'd': d})
                chk.add(f'get_dicke_basis({k},{d}) orthonormal', ctx.facts, ir.band_all(cl), key='dicke basis not orthonormal', replay=rp)
                cl = []
                T = Bp.reshape((nrow,) + (d,) * k)
                for a in range(k - 1):
                    Tt = np.swapaxes(T, 1 + a, 2 + a)
                    cl += [H.eq_sc(x, y) for x, y in zip(T.reshape(-1), Tt.reshape(-1))]
                nonneg = [ir.rcmp('le', ir.ZERO, S.as_sc(x).re) for x in Bp.reshape(-1)]
                chk.add(f'get_dicke_basis({k},{d}) permutation invariant, entries >= 0', ctx.facts, ir.band_all(cl + nonneg), key='dicke basis not symmetric', replay=rp)
                chk.add(f'get_dicke_basis({k},{d}) has dim(Sym^k) = C(k+d-1,d-1) rows', [], ir.bconst(nrow == math.comb(k + d - 1, d - 1) == numqi.dicke.get_dicke_number(k, d)),
                        key='dicke number', replay=rp)
                # klist membership: a symbolic occupation tuple summing to k equals exactly one list element
                if d > 6:
                    continue
                kl = numqi.dicke.get_dicke_klist(k, d)
                occ = [S.bv_var(f'occ{d}_{k}_{i}', np.uint8) for i in range(d)]
                tot = occ[0]
                for o in occ[1:]:
                    tot = tot + o
                pre = [(o <= k).n for o in occ] + [(tot == k).n]
                hits = [ir.band_all((occ[i] == int(t[i])).n for i in range(d)) for t in kl]
                exactly_one = ir.band(ir.bor_all(hits), ir.band_all(ir.bnot(ir.band(hits[i], hits[j])) for i in range(len(hits)) for j in range(i + 1, len(hits))))
                chk.add(f'get_dicke_klist({k},{d}) lists every occupation tuple exactly once', pre, exactly_one, key='dicke klist', replay=('c17', {'what': 'klist', 'k': k, 'd': d}))
                chk.add(f'reach klist({k},{d})', pre, ir.TRUE, kind='reach')
                if light:
                    continue
                # return_tensor=True equals the tensor assembled from the definition B_rsab = <D_a| (|s><r| (x) I) |D_b>
                Tn = numqi.dicke.get_partial_trace_ABk_to_AB_index(k, d, return_tensor=True)
                Tp = A.plain(Tn) if isinstance(Tn, A.SymArray) else np.asarray(Tn, dtype=object)
                Bk = Bp.reshape(nrow, d, -1)
                cl = []
                for r in range(d):
                    for s_ in range(d):
                        for a in range(nrow):
                            for b in range(nrow):
                                acc = SC(ir.ZERO)
                                for t in range(Bk.shape[2]):
                                    acc = acc + S.as_sc(Bk[a, r, t]) * S.as_sc(Bk[b, s_, t])
                                cl.append(H.eq_sc(Tp[r, s_, a, b], acc))
                chk.add(f'B_rsab tensor (k={k},d={d}) == definition from the Dicke basis', ctx.facts, ir.band_all(cl), key='dicke Brsab tensor',
                        replay=('c17', {'what': 'tensor', 'k': k, 'd': d}))
        # 3. fast reduction == embed with the Dicke basis + explicit partial trace of k-1 copies
        for dA, dB, k in abk:
            chk.configurations += 1
            nk = math.comb(k + dB - 1, dB - 1)
            psi = H.cx_array(f'psi{dA}{dB}{k}', (dA, nk))
            Bij = numqi.dicke.get_partial_trace_ABk_to_AB_index(k, dB)
            got = numqi.dicke.partial_trace_ABk_to_AB(psi, Bij)
            basis = numqi.dicke.get_dicke_basis(k, dB)
            bp = A.plain(basis) if isinstance(basis, A.SymArray) else np.asarray(basis, dtype=object)
            full = np.dot(A.plain(psi), bp)        # (dA, dB^k)
            full = full.reshape(dA, dB, -1)          # A, first copy, remaining copies
            gp = A.plain(got)
            for i in range(dA * dB):
                for j in range(i, dA * dB):
                    a0, b0 = divmod(i, dB)
                    a1, b1 = divmod(j, dB)
                    acc = SC(ir.ZERO)
                    for t in range(full.shape[2]):
                        acc = acc + S.as_sc(full[a0, b0, t]) * S.as_sc(full[a1, b1, t]).conjugate()
                    chk.add(f'partial_trace_ABk_to_AB[dA={dA},dB={dB},k={k}][{i},{j}] == explicit', ctx.facts, H.eq_sc(gp[i, j], acc), key='partial_trace_ABk_to_AB != explicit',
                            replay=('c17', lambda m, psi=psi, dA=dA, dB=dB, k=k: payload(m, {'psi': psi}, what='abk', dA=dA, dB=dB, k=k)))
            herm = ir.band_all(H.eq_sc(gp[i, j], S.as_sc(gp[j, i]).conjugate()) for i in range(dA * dB) for j in range(i))
            chk.add(f'partial_trace_ABk_to_AB[dA={dA},dB={dB},k={k}] Hermitian', ctx.facts, herm, key='partial_trace_ABk_to_AB not Hermitian',
                    replay=('c17', lambda m, psi=psi, dA=dA, dB=dB, k=k: payload(m, {'psi': psi}, what='abk', dA=dA, dB=dB, k=k)))
        # encoding validation
        for dims in dim_lists[:4]:
            D = int(np.prod(dims))
            rho = H.cx_array('r' + ''.join(map(str, dims)), (D, D))
            got = numqi.utils.partial_trace(rho, list(dims), {0})
            env = H.complete_env(ctx, H.random_env([rho], rng))
            conc = H.eval_array(rho, env)
            import numpy as _np
            want = _np.einsum(conc.reshape(*dims, *dims), list(range(len(dims))) + [len(dims)] + list(range(1, len(dims))), [0, len(dims)])
            chk.validation(1, [] if H.close(H.eval_array(got, env), want, 1e-9) else [f'partial_trace {dims} symbolic vs numeric differ'])
    # ---- PyTorch branch of partial_trace_ABk_to_AB == NumPy branch on the same symbolic vector
    trng = random.Random(chk.seed + 1)
    for dA, dB, k in abk:
        nk = math.comb(k + dB - 1, dB - 1)
        psi = H.cx_array(f'tpsi{dA}{dB}{k}', (dA, nk))
        rp = ('c17', lambda m, psi=psi, dA=dA, dB=dB, k=k: payload(m, {'psi': psi}, what='abk_backend', dA=dA, dB=dB, k=k))
        TS.backend_equiv(chk, f'partial_trace_ABk_to_AB[dA={dA},dB={dB},k={k}]', abk_call(k, dB), [psi], rp, 'partial_trace_ABk_to_AB', rng=trng)
    chk.notes_from(ctx)
    chk.assume('Dicke normalisation constants 1/sqrt(m), sqrt(k_i k_j)/n computed in floats by the code are lifted to exact algebraic numbers when they match within 4 ulp')
    chk.solve(timeout_s=60 if quick else 300)
