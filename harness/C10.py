"""C10 - random generators: reproducible from a seed (data-flow through symbolic random streams) and, for the algebraic
generators, valid for every draw."""
import itertools
import math
import random as pyrandom
import sys
import numpy as np
import scipy
import scipy.linalg
import scipy.optimize
import types
import numqi
from symnp import ir, scalars as S, arrays as A, facade
from symnp.scalars import SC, BVS
from . import common as H

TOL = 1e-9
_FRESH = [0]
TRUNCATED = [0]
TOTAL = [0]          # draw calls of all streams in the current execution
PATH_TRUNC = [0]


class SymStream:
    """stand-in for numpy.random.Generator / random.Random: the k-th draw of the stream created from seed term s is the named
    variable draw[s,k]; a stream created without a seed gets a fresh name on every creation"""

    def __init__(self, key):
        self.key = key
        self.k = 0
        self.cons = []

    BUDGET = 16     # draw calls per stream and path: rejection loops (`while True: draw; if bad: continue`) are unrolled this far

    def _name(self, tag):
        self.k += 1
        TOTAL[0] += 1
        if self.k > self.BUDGET or TOTAL[0] > 2 * self.BUDGET:
            from symnp import explore
            TRUNCATED[0] += 1
            raise explore.Infeasible()
        return f'{self.key}.{tag}{self.k}'

    @staticmethod
    def _shape(size):
        if size is None:
            return ()
        if isinstance(size, (int, np.integer)):
            return (int(size),)
        return tuple(int(x) for x in size)

    def _reals(self, tag, size, lo=None, hi=None):
        shp = self._shape(size)
        base = self._name(tag)
        out = np.empty(shp, dtype=object)
        for j, idx in enumerate(np.ndindex(*shp)):
            v = S.sc_var(f'{base}[{j}]')
            if lo is not None:
                self.cons += [(v >= lo).n, (v <= hi).n]
                S.ctx().facts += [(v >= lo).n, (v <= hi).n]
            out[idx] = v
        return out[()] if shp == () else A.wrap(out, np.float64)

    def normal(self, loc=0.0, scale=1.0, size=None):
        r = self._reals('n', size)
        if (loc, scale) != (0.0, 1.0):
            r = r * scale + loc
        return r

    standard_normal = lambda self, size=None, **k: self._reals('n', size)

    def uniform(self, low=0.0, high=1.0, size=None):
        return self._reals('u', size, low, high)

    def random(self, size=None, **k):
        return self._reals('u', size, 0.0, 1.0)

    def integers(self, low, high=None, size=None, dtype=np.int64, endpoint=False):
        if high is None:
            low, high = 0, low
        shp = self._shape(size)
        base = self._name('i')
        out = np.empty(shp, dtype=object)
        for j, idx in enumerate(np.ndindex(*shp)):
            if (low, high) == (0, 2):
                v = S.bit_var(f'{base}[{j}]', dtype)
            else:
                v = S.bv_var(f'{base}[{j}]', dtype)
                S.ctx().facts += [(v >= low).n, (v < high).n]
            out[idx] = v
        return out[()] if shp == () else A.wrap(out, dtype)

    def choice(self, n, p=None, **kw):
        v = S.bv_var(self._name('c'), np.int64)
        S.ctx().facts += [(v >= 0).n, (v < int(n)).n]
        i = int(v)
        if p is not None:
            S.ctx().explorer.assume(S.as_sb(p[i] > 0).n)
        return i

    # random.Random flavour
    def randint(self, a, b):
        v = S.bv_var(self._name('r'), np.int64)
        S.ctx().facts += [(v >= a).n, (v <= b).n]
        return v


class Registry:
    def __init__(self):
        self.created = []

    def stream(self, seed):
        if isinstance(seed, SymStream):
            return seed
        if seed is None:
            _FRESH[0] += 1
            s = SymStream(f'unseeded{_FRESH[0]}')
        elif isinstance(seed, BVS):
            s = SymStream('derived<' + ir.pretty(seed.n, 2).replace(' ', '_') + '>')
        elif isinstance(seed, (int, np.integer)):
            s = SymStream(f'seed{int(seed)}')
        else:
            raise S.EngineError(f'seed of type {type(seed).__name__}')
        self.created.append(s)
        return s


_UF = {}
_UFN = [0]


def uf_kernel(name, real_fn):
    """LAPACK-class kernel as an uninterpreted function of all argument entries: same argument terms -> same result variables"""
    def f(*args, **kwargs):
        if not any(A.has_sym(a) for a in args):
            return real_fn(*args, **kwargs)
        key_parts = [name, repr(sorted(kwargs.items()))]
        conc = []
        for a in args:
            if isinstance(a, np.ndarray):
                p = A.plain(a) if isinstance(a, A.SymArray) else a
                ids = []
                for e in p.reshape(-1):
                    e = S.as_sc(e) if not isinstance(e, (BVS,)) else e
                    ids.append((e.re.id, e.im.id) if isinstance(e, SC) else e.n.id)
                key_parts.append((p.shape, tuple(ids)))
                sd = a.dtype if isinstance(a, A.SymArray) else a.dtype
                g = np.random.default_rng(0)
                c = g.normal(size=p.shape) + (1j * g.normal(size=p.shape) if np.dtype(sd).kind == 'c' else 0)
                if p.ndim >= 2 and p.shape[-1] == p.shape[-2] and name in ('eigh', 'eigvalsh', 'cholesky'):
                    c = c @ np.swapaxes(c.conj(), -1, -2)
                conc.append(c)
            else:
                key_parts.append(repr(a))
                conc.append(a)
        key = tuple(key_parts)
        if key not in _UF:
            out = real_fn(*conc, **kwargs)
            _UFN[0] += 1
            tag = f'uf{_UFN[0]}_{name}'

            def mk(o, t):
                if isinstance(o, np.ndarray):
                    arr = np.empty(o.shape, dtype=object)
                    for j, idx in enumerate(np.ndindex(*o.shape)):
                        arr[idx] = S.sc_var(f'{t}[{j}]', o.dtype.kind == 'c')
                    return A.wrap(arr, o.dtype)
                if isinstance(o, tuple):
                    return tuple(mk(x, f'{t}.{i}') for i, x in enumerate(o))
                if hasattr(o, '_fields') or (hasattr(o, '__len__') and not isinstance(o, (str, bytes))):
                    return tuple(mk(x, f'{t}.{i}') for i, x in enumerate(o))
                return S.sc_var(t)
            _UF[key] = mk(out, tag)
        return _UF[key]
    return f


def build_env(reg):
    linalg = {k: uf_kernel(k, getattr(np.linalg, k)) for k in ('qr', 'eigh', 'eigvalsh', 'inv', 'svd', 'cholesky', 'det', 'solve')}
    rnd = {'default_rng': lambda seed=None: reg.stream(seed)}
    for nm in ('normal', 'rand', 'randn', 'uniform', 'randint', 'random', 'standard_normal'):
        def g(*a, nm=nm, **k):
            st = reg.stream(None)
            size = k.get('size', a if nm in ('rand', 'randn') else (a[2] if len(a) > 2 else None))
            return st.normal(size=size if size != () else None) if nm in ('normal', 'randn', 'standard_normal') else st.uniform(size=size if size != () else None)
        rnd[nm] = g
    fac = facade.make_np_facade(linalg=linalg, random=rnd)
    sl = facade.Facade(scipy.linalg, {'expm': uf_kernel('expm', scipy.linalg.expm), 'sqrtm': uf_kernel('sqrtm', scipy.linalg.sqrtm)}, 'scipy.linalg')

    def opt_minimize_spy(fun, x0, *a, **k):
        # scipy.optimize.minimize stand-in: deterministic, result is a function of the start points it was handed (all of them so far)
        OPT_STARTS.append(x0)
        return types.SimpleNamespace(fun=-float(len(OPT_STARTS)), x=np.concatenate([A.plain(v) if isinstance(v, A.SymArray) else np.asarray(v, dtype=object) for v in OPT_STARTS]))
    so = facade.Facade(scipy.optimize, {'minimize': opt_minimize_spy}, 'scipy.optimize')
    sp = facade.Facade(scipy, {'linalg': sl, 'optimize': so}, 'scipy')
    real_np = numqi.random._public.get_numpy_rng
    real_py = numqi.random._public.get_random_rng
    eg = {}
    for name, mod in list(sys.modules.items()):
        if not name.startswith('numqi') or mod is None:
            continue
        d = {}
        if getattr(mod, 'get_numpy_rng', None) is real_np:
            d['get_numpy_rng'] = lambda seed=None: reg.stream(seed)
        if getattr(mod, 'get_random_rng', None) is real_py:
            d['get_random_rng'] = lambda seed=None: reg.stream(seed)
        if getattr(mod, 'scipy', None) is scipy:
            d['scipy'] = sp
        if name == 'numqi.optimize._internal':
            d['get_model_flat_parameter'] = lambda model: np.zeros(3)
            d['hf_model_wrapper'] = lambda model: (lambda *a, **k: None)
        if d:
            eg[name] = d
    return fac, eg


OPT_STARTS = []
_QUAD = []


def _minimize(s, theta0):
    """numqi.optimize.minimize(seed=): in the symbolic run the model plumbing and scipy.optimize.minimize are stubs (the result is the list of
    start points handed to the optimiser); in the replay the real optimiser runs on a small quartic model"""
    import torch
    if not _QUAD:
        class Quad(torch.nn.Module):
            def __init__(self):
                super().__init__()
                self.theta = torch.nn.Parameter(torch.zeros(3, dtype=torch.float64))

            def forward(self):
                return torch.sum((self.theta - 0.3) ** 4) + torch.sum(torch.cos(3 * self.theta))
        _QUAD.append(Quad)
    del OPT_STARTS[:]
    r = numqi.optimize.minimize(_QUAD[0](), theta0=theta0, num_repeat=2, tol=1e-10, print_every_round=0, seed=s)
    return r.x, r.fun


R = numqi.random
GENERATORS = [
    ('rand_haar_state', lambda s: R.rand_haar_state(3, seed=s)),
    ('rand_haar_state(real)', lambda s: R.rand_haar_state(3, tag_complex=False, seed=s)),
    ('rand_haar_unitary', lambda s: R.rand_haar_unitary(2, seed=s)),
    ('rand_special_orthogonal_matrix', lambda s: R.rand_special_orthogonal_matrix(2, seed=s)),
    ('rand_special_orthogonal_matrix(batch,complex)', lambda s: R.rand_special_orthogonal_matrix(2, batch_size=2, tag_complex=True, seed=s)),
    ('rand_density_matrix(haar)', lambda s: R.rand_density_matrix(2, seed=s)),
    ('rand_density_matrix(haar,k=1)', lambda s: R.rand_density_matrix(3, k=1, seed=s)),
    ('rand_density_matrix(bures)', lambda s: R.rand_density_matrix(2, kind='bures', seed=s)),
    ('rand_kraus_op', lambda s: R.rand_kraus_op(2, 2, 2, seed=s)),
    ('rand_kraus_op(real)', lambda s: R.rand_kraus_op(2, 2, 3, tag_complex=False, seed=s)),
    ('rand_choi_op', lambda s: R.rand_choi_op(2, 2, seed=s)),
    ('rand_choi_op(rank)', lambda s: R.rand_choi_op(2, 2, rank=2, seed=s)),
    ('rand_povm', lambda s: R.rand_povm(2, 3, seed=s)),
    ('rand_bipartite_state', lambda s: R.rand_bipartite_state(2, seed=s)),
    ('rand_bipartite_state(dimB,return_dm)', lambda s: R.rand_bipartite_state(2, 3, seed=s, return_dm=True)),
    ('rand_bipartite_state(k)', lambda s: R.rand_bipartite_state(2, 2, k=1, seed=s)),
    ('rand_separable_dm', lambda s: R.rand_separable_dm(2, seed=s)),
    ('rand_separable_dm(pure_term)', lambda s: R.rand_separable_dm(2, 2, k=2, seed=s, pure_term=True)),
    ('rand_hermitian_matrix', lambda s: R.rand_hermitian_matrix(2, seed=s)),
    ('rand_hermitian_matrix(real)', lambda s: R.rand_hermitian_matrix(2, tag_complex=False, seed=s)),
    ('rand_hermitian_matrix(eig)', lambda s: R.rand_hermitian_matrix(2, eig=(0, 1), seed=s)),
    ('rand_channel_matrix_space', lambda s: R.rand_channel_matrix_space(2, 3, seed=s)),
    ('rand_quantum_channel_matrix_subspace', lambda s: R.rand_quantum_channel_matrix_subspace(2, 2, seed=s)),
    ('rand_quantum_channel_matrix_subspace(real)', lambda s: R.rand_quantum_channel_matrix_subspace(3, (2, 1), seed=s)),
    ('rand_ABk_density_matrix', lambda s: R.rand_ABk_density_matrix(2, 2, 1, seed=s)),
    ('rand_reducible_matrix_subspace', lambda s: R.rand_reducible_matrix_subspace(2, (1, 2), seed=s)),
    ('rand_symmetric_inner_product', lambda s: R.rand_symmetric_inner_product(2, seed=s)),
    ('rand_orthonormal_matrix_basis', lambda s: R.rand_orthonormal_matrix_basis(2, 2, seed=s)),
    ('rand_adjacent_matrix', lambda s: R.rand_adjacent_matrix(3, seed=s)),
    ('rand_n_sphere', lambda s: R.rand_n_sphere(3, seed=s)),
    ('rand_n_sphere(size)', lambda s: R.rand_n_sphere(2, size=(2,), seed=s)),
    ('rand_n_ball', lambda s: R.rand_n_ball(2, seed=s)),
    ('rand_n_ball(size int)', lambda s: R.rand_n_ball(3, size=2, seed=s)),
    ('rand_F2', lambda s: R.rand_F2(2, 2, seed=s)),
    ('rand_F2(not_zero)', lambda s: R.rand_F2(2, not_zero=True, seed=s)),
    ('rand_SpF2', lambda s: R.rand_SpF2(1, seed=s)),
    ('rand_SpF2(int_tuple)', lambda s: R.rand_SpF2(2, return_kind='int_tuple', seed=s)),
    ('rand_Clifford_group', lambda s: R.rand_Clifford_group(1, seed=s)),
    ('rand_pauli', lambda s: R.rand_pauli(2, seed=s).F2),
    ('rand_pauli(hermitian)', lambda s: R.rand_pauli(2, is_hermitian=True, seed=s).F2),
    ('measure_quantum_vector', lambda s: numqi.sim.state.measure_quantum_vector(np.array([0.6, 0.0, 0.0, 0.8]), (0,), seed=s)),
    ('Circuit.measure', lambda s: _circ_measure(s)),
    ('get_purification', lambda s: numqi.utils.get_purification(np.array([[0.5, 0.0], [0.0, 0.5]]), dimR=2, seed=s)),
    ('optimize.minimize(theta0=None)', lambda s: _minimize(s, None)),
    ('optimize.minimize(theta0=normal)', lambda s: _minimize(s, 'normal')),
]
# the same seed handed over as a NumPy integer (an element of np.arange(N), a value read from an array): still "an integer seed"
GENERATORS += [(nm + ' [seed: np.int64]', (lambda s, f=f: f(np.int64(s)))) for nm, f in list(GENERATORS)
               if nm in ('rand_haar_state', 'rand_density_matrix(bures)', 'rand_kraus_op', 'rand_SpF2(int_tuple)', 'rand_Clifford_group', 'rand_pauli',
                         'measure_quantum_vector', 'Circuit.measure', 'get_purification', 'optimize.minimize(theta0=None)', 'optimize.minimize(theta0=normal)')]


def _circ_measure(s):
    c = numqi.sim.Circuit()
    c.H(0)
    g = c.measure((0,), seed=s)
    out = c.apply_state(np.array([1.0, 0.0], dtype=np.complex128))
    return out, g.bitstr, g.probability


def flat(x):
    """flatten a result (arrays, tuples, scalars, python ints) to a list of scalars + a structure signature"""
    if isinstance(x, np.ndarray):
        return list(A.plain(x).reshape(-1)) if x.dtype == object else list(x.reshape(-1)), ('arr', x.shape)
    if isinstance(x, (tuple, list)):
        out, sig = [], []
        for e in x:
            o, s_ = flat(e)
            out += o
            sig.append(s_)
        return out, ('seq', tuple(sig))
    return [x], ('scalar',)


def eq_any(a, b):
    if isinstance(a, (SC,)) or isinstance(b, (SC,)):
        return H.eq_sc(a, b)
    if isinstance(a, (BVS, S.SB)) or isinstance(b, (BVS, S.SB)):
        r = (a == b) if isinstance(a, (BVS, S.SB)) else (b == a)
        return S.as_sb(r).n
    if isinstance(a, (int, float, complex, np.number)) and isinstance(b, (int, float, complex, np.number)):
        return ir.bconst(a == b)
    return ir.bconst(a == b)


def replay(p):
    name = p['gen']
    fn = dict(GENERATORS)[name]
    import time as _time
    t0 = _time.time()
    n = 0
    # the solver's counterexample fixes draw values (e.g. "the first draw is rejected"); the real Generator cannot be forced to
    # produce them, so the replay searches the seeds that realise such a path: 7, 0, 12345, then 1.. for at most 20 s / 400 seeds
    for seed in [7, 0, 12345] + list(range(1, 400)):
        a = fn(seed)
        np.random.normal(size=3)
        pyrandom.random()
        numqi.random.rand_haar_state(2)
        b = fn(seed)
        n += 1
        fa, sa = flat(a)
        fb, sb = flat(b)
        if sa != sb or any((np.asarray(x).tobytes() != np.asarray(y).tobytes()) for x, y in zip(fa, fb)):
            return True, f'{name}: two calls with seed={seed} return different results'
        if n >= 3 and _time.time() - t0 > 20:
            break
    return False, f'{name}: reproducible for {n} seeds'


def replay_valid(p):
    what = p['what']
    for seed in range(40):
        if what == 'haar_state':
            v = R.rand_haar_state(p['d'], tag_complex=p['c'], seed=seed)
            bad = abs(np.linalg.norm(v) - 1) > TOL
        elif what == 'n_sphere':
            v = R.rand_n_sphere(p['d'], seed=seed)
            bad = abs(np.linalg.norm(v) - 1) > TOL
        elif what == 'n_ball':
            v = R.rand_n_ball(p['d'], seed=seed)
            bad = np.linalg.norm(v) > 1 + TOL
        elif what == 'dm':
            rho = R.rand_density_matrix(p['d'], k=p['k'], kind=p.get('kind', 'haar'), seed=seed)
            ev = np.linalg.eigvalsh(rho)
            bad = np.abs(rho - rho.conj().T).max() > TOL or abs(np.trace(rho) - 1) > TOL or ev.min() < -TOL or np.sum(ev > 1e-9) > (p['k'] or p['d'])
        elif what == 'herm':
            Hm = R.rand_hermitian_matrix(p['d'], tag_complex=p['c'], seed=seed)
            bad = np.abs(Hm - Hm.conj().T).max() > TOL
        elif what == 'abk':
            rho = R.rand_ABk_density_matrix(2, 2, 2, seed=seed).reshape(2, 2, 2, 2, 2, 2)
            bad = abs(np.trace(rho.reshape(8, 8)) - 1) > TOL or np.abs(rho - rho.transpose(0, 2, 1, 3, 5, 4)).max() > TOL
        elif what == 'adj':
            Mx = R.rand_adjacent_matrix(p['d'], seed=seed)
            bad = Mx.dtype != np.uint8 or not np.array_equal(Mx, Mx.T) or np.any(np.diag(Mx) != 0) or Mx.max() > 1
        elif what == 'povm':
            Es = R.rand_povm(p['d'], p['nt'], seed=seed)
            bad = np.abs(Es.sum(axis=0) - np.eye(p['d'])).max() > 1e-8 or any(np.linalg.eigvalsh((E_ + E_.conj().T) / 2).min() < -1e-8 or np.abs(E_ - E_.conj().T).max() > 1e-8 for E_ in Es)
        elif what == 'herm_eig':
            Hm = R.rand_hermitian_matrix(p['d'], eig=(p['a'], p['b']), seed=seed)
            ev = np.linalg.eigvalsh((Hm + Hm.conj().T) / 2)
            bad = np.abs(Hm - Hm.conj().T).max() > 1e-8 or ev.min() < p['a'] - 1e-8 or ev.max() > p['b'] + 1e-8
        elif what == 'separable':
            dA, dB = p['dA'], p['dB']
            rho = R.rand_separable_dm(dA, dB, k=p['k'], pure_term=p['pure'], seed=seed)
            pt = rho.reshape(dA, dB, dA, dB).transpose(0, 3, 2, 1).reshape(dA * dB, dA * dB)
            bad = abs(np.trace(rho) - 1) > 1e-8 or np.linalg.eigvalsh((rho + rho.conj().T) / 2).min() < -1e-8 or np.linalg.eigvalsh((pt + pt.conj().T) / 2).min() < -1e-8
        elif what == 'choi':
            C = R.rand_choi_op(p['din'], p['dout'], p['rank'], seed=seed)
            din, dout = p['din'], p['dout']
            tro = np.einsum(C.reshape(din, dout, din, dout), [0, 1, 2, 1], [0, 2])
            bad = np.abs(tro - np.eye(din)).max() > 1e-8 or np.abs(C - C.conj().T).max() > 1e-8 or np.linalg.eigvalsh((C + C.conj().T) / 2).min() < -1e-8
        elif what == 'kraus':
            K = R.rand_kraus_op(p['nt'], p['din'], p['dout'], seed=seed)
            bad = K.shape != (p['nt'], p['dout'], p['din']) or np.abs(sum(x.conj().T @ x for x in K) - np.eye(p['din'])).max() > 1e-8
        elif what == 'unitary':
            U = R.rand_haar_unitary(p['d'], seed=seed)
            bad = np.abs(U.conj().T @ U - np.eye(p['d'])).max() > 1e-8
        elif what == 'f2':
            v = R.rand_F2(3, not_zero=p.get('nz', False), not_one=p.get('no', False), seed=seed)
            bad = v.dtype != np.uint8 or v.max() > 1 or (p.get('nz') and not v.any()) or (p.get('no') and v.all())
        else:
            raise ValueError(what)
        if bad:
            return True, f'{what} {p}: invalid object for seed={seed}'
    return False, 'valid on 40 seeds'


REPLAYERS = {'c10': replay, 'c10v': replay_valid}


def run(chk):
    quick = chk.tier == 'quick'
    chk.fn('numqi.random.* (every public generator, ' + str(len(GENERATORS)) + ' argument configurations)', 'numqi.random.get_numpy_rng', 'numqi.random.get_random_rng',
           'numqi.sim.state.measure_quantum_vector(seed=)', 'numqi.sim.Circuit.measure(seed=)', 'numqi.utils.get_purification(seed=)')
    for k, v in REPLAYERS.items():
        chk.register_replayer(k, v)
    chk.stub('numpy Generator / random.Random -> symbolic streams: draw k of the stream created from seed s is the variable seed<s>.<kind>k; unseeded creations get fresh names; '
             'np.random global functions draw from a fresh stream')
    chk.stub('np.linalg.qr/eigh/eigvalsh/inv/svd/cholesky/det/solve, scipy.linalg.expm/sqrtm -> uninterpreted functions of all argument entries (same terms in, same variables out)')
    chk.out_of_claim('validity of generators that go through QR/eigh/expm (unitaries, Kraus sets, Choi operators, POVMs, special orthogonal): only their reproducibility is decided; '
                     'CHABoundaryBagging / minimize(seed=) / check_model_gradient (torch, scipy.optimize); bit-identity of LAPACK itself')
    chk.bound(reproducibility='one small argument configuration per optional-argument branch; seed concrete (7) in the symbolic run, 3 seeds in the replay', validity_dims='2..3')
    reg = Registry()
    fac, eg = build_env(reg)
    # ---- reproducibility
    for name, fn in GENERATORS:
        chk.configurations += 1

        def twice(fn=fn):
            _FRESH[0] = 0                            # unseeded streams are numbered per execution (deterministic re-execution)
            TOTAL[0] = 0
            a = fn(7)
            numqi.random.rand_haar_state(2)          # unrelated unseeded call in between
            np.random.default_rng().normal(size=2)
            b = fn(7)
            return a, b
        try:
            paths, st = H.run_paths(twice, [], np_facade=fac, extra_globals=eg, feas_timeout_ms=500, max_paths=64, truncate=True)
            PATH_TRUNC[0] += 1 if st.get('truncated_pending') else 0
        except (S.EngineError, Exception) as e:
            chk.engine_error(f'{name}', e)
            continue
        chk.add_path_stats(st)
        rp = ('c10', {'gen': name})
        nret = 0
        for pi, path in enumerate(paths):
            if path.status != 'return':
                continue          # kernel-contract violations (e.g. negative eigenvalues of a Gram matrix) and rejection loops: not about reproducibility
            nret += 1
            a, b = path.value
            fa, sa = flat(a)
            fb, sb = flat(b)
            if sa != sb:
                cl = ir.FALSE
            else:
                cl = ir.band_all(eq_any(x, y) for x, y in zip(fa, fb))
            chk.add(f'{name}: same seed => identical result, whatever random calls happen in between (path {pi})', path.pc + path.facts, cl, key=f'{name} not reproducible from its seed', replay=rp)
        if nret == 0:
            exc = paths[0].value if paths else None
            chk.engine_error(name, RuntimeError(f'no returning path ({type(exc).__name__}: {exc})'))
    # ---- validity of the algebraic generators for every draw
    def valid(name, fn, claims_of, rp, pre_of=None, eg_extra=None, havoc_first_matmul=False):
        chk.configurations += 1
        eg_ = eg
        if eg_extra:
            eg_ = {k_: dict(v_) for k_, v_ in eg.items()}
            for k_, v_ in eg_extra.items():
                eg_.setdefault(k_, {}).update(v_)
        try:
            def once():
                _FRESH[0] = 0
                TOTAL[0] = 0
                if havoc_first_matmul:
                    cnt = [0]

                    def hook(r, a_=None, b_=None):
                        cnt[0] += 1
                        if cnt[0] > 1:
                            return r
                        out = np.empty(r.shape, dtype=object)
                        for j, idx in enumerate(np.ndindex(*r.shape)):
                            out[idx] = S.sc_var(f'havoc<{name}>[{j}]', True)
                        return out
                    A.MATMUL_HOOK[0] = hook
                try:
                    return fn(SymStream(f'v<{name}>'))
                finally:
                    A.MATMUL_HOOK[0] = None
            paths, st = H.run_paths(once, [], np_facade=fac, extra_globals=eg_, feas_timeout_ms=500, max_paths=64)
        except S.EngineError as e:
            chk.engine_error(name, e)
            return
        chk.add_path_stats(st)
        for pi, path in enumerate(paths):
            if path.status != 'return':
                if isinstance(path.value, S.EngineError) or 'budget' in str(path.value):
                    continue
                chk.add(f'{name} raises {type(path.value).__name__} (path {pi})', path.pc + path.facts, ir.FALSE, key=f'{name} raises', replay=rp)
                continue
            with path.resume():
                pre = path.pc + path.facts + (pre_of(path.value) if pre_of else [])
                for lab, c in claims_of(path.value):
                    chk.add(f'{name}: {lab} for every draw (path {pi})', pre + path.facts, c, key=f'{name} invalid: {lab}', replay=rp)
    nonzero = lambda v: [ir.bnot(H.eq_sc(H.norm2(v), 0))]
    for d, c in ((2, True), (3, False)):
        valid(f'rand_haar_state({d},complex={c})', lambda s, d=d, c=c: R.rand_haar_state(d, tag_complex=c, seed=s), lambda v: [('unit norm', H.eq_sc(H.norm2(v), 1))],
              ('c10v', {'what': 'haar_state', 'd': d, 'c': c}), lambda v: [ir.band_all(cnd for k, cnd in S.ctx().side)])
    valid('rand_n_sphere(3)', lambda s: R.rand_n_sphere(3, seed=s), lambda v: [('unit norm', H.eq_sc(H.norm2(v), 1))], ('c10v', {'what': 'n_sphere', 'd': 3}),
          lambda v: [ir.band_all(cnd for k, cnd in S.ctx().side)])
    for d in (1, 2, 3):
        valid(f'rand_n_ball({d})', lambda s, d=d: R.rand_n_ball(d, seed=s), lambda v: [('norm <= 1', ir.rcmp('le', H.norm2(v).re, ir.ONE))], ('c10v', {'what': 'n_ball', 'd': d}),
              lambda v: [ir.band_all(cnd for k, cnd in S.ctx().side)])

    def dm_claims(rho):
        P = A.plain(rho)
        n = P.shape[0]
        tr = sum((S.as_sc(P[i, i]) for i in range(n)), SC(ir.ZERO))
        return [(f'Hermitian [{i},{j}]', H.eq_sc(P[i, j], S.as_sc(P[j, i]).conjugate())) for i in range(n) for j in range(i, n)] + [('trace one', H.eq_sc(tr, 1))]
    def dm_rank_claims(k):
        def f(rho):
            out = dm_claims(rho)
            P = A.plain(rho)
            n = P.shape[0]
            if k is not None and k < n and k + 1 <= 3:
                from .C01 import det_small
                for rows in itertools.combinations(range(n), k + 1):
                    for cols in itertools.combinations(range(n), k + 1):
                        if cols < rows:
                            continue                      # Hermitian: the transposed minor is the conjugate
                        sub = P[np.ix_(rows, cols)]
                        out.append((f'rank <= {k}: minor rows {rows} cols {cols} vanishes', H.eq_sc(det_small(sub) if k + 1 > 1 else S.as_sc(sub[0, 0]), 0)))
            return out
        return f
    for d, k, kind in ((2, None, 'haar'), (2, 1, 'haar'), (3, 2, 'haar'), (3, 1, 'haar'), (2, 1, 'bures'), (3, 1, 'bures'), (3, 2, 'bures'), (2, None, 'bures')):
        # kind='bures' multiplies by (U + I) with U from rand_haar_unitary: every claim below holds for an arbitrary matrix U, so the unitary is an arbitrary symbolic matrix here,
        # and the product (U + I) @ G is replaced by a matrix of fresh variables of the same shape (over-approximation: a refutation that does not replay is inconclusive)
        uni = {'numqi.random._internal': {'rand_haar_unitary': lambda dim, *a_, **k_: H.cx_array(f'bu{dim}_', (dim, dim))}} if kind == 'bures' else None
        valid(f'rand_density_matrix({d},k={k},kind={kind})', lambda s, d=d, k=k, kind=kind: R.rand_density_matrix(d, k=k, kind=kind, seed=s), dm_rank_claims(k),
              ('c10v', {'what': 'dm', 'd': d, 'k': k, 'kind': kind}), lambda v: [ir.band_all(cnd for k_, cnd in S.ctx().side)], eg_extra=uni, havoc_first_matmul=(kind == 'bures'))
    for d, c in ((2, True), (3, False)):
        valid(f'rand_hermitian_matrix({d},complex={c})', lambda s, d=d, c=c: R.rand_hermitian_matrix(d, tag_complex=c, seed=s),
              lambda Hm: [('Hermitian', ir.band_all(H.eq_sc(A.plain(Hm)[i, j], S.as_sc(A.plain(Hm)[j, i]).conjugate()) for i in range(d) for j in range(d)))],
              ('c10v', {'what': 'herm', 'd': d, 'c': c}))

    def abk_claims(rho):
        P = A.plain(rho).reshape(2, 2, 2, 2, 2, 2)
        Pt = P.transpose(0, 2, 1, 3, 5, 4)
        tr = sum((S.as_sc(A.plain(rho)[i, i]) for i in range(8)), SC(ir.ZERO))
        return [('invariant under exchanging the two B copies', ir.band_all(H.eq_sc(x, y) for x, y in zip(P.reshape(-1), Pt.reshape(-1)))), ('trace one', H.eq_sc(tr, 1))]
    if not quick:
        valid('rand_ABk_density_matrix(2,2,2)', lambda s: R.rand_ABk_density_matrix(2, 2, 2, seed=s), abk_claims, ('c10v', {'what': 'abk'}), lambda v: [ir.band_all(cnd for k_, cnd in S.ctx().side)])
    for d in (2, 3):
        def adj_claims(Mx, d=d):
            P = A.plain(Mx)
            return [('symmetric 0/1 uint8 with zero diagonal', ir.band(ir.band_all(S.as_sb(P[i, j] == P[j, i]).n for i in range(d) for j in range(d)),
                                                                      ir.band(ir.band_all(S.as_sb(P[i, i] == 0).n for i in range(d)), ir.band(ir.band_all(S.as_sb(e <= 1).n for e in P.reshape(-1)), ir.bconst(Mx.dtype == np.uint8)))))]
        valid(f'rand_adjacent_matrix({d})', lambda s, d=d: R.rand_adjacent_matrix(d, seed=s), adj_claims, ('c10v', {'what': 'adj', 'd': d}))
    # ---- validity of generators that go through an eigen-solver / QR, with the kernel entering by its contract and generic matrix lemmas on fresh atoms
    from .C01 import adj_inv

    def mmul(*ms):
        out = ms[0]
        for m_ in ms[1:]:
            out = np.dot(out, m_)
        return out

    def dagm(m_):
        m_ = np.asarray(m_, dtype=object)
        o = np.empty(m_.shape[::-1], dtype=object)
        for i in range(m_.shape[0]):
            for j in range(m_.shape[1]):
                o[j, i] = S.as_sc(m_[i, j]).conjugate()
        return o

    def eqm(a_, b_):
        return [H.eq_sc(x_, y_) for x_, y_ in zip(np.asarray(a_, dtype=object).reshape(-1), np.asarray(b_, dtype=object).reshape(-1))]

    def eye_(n_):
        return np.array([[S.as_sc(1 if i == j else 0) for j in range(n_)] for i in range(n_)], dtype=object)

    def with_linalg(stubs):
        over = dict(object.__getattribute__(fac, '_over'))
        over['linalg'] = facade.Facade(np.linalg, stubs, 'numpy.linalg')
        return facade.Facade(np, over, 'numpy')
    chk.stub('validity by contract: np.linalg.eigh(A) -> symbolic (lambda > 0, V) [contract V^dag A V = diag(lambda), V V^dag = I, equivalently A = (V sqrt(D))(V sqrt(D))^dag]; '
             'np.linalg.qr -> symbolic (Q, R) [contract Q^dag Q = I]; np.linalg.inv -> exact adjugate inverse (2x2)')
    # generic lemmas for size 2 (fresh atoms)
    r_ = 2
    Vv, Sv_ = A.plain(H.cx_array('cgV', (r_, r_))), A.plain(H.herm_array('cgS', r_))
    dv = [S.sc_var(f'cgd{i}') for i in range(r_)]
    lv = [S.sc_var(f'cgl{i}') for i in range(r_)]
    Dv = np.array([[dv[i] if i == j else SC(ir.ZERO) for j in range(r_)] for i in range(r_)], dtype=object)
    Tv = mmul(Vv, Dv, dagm(Vv))
    rpl = ('c10v', {'what': 'povm', 'd': 2, 'nt': 2})
    chk.add('lemma L1 [2x2]: (V D V^dag) S (V D V^dag) == V D (V^dag S V) D V^dag (identity in V, D, S)', [], ir.band_all(eqm(mmul(Tv, Sv_, Tv), mmul(Vv, Dv, mmul(dagm(Vv), Sv_, Vv), Dv, dagm(Vv)))), key='matrix lemma', replay=rpl)
    Wv = A.plain(H.cx_array('cgW', (r_, r_)))
    chk.add('lemma L2a [2x2]: V^dag S V = diag(lambda), D_i^2 lambda_i = 1  =>  D (V^dag S V) D == I',
            eqm(Wv, np.array([[lv[i] if i == j else SC(ir.ZERO) for j in range(r_)] for i in range(r_)], dtype=object)) + [H.eq_sc(dv[i] * dv[i] * lv[i], 1) for i in range(r_)],
            ir.band_all(eqm(mmul(Dv, Wv, Dv), eye_(r_))), key='matrix lemma', replay=rpl)
    Yv = A.plain(H.cx_array('cgY', (r_, r_)))
    chk.add('lemma L2b [2x2]: Y = I, V V^dag = I  =>  V Y V^dag == I', eqm(Yv, eye_(r_)) + eqm(mmul(Vv, dagm(Vv)), eye_(r_)), ir.band_all(eqm(mmul(Vv, Yv, dagm(Vv)), eye_(r_))), key='matrix lemma', replay=rpl)

    # rand_povm(2, 2): sum_n E_n == I, every E_n a Gram matrix
    def povm_block(d, nt):
        chk.configurations += 1
        lam = [S.sc_var(f'pvl{d}{nt}_{j}') for j in range(d)]
        V = H.cx_array(f'pvv{d}{nt}_', (d, d))
        cap, mm_log = [], []

        def eigh_stub(x):
            cap.append(x)
            return A.sym_array(np.array(lam, dtype=object), np.float64), V

        def hook(r, a_, b_):
            mm_log.append((r, a_, b_))
            return r
        fac2 = with_linalg({'eigh': eigh_stub})
        pre = [(l_ > 0).n for l_ in lam]

        def once():
            _FRESH[0] = 0
            TOTAL[0] = 0
            del cap[:], mm_log[:]
            A.MATMUL_HOOK[0] = hook
            try:
                return R.rand_povm(d, nt, seed=SymStream(f'v<povm{d}{nt}>'))
            finally:
                A.MATMUL_HOOK[0] = None
        paths, st = H.run_paths(once, pre, np_facade=fac2, extra_globals=eg, feas_timeout_ms=1000, max_paths=8)
        chk.add_path_stats(st)
        rp = ('c10v', {'what': 'povm', 'd': d, 'nt': nt})
        for pi, path in enumerate(paths):
            if path.status != 'return':
                chk.add(f'rand_povm({d},{nt}) raises {type(path.value).__name__}: {path.value}', pre + path.pc + path.facts, ir.FALSE, key='rand_povm raises', replay=rp)
                continue
            with path.resume():
                ret = A.plain(path.value)
                Bm = np.asarray(mm_log[0][1], dtype=object)            # tmp0 (nt, d, d)
                Cm = np.asarray(mm_log[0][0], dtype=object)            # tmp0 @ tmp0^dag
                Ssum = sum((Cm[n] for n in range(nt)), np.zeros((d, d), dtype=object))
                dm = [S.as_sc(1) / lam[i].maximum(0).sqrt() for i in range(d)]
                Dm = np.array([[dm[i] if i == j else SC(ir.ZERO) for j in range(d)] for i in range(d)], dtype=object)
                Vp = A.plain(V)
                Tm = mmul(Vp, Dm, dagm(Vp))
                base = pre + path.pc + path.facts + [c for k_, c in path.side]      # after the reference terms: their sqrt / reciprocal facts are part of the context
                ok = ret.shape == (nt, d, d) and len(cap) == 1
                chk.add(f'rand_povm({d},{nt}) V1: the matrix handed to eigh is sum_n B_n B_n^dag', base, ir.band_all(eqm(A.plain(cap[0]), Ssum)) if ok else ir.FALSE, key='rand_povm invalid', replay=rp)
                for n in range(nt):
                    chk.add(f'rand_povm({d},{nt}) V2: element {n} == T (B_n B_n^dag) T with T = V D V^dag, D = diag(1/sqrt(lambda)); D_i^2 lambda_i == 1', base,
                            ir.band_all(eqm(ret[n], mmul(Tm, Cm[n], Tm)) + [H.eq_sc(dm[i] * dm[i] * lam[i], 1) for i in range(d)]) if ok else ir.FALSE, key='rand_povm invalid', replay=rp)
                    chk.add(f'rand_povm({d},{nt}) V3: element {n} == (T B_n)(T B_n)^dag (Gram matrix, hence positive semidefinite)', base,
                            ir.band_all(eqm(ret[n], mmul(mmul(Tm, Bm[n]), dagm(mmul(Tm, Bm[n]))))) if ok else ir.FALSE, key='rand_povm invalid', replay=rp)
                chk.add(f'rand_povm({d},{nt}) V4: sum_n T C_n T == T (sum_n C_n) T (the elements add up to T S T; lemmas L1, L2a, L2b give T S T = I)', base,
                        ir.band_all(eqm(sum((ret[n] for n in range(nt)), np.zeros((d, d), dtype=object)), mmul(Tm, Ssum, Tm))) if ok else ir.FALSE, key='rand_povm invalid', replay=rp)
    povm_block(2, 2)

    # rand_haar_unitary(2): Q from QR with column signs
    def unitary_block(d):
        chk.configurations += 1
        Q = H.cx_array(f'huq{d}_', (d, d))
        Rm = H.cx_array(f'hur{d}_', (d, d))
        fac2 = with_linalg({'qr': lambda x, *a_, **k_: (Q, Rm)})

        def once():
            _FRESH[0] = 0
            TOTAL[0] = 0
            return R.rand_haar_unitary(d, seed=SymStream(f'v<unitary{d}>'))
        paths, st = H.run_paths(once, [], np_facade=fac2, extra_globals=eg, feas_timeout_ms=1000, max_paths=64)
        chk.add_path_stats(st)
        rp = ('c10v', {'what': 'unitary', 'd': d})
        Qp = A.plain(Q)
        qq = eqm(mmul(dagm(Qp), Qp), eye_(d))
        for pi, path in enumerate(paths):
            if path.status != 'return':
                chk.add(f'rand_haar_unitary({d}) raises {type(path.value).__name__}: {path.value}', path.pc + path.facts, ir.FALSE, key='rand_haar_unitary raises', replay=rp)
                continue
            with path.resume():
                U = A.plain(path.value)
                base = path.pc + path.facts
                # column j of the result is +/- column j of Q
                cl = []
                for j in range(d):
                    plus = ir.band_all(H.eq_sc(U[i, j], Qp[i, j]) for i in range(d))
                    minus = ir.band_all(H.eq_sc(U[i, j], -S.as_sc(Qp[i, j])) for i in range(d))
                    cl.append(ir.bor(plus, minus))
                chk.add(f'rand_haar_unitary({d}) U1: every column is +/- the column of Q (path {pi})', base, ir.band_all(cl), key='rand_haar_unitary invalid', replay=rp)
        ph = [S.sc_var(f'huph{d}_{j}') for j in range(d)]
        Ph = np.array([[ph[i] if i == j else SC(ir.ZERO) for j in range(d)] for i in range(d)], dtype=object)
        Gv = A.plain(H.cx_array(f'huG{d}_', (d, d)))
        chk.add(f'lemma U2 [{d}x{d}]: (Q P)^dag (Q P) == P (Q^dag Q) P for a real diagonal P (identity)', [], ir.band_all(eqm(mmul(dagm(mmul(Qp, Ph)), mmul(Qp, Ph)), mmul(Ph, mmul(dagm(Qp), Qp), Ph))), key='matrix lemma', replay=rp)
        chk.add(f'lemma U3 [{d}x{d}]: Q^dag Q = I, P_j^2 = 1  =>  P (Q^dag Q) P == I', eqm(Gv, eye_(d)) + [H.eq_sc(ph[j] * ph[j], 1) for j in range(d)], ir.band_all(eqm(mmul(Ph, Gv, Ph), eye_(d))), key='matrix lemma', replay=rp)
    # rand_kraus_op(nt, 2, dout): K_n = z_n W with W = inv(V sqrt(D))^dag, (D, V) = eigh(Z^dag Z): sum_n K_n^dag K_n == W^dag (Z^dag Z) W == I
    def kraus_block(nt, din, dout):
        chk.configurations += 1
        lam = [S.sc_var(f'krl{nt}{din}{dout}_{j}') for j in range(din)]
        V = H.cx_array(f'krv{nt}{din}{dout}_', (din, din))
        cap, mm_log = [], []

        def eigh_stub(x):
            cap.append(x)
            return A.sym_array(np.array(lam, dtype=object), np.float64), V

        def inv_stub(x):
            return adj_inv(x)

        def hook(r, a_, b_):
            mm_log.append((r, a_, b_))
            return r
        fac2 = with_linalg({'eigh': eigh_stub, 'inv': inv_stub})
        pre = [(l_ > 0).n for l_ in lam]

        def once():
            _FRESH[0] = 0
            TOTAL[0] = 0
            del cap[:], mm_log[:]
            A.MATMUL_HOOK[0] = hook
            try:
                return R.rand_kraus_op(nt, din, dout, seed=SymStream(f'v<kraus{nt}{din}{dout}>'))
            finally:
                A.MATMUL_HOOK[0] = None
        try:
            paths, st = H.run_paths(once, pre, np_facade=fac2, extra_globals=eg, feas_timeout_ms=1000, max_paths=8)
        except S.EngineError as e:
            chk.engine_error(f'rand_kraus_op({nt},{din},{dout})', e)
            return
        chk.add_path_stats(st)
        rp = ('c10v', {'what': 'kraus', 'nt': nt, 'din': din, 'dout': dout})
        for pi, path in enumerate(paths):
            if path.status != 'return':
                chk.add(f'rand_kraus_op({nt},{din},{dout}) raises {type(path.value).__name__}: {path.value}', pre + path.pc + path.facts, ir.FALSE, key='rand_kraus_op raises', replay=rp)
                continue
            with path.resume():
                Kr = A.plain(path.value)
                Zt = np.asarray(mm_log[0][2], dtype=object)              # Z = z0.reshape(-1, din): second operand of the first product Z^dag Z
                Vp = A.plain(V)
                E = np.array([[S.as_sc(Vp[i, j]) * lam[j].sqrt() for j in range(din)] for i in range(din)], dtype=object)     # V sqrt(D)
                Wm = dagm(A.plain(adj_inv(A.wrap(E.copy()))))
                base = pre + path.pc + path.facts + [c for k_, c in path.side]
                ok = Kr.shape == (nt, dout, din) and len(cap) == 1 and Zt.shape == (nt * dout, din)
                chk.add(f'rand_kraus_op({nt},{din},{dout}) K1: the matrix handed to eigh is Z^dag Z (Z = stacked draws)', base, ir.band_all(eqm(A.plain(cap[0]), mmul(dagm(Zt), Zt))) if ok else ir.FALSE, key='rand_kraus_op invalid', replay=rp)
                if ok:
                    Zr = Zt.reshape(nt, dout, din)
                    for n in range(nt):
                        chk.add(f'rand_kraus_op({nt},{din},{dout}) K2: K_{n} == z_{n} W with W = inv(V sqrt(D))^dag', base, ir.band_all(eqm(Kr[n], mmul(Zr[n], Wm))), key='rand_kraus_op invalid', replay=rp)
        # generic lemmas: K3 sum_n (z_n W)^dag (z_n W) == W^dag (Z^dag Z) W ; K4: A = E E^dag => inv(E) A inv(E)^dag == I
        Zg = A.plain(H.cx_array(f'kgZ{nt}{din}{dout}_', (nt * dout, din)))
        Wg = A.plain(H.cx_array(f'kgW{nt}{din}{dout}_', (din, din)))
        Zgr = Zg.reshape(nt, dout, din)
        chk.add(f'lemma K3 [{nt},{din},{dout}]: sum_n (z_n W)^dag (z_n W) == W^dag (Z^dag Z) W (identity)', [],
                ir.band_all(eqm(sum((mmul(dagm(mmul(Zgr[n], Wg)), mmul(Zgr[n], Wg)) for n in range(nt)), np.zeros((din, din), dtype=object)), mmul(dagm(Wg), mmul(dagm(Zg), Zg), Wg))), key='matrix lemma', replay=rp)
        if din == 2:
            Eg = A.plain(H.cx_array('kgE', (2, 2)))
            Eig = A.plain(adj_inv(A.wrap(Eg.copy())))
            cg = S.ctx()
            chk.add('lemma K4 [2x2]: E invertible  =>  inv(E) (E E^dag) inv(E)^dag == I (adjugate inverse; with the eigh contract A = (V sqrt D)(V sqrt D)^dag this is W^dag A W = I)',
                    [c for k_, c in cg.side if k_ == 'div'] + list(cg.facts), ir.band_all(eqm(mmul(Eig, mmul(Eg, dagm(Eg)), dagm(Eig)), eye_(2))), key='matrix lemma', replay=rp)
    kraus_block(2, 2, 2)
    # rand_choi_op(2, 2, rank): C = (T (x) I) G G^dag (T (x) I) with T = V D V^dag from eigh(Tr_out G G^dag): Gram (PSD) and Tr_out C = T (Tr_out GG^dag) T = I
    def choi_block(din, dout, rank):
        chk.configurations += 1
        lam = [S.sc_var(f'chl{din}{dout}{rank}_{j}') for j in range(din)]
        V = H.cx_array(f'chv{din}{dout}{rank}_', (din, din))
        cap, mm_log = [], []

        def eigh_stub(x):
            cap.append(x)
            return A.sym_array(np.array(lam, dtype=object), np.float64), V

        def hook(r, a_, b_):
            mm_log.append((r, a_, b_))
            return r
        fac2 = with_linalg({'eigh': eigh_stub})
        pre = [(l_ > 0).n for l_ in lam]

        def once():
            _FRESH[0] = 0
            TOTAL[0] = 0
            del cap[:], mm_log[:]
            A.MATMUL_HOOK[0] = hook
            try:
                return R.rand_choi_op(din, dout, rank, seed=SymStream(f'v<choi{din}{dout}{rank}>'))
            finally:
                A.MATMUL_HOOK[0] = None
        try:
            paths, st = H.run_paths(once, pre, np_facade=fac2, extra_globals=eg, feas_timeout_ms=1000, max_paths=8)
        except S.EngineError as e:
            chk.engine_error(f'rand_choi_op({din},{dout},{rank})', e)
            return
        chk.add_path_stats(st)
        rp = ('c10v', {'what': 'choi', 'din': din, 'dout': dout, 'rank': rank})
        N0 = din * dout
        for pi, path in enumerate(paths):
            if path.status != 'return':
                chk.add(f'rand_choi_op({din},{dout},{rank}) raises {type(path.value).__name__}: {path.value}', pre + path.pc + path.facts, ir.FALSE, key='rand_choi_op raises', replay=rp)
                continue
            with path.resume():
                C = A.plain(path.value)
                Gm = np.asarray(mm_log[0][1], dtype=object)            # tmp0 (N0, rank)
                GG = np.asarray(mm_log[0][0], dtype=object)            # tmp0 tmp0^dag
                tr_out = np.array([[sum((S.as_sc(GG[a * dout + b, c * dout + b]) for b in range(dout)), SC(ir.ZERO)) for c in range(din)] for a in range(din)], dtype=object)
                dm = [S.as_sc(1) / S.as_sc(0).maximum(lam[i]).sqrt() for i in range(din)]
                Dm = np.array([[dm[i] if i == j else SC(ir.ZERO) for j in range(din)] for i in range(din)], dtype=object)
                Vp = A.plain(V)
                Tm = mmul(Vp, Dm, dagm(Vp))
                TI = np.kron(Tm, eye_(dout))
                base = pre + path.pc + path.facts + [c for k_, c in path.side]
                ok = C.shape == (N0, N0) and len(cap) == 1 and Gm.shape == (N0, rank)
                chk.add(f'rand_choi_op({din},{dout},{rank}) C1: the matrix handed to eigh is Tr_out(G G^dag)', base, ir.band_all(eqm(A.plain(cap[0]), tr_out)) if ok else ir.FALSE, key='rand_choi_op invalid', replay=rp)
                chk.add(f'rand_choi_op({din},{dout},{rank}) C2: C == (T (x) I) G G^dag (T (x) I) with T = V D V^dag, D_i^2 lambda_i == 1', base,
                        ir.band_all(eqm(C, mmul(TI, GG, TI)) + [H.eq_sc(dm[i] * dm[i] * lam[i], 1) for i in range(din)]) if ok else ir.FALSE, key='rand_choi_op invalid', replay=rp)
                chk.add(f'rand_choi_op({din},{dout},{rank}) C3: C == ((T (x) I) G)((T (x) I) G)^dag (Gram matrix, hence positive semidefinite)', base,
                        ir.band_all(eqm(C, mmul(mmul(TI, Gm), dagm(mmul(TI, Gm))))) if ok else ir.FALSE, key='rand_choi_op invalid', replay=rp)
        # generic: Tr_out[(T (x) I) X (T (x) I)] == T (Tr_out X) T   (then lemmas L1, L2a, L2b give I)
        Xg = A.plain(H.cx_array(f'chX{din}{dout}_', (N0, N0)))
        Tg = A.plain(H.cx_array(f'chT{din}{dout}_', (din, din)))
        TIg = np.kron(Tg, eye_(dout))
        Yg = mmul(TIg, Xg, TIg)
        tr = lambda Mx: np.array([[sum((S.as_sc(Mx[a * dout + b, c * dout + b]) for b in range(dout)), SC(ir.ZERO)) for c in range(din)] for a in range(din)], dtype=object)
        chk.add(f'lemma C4 [{din}x{dout}]: Tr_out[(T (x) I) X (T (x) I)] == T (Tr_out X) T (identity)', [], ir.band_all(eqm(tr(Yg), mmul(Tg, tr(Xg), Tg))), key='matrix lemma', replay=rp)
    choi_block(2, 2, 2)
    # rand_separable_dm: the returned matrix IS sum_i p_i A_i (x) B_i with the local states the local generators returned (spied), p_i >= 0 summing to one
    def separable_block(dA, dB, k, pure):
        import numqi.random._internal as RI
        chk.configurations += 1
        calls = []
        real_state, real_dm = RI.rand_haar_state, RI.rand_density_matrix

        def spy_state(dim, *a_, **k_):
            r = real_state(dim, *a_, **k_)
            calls.append(('ket', dim, r))
            return r

        def spy_dm(dim, *a_, **k_):
            r = real_dm(dim, *a_, **k_)
            calls.append(('dm', dim, r))
            return r
        eg2 = {k_: dict(v_) for k_, v_ in eg.items()}
        eg2.setdefault('numqi.random._internal', {}).update({'rand_haar_state': spy_state, 'rand_density_matrix': spy_dm})

        udraws = []

        def once():
            _FRESH[0] = 0
            TOTAL[0] = 0
            del calls[:], udraws[:]
            stm = SymStream(f'v<sep{dA}{dB}{k}{int(pure)}>')
            orig_u = stm.uniform

            def rec_u(*a_, **k_):
                r = orig_u(*a_, **k_)
                if not udraws:
                    udraws.append(r.copy() if hasattr(r, 'copy') else r)      # the first uniform draw of the generator: the unnormalised weights
                return r
            stm.uniform = rec_u
            return R.rand_separable_dm(dA, dB, k=k, pure_term=pure, seed=stm)
        try:
            paths, st = H.run_paths(once, [], np_facade=fac, extra_globals=eg2, feas_timeout_ms=1000, max_paths=8)
        except S.EngineError as e:
            chk.engine_error(f'rand_separable_dm({dA},{dB},{k},{pure})', e)
            return
        chk.add_path_stats(st)
        rp = ('c10v', {'what': 'separable', 'dA': dA, 'dB': dB, 'k': k, 'pure': pure})
        for pi, path in enumerate(paths):
            if path.status != 'return':
                chk.add(f'rand_separable_dm({dA},{dB},k={k},pure_term={pure}) raises {type(path.value).__name__}: {path.value}', path.pc + path.facts, ir.FALSE, key='rand_separable_dm raises', replay=rp)
                continue
            with path.resume():
                rho = A.plain(path.value)
                base = path.pc + path.facts + [c for k_, c in path.side]
                want_kind = 'ket' if pure else 'dm'
                ok = len(calls) == 2 * k and all(c_[0] == want_kind for c_ in calls) and all(calls[2 * i][1] == dA and calls[2 * i + 1][1] == dB for i in range(k)) and rho.shape == (dA * dB, dA * dB)
                if not ok:
                    chk.add(f'rand_separable_dm({dA},{dB},k={k},pure_term={pure}): built from k pairs of local states of dimensions dimA, dimB', base, ir.FALSE, key='rand_separable_dm not a mixture of product states', replay=rp)
                    continue
                loc = []
                for kind_, dim_, r_ in calls:
                    v_ = A.plain(r_) if isinstance(r_, A.SymArray) else np.asarray(r_, dtype=object)
                    loc.append(np.outer(v_, np.array([S.as_sc(x).conjugate() for x in v_], dtype=object)) if kind_ == 'ket' else v_)
                prods = [np.kron(loc[2 * i], loc[2 * i + 1]) for i in range(k)]
                ok2 = len(udraws) == 1 and np.shape(udraws[0]) == (k,)
                if not ok2:
                    chk.add(f'rand_separable_dm({dA},{dB},k={k},pure_term={pure}): weights come from one uniform draw of size k', base, ir.FALSE, key='rand_separable_dm not a mixture of product states', replay=rp)
                    continue
                u = [S.as_sc(x) for x in A.plain(udraws[0])]
                tot = _sumw(u)
                w = [x / tot for x in u]
                base = path.pc + path.facts + [c for k_, c in path.side]
                ident = eqm(rho, sum((w[i] * prods[i] for i in range(k)), np.zeros(rho.shape, dtype=object)))
                chk.add(f'rand_separable_dm({dA},{dB},k={k},pure_term={pure}): rho == sum_i w_i A_i (x) B_i with w_i = u_i / sum u (u the uniform draws, A_i, B_i the local states drawn), w_i >= 0, sum w_i == 1', base,
                        ir.band_all(ident + [(w_ >= 0).n for w_ in w] + [H.eq_sc(_sumw(w), 1)]), key='rand_separable_dm not a mixture of product states', replay=rp)

    def _sumw(ws):
        out = SC(ir.ZERO)
        for x in ws:
            out = out + x
        return out
    # rand_hermitian_matrix(d, eig=(a, b)): U diag(lambda) U^dag with lambda drawn uniformly from [a, b] (the stream contract bounds the draws; U from rand_special_orthogonal_matrix)
    def hermitian_eig_block(d, a, b):
        import numqi.random._internal as RI
        chk.configurations += 1
        ucalls, Us = [], []
        Uarb = H.cx_array(f'heU{d}_', (d, d))
        eg2 = {k_: dict(v_) for k_, v_ in eg.items()}
        eg2.setdefault('numqi.random._internal', {}).update({'rand_special_orthogonal_matrix': lambda dim, *a_, **k_: Uarb})

        def once():
            _FRESH[0] = 0
            TOTAL[0] = 0
            del ucalls[:]
            stm = SymStream(f'v<herm{d}>')
            orig_u = stm.uniform

            def rec_u(low=0.0, high=1.0, size=None):
                r = orig_u(low, high, size)
                ucalls.append((low, high, size, r.copy() if hasattr(r, 'copy') else r))
                return r
            stm.uniform = rec_u
            return R.rand_hermitian_matrix(d, eig=(a, b), seed=stm)
        try:
            paths, st = H.run_paths(once, [], np_facade=fac, extra_globals=eg2, feas_timeout_ms=1000, max_paths=8)
        except S.EngineError as e:
            chk.engine_error(f'rand_hermitian_matrix({d}, eig=({a},{b}))', e)
            return
        chk.add_path_stats(st)
        rp = ('c10v', {'what': 'herm_eig', 'd': d, 'a': a, 'b': b})
        for pi, path in enumerate(paths):
            if path.status != 'return':
                chk.add(f'rand_hermitian_matrix({d}, eig=({a},{b})) raises {type(path.value).__name__}: {path.value}', path.pc + path.facts, ir.FALSE, key='rand_hermitian_matrix raises', replay=rp)
                continue
            with path.resume():
                Hm = A.plain(path.value)
                ok = len(ucalls) == 1 and (float(ucalls[0][0]), float(ucalls[0][1])) == (float(a), float(b)) and np.shape(ucalls[0][3]) == (d,) and Hm.shape == (d, d)
                if not ok:
                    chk.add(f'rand_hermitian_matrix({d}, eig=({a},{b})): the eigenvalues are one uniform draw of size d from [a, b]', path.pc + path.facts, ir.FALSE, key='rand_hermitian_matrix spectrum outside the requested range', replay=rp)
                    continue
                lamv = [S.as_sc(x) for x in A.plain(ucalls[0][3])]
                Up = A.plain(Uarb)
                ref = mmul(np.array([[S.as_sc(Up[i, j]) * lamv[j] for j in range(d)] for i in range(d)], dtype=object), dagm(Up))
                chk.add(f'rand_hermitian_matrix({d}, eig=({a},{b})): result == U diag(lambda) U^dag with lambda the uniform draws from [{a}, {b}] (U the matrix returned by rand_special_orthogonal_matrix)',
                        path.pc + path.facts, ir.band_all(eqm(Hm, ref)), key='rand_hermitian_matrix spectrum outside the requested range', replay=rp)
    hermitian_eig_block(2, 1, 2)
    hermitian_eig_block(2, -3, -1)
    separable_block(2, 2, 2, True)
    separable_block(2, 2, 2, False)
    unitary_block(2)
    if not quick:
        unitary_block(3)
        povm_block(2, 3)
    chk.extra['paths_truncated_by_draw_budget'] = TRUNCATED[0]
    chk.extra['generators_with_exploration_truncated_at_64_paths'] = PATH_TRUNC[0]
    chk.bound(draw_budget=f'{SymStream.BUDGET} draw calls per stream and path, {2 * SymStream.BUDGET} over all streams of one execution (rejection loops unrolled that far); at most 65 paths per generator (beyond that the explored paths are still checked)')
    chk.solve(timeout_s=60 if quick else 300)
