"""symbolic random streams: stand-ins for numpy Generator / random.Random used through numqi.random.get_numpy_rng etc."""
import numpy as np
import numqi
from symnp import ir, scalars as S, arrays as A


class SymRng:
    """a numpy-Generator look-alike whose draws are fresh symbolic values named stream!k"""

    def __init__(self, name):
        self.name = name
        self.k = 0
        self.draws = []

    def _fresh(self, tag):
        self.k += 1
        return f'{self.name}_{tag}{self.k}'

    def integers(self, low, high=None, size=None, dtype=np.int64, endpoint=False):
        if high is None:
            low, high = 0, low
        if (low, high) != (0, 2):
            raise S.EngineError('SymRng.integers only models draws from {0,1}')
        shape = () if size is None else ((size,) if isinstance(size, int) else tuple(size))
        out = np.empty(shape, dtype=object)
        for idx in np.ndindex(*shape):
            v = S.bit_var(self._fresh('b'), dtype)
            out[idx] = v
            self.draws.append(v)
        if shape == ():
            return out[()]
        return A.wrap(out, dtype)


def rng_globals():
    """numqi.random helpers pass a SymRng through unchanged"""
    real = numqi.random._public.get_numpy_rng

    def get_numpy_rng(seed=None):
        if isinstance(seed, SymRng):
            return seed
        return real(seed)
    repl = {}
    import sys
    for name, mod in sys.modules.items():
        if name.startswith('numqi') and getattr(mod, 'get_numpy_rng', None) is real:
            repl[name] = {'get_numpy_rng': get_numpy_rng}
    return repl
