"""C11 - measurement is a valid projective measurement on any qubit subset."""
import itertools
import random
import numpy as np
import numqi
from symnp import ir, scalars as S, arrays as A, facade
from symnp.scalars import SC
from . import common as H
from .C03 import embed, born, mv

TOL = 1e-9


class ChoiceRng:
    """numpy Generator stand-in: choice(n, p=prob) returns ANY index whose probability is positive (forked per outcome)"""

    def __init__(self, name):
        self.name = name
        self.k = 0
        self.outcomes = []

    def choice(self, n, p=None, **kw):
        ex = S.ctx().explorer
        self.k += 1
        o = ex.choose(int(n), f'{self.name}{self.k}')
        ex.assume(S.as_sb(p[o] > 0).n)
        self.outcomes.append(o)
        return o


def rng_globals(stub_holder):
    real = numqi.random._public.get_numpy_rng

    def get_numpy_rng(seed=None):
        if isinstance(seed, ChoiceRng):
            return seed
        return real(seed)
    import sys
    repl = {}
    for name, mod in sys.modules.items():
        if name.startswith('numqi') and getattr(mod, 'get_numpy_rng', None) is real:
            repl[name] = {'get_numpy_rng': get_numpy_rng}
    return repl


def project(q, subset, outcome, n):
    """projection of q (object array) onto the outcome (int, big-endian over subset) of the measured qubits"""
    q = A.plain(q)
    out = np.empty(len(q), dtype=object)
    k = len(subset)
    for r in range(len(q)):
        bits_ = [(r >> (n - 1 - t)) & 1 for t in subset]
        o = 0
        for b in bits_:
            o = o * 2 + b
        out[r] = q[r] if o == outcome else 0
    return out


def replay(p):
    q = H.from_payload_cx(p, 'q')
    n, subset = p['n'], tuple(p['subset'])
    nrm = np.linalg.norm(q)
    if nrm < 1e-12:
        # the obligation did not constrain the state (pure identity): any state is a counterexample candidate
        g = np.random.default_rng(12345)
        q = g.normal(size=2 ** n) + 1j * g.normal(size=2 ** n)
        nrm = np.linalg.norm(q)
    q = q / nrm
    msgs = []
    for seed in range(p.get('seeds', 12)):
        try:
            bitstr, prob, q2 = numqi.sim.state.measure_quantum_vector(q, subset, seed)
        except Exception as e:
            return True, f'measure_quantum_vector raises {type(e).__name__}: {e} for n={n}, index={subset}'
        ref = np.asarray(born(q, list(subset), n), dtype=float)
        if not H.close(prob, ref, TOL):
            return True, f'probabilities differ from Born marginals n={n} index={subset}'
        o = int(''.join(map(str, bitstr)), 2)
        if len(bitstr) != len(subset) or ref[o] <= 0:
            return True, f'outcome {bitstr} has zero probability / wrong length'
        proj = np.asarray(project(q, subset, o, n), dtype=complex) / np.sqrt(ref[o])
        if not H.close(q2, proj, 1e-8):
            return True, f'post-measurement state is not the normalised projection (n={n}, index={subset}, outcome={bitstr})'
        b2, p2, q3 = numqi.sim.state.measure_quantum_vector(q2, subset, seed + 100)
        if b2 != bitstr or abs(p2[o] - 1) > 1e-8 or not H.close(q3, q2, 1e-8):
            return True, f'repeated measurement not idempotent (n={n}, index={subset})'
    return False, 'consistent'


def replay_circuit(p):
    n = p['n']
    q = H.from_payload_cx(p, 'q')
    q = q / np.linalg.norm(q)
    U1, U2 = H.from_payload_cx(p, 'U1'), H.from_payload_cx(p, 'U2')
    sub = tuple(p['subset'])
    for seed in range(8):
        circ = numqi.sim.Circuit()
        circ.single_qubit_gate(U1, p['a'])
        g = circ.measure(sub, seed=seed)
        circ.single_qubit_gate(U2, p['b'])
        hist = p.get('hist')
        a_, b_ = p['a'], p['b']
        if hist:
            circ.apply_state(q)                      # earlier use of the same circuit object
            if hist == 'shift':
                circ.shift_qubit_index_(1)
                a_, b_, sub = a_ + 1, b_ + 1, tuple(x + 1 for x in sub)
        elif circ.num_qubit != n:
            return False, 'circuit does not touch the last qubit'
        out = circ.apply_state(q)
        p = dict(p, a=a_, b=b_)
        mid = embed(U1, (p['a'],), n) @ q
        ref = np.asarray(born(mid, list(sub), n), dtype=float)
        if not H.close(g.probability, ref, TOL):
            return True, 'MeasureGate.probability is not the Born marginal of the state at that point of the circuit'
        o = int(''.join(map(str, g.bitstr)), 2)
        want = embed(U2, (p['b'],), n) @ (np.asarray(project(mid, sub, o, n), dtype=complex) / np.sqrt(ref[o]))
        if not H.close(out, want, 1e-8):
            return True, 'state after the circuit is not U2 . projection . U1 . q'
    return False, 'consistent'


REPLAYERS = {'c11': replay, 'c11c': replay_circuit}


def run(chk):
    quick = chk.tier == 'quick'
    rng = random.Random(chk.seed)
    chk.fn('numqi.sim.state.measure_quantum_vector', 'numqi.sim.state._measure_quantum_vector_hf0', 'numqi.sim.circuit.MeasureGate.forward', 'numqi.sim.Circuit.apply_state (with measure)')
    for k, v in REPLAYERS.items():
        chk.register_replayer(k, v)
    chk.stub('numpy Generator.choice(n, p=prob) -> any index k with prob[k] > 0 (forked per outcome); get_numpy_rng passes the stub through')
    n_crash = 5 if quick else 6
    n_full = 2 if quick else 3
    n_proj = 4 if quick else 5      # post-measurement state == normalised projection (identity, no second measurement) up to this size
    chk.bound(post_measurement_state=f'all subsets for n<={n_proj} plus multi-run subsets of n={n_proj + 1}', crash_free_and_marginals=f'all 2^n-1 ascending subsets for n<=({n_crash})', projection_and_repeat=f'n<={n_full}, every outcome', states='arbitrary complex unit vectors (||q||=1 assumed), fully symbolic')
    chk.out_of_claim('n above the bounds; float rounding (exact-real model): near-zero probabilities')
    extra = rng_globals(None)
    for n in range(1, n_crash + 1):
        q = H.cx_array(f'q{n}', 2 ** n)
        unit = H.eq_sc(H.norm2(q), 1)
        for r in range(1, n + 1):
            for subset in itertools.combinations(range(n), r):
                chk.configurations += 1
                full = n <= n_full
                proj_only = (not full) and (n <= n_proj or (n == n_proj + 1 and subset in ((1, 3), (0, 2, 4), (1, 2, 4), (2, 4), (1, 4))))
                stub = ChoiceRng(f'o{n}_' + ''.join(map(str, subset)) + '_')

                def f_m(stub=stub, subset=subset, full=full):
                    stub.k = 0
                    stub.outcomes = []
                    bitstr, prob, q2 = numqi.sim.state.measure_quantum_vector(q, subset, stub)
                    res = {'bitstr': bitstr, 'prob': prob, 'q2': q2, 'o': stub.outcomes[0]}
                    if full:
                        b2, p2, q3 = numqi.sim.state.measure_quantum_vector(q2, subset, stub)
                        res.update(b2=b2, p2=p2, q3=q3, o2=stub.outcomes[1])
                    return res
                try:
                    paths, st = H.run_paths(f_m, [unit], extra_globals=extra, feas_timeout_ms=300)
                except S.EngineError as e:
                    chk.engine_error(f'measure n={n} subset={subset}', e)
                    continue
                chk.add_path_stats(st)
                rp = ('c11', lambda m, q=q, n=n, subset=subset: H.payload_cx(m, {'q': q}, n=n, subset=list(subset)))
                ref = born(q, list(subset), n)
                for pi, path in enumerate(paths):
                    pre = [unit] + path.pc + path.facts
                    if path.status != 'return':
                        chk.add(f'measure_quantum_vector raises {type(path.value).__name__} [n={n},index={subset}]', pre, ir.FALSE,
                                key=f'measure_quantum_vector raises {type(path.value).__name__}', replay=rp)
                        continue
                    v = path.value
                    o = v['o']
                    prob = A.plain(v['prob'])
                    want_bits = [int(c) for c in bin(o)[2:].rjust(len(subset), '0')]
                    shape_ok = ir.bconst(list(v['bitstr']) == want_bits and len(prob) == 2 ** len(subset))
                    # the probability vector does not depend on the sampled outcome: identities without assumptions, per path
                    chk.add(f'probabilities == Born marginals; bitstr == outcome bits [n={n},index={subset},outcome={o}]', path.facts,
                            ir.band(ir.band_all(H.eq_sc(a, b) for a, b in zip(prob, ref)), shape_ok), key='measure_quantum_vector probabilities', replay=rp)
                    if pi == 0:
                        for k_, a in enumerate(prob):
                            chk.add(f'probability[{k_}] >= 0 [n={n},index={subset}]', path.facts, ir.rcmp('le', ir.ZERO, S.as_sc(a).re), key='measure_quantum_vector negative probability', replay=rp)
                        chk.add(f'probabilities sum to 1 for unit vectors [n={n},index={subset}]', [unit] + path.facts, H.eq_sc(sum((S.as_sc(a) for a in prob), SC(ir.ZERO)), 1),
                                key='measure_quantum_vector probabilities do not sum to 1', replay=rp)
                    if proj_only:
                      with path.resume():
                        sp_ = S.as_sc(prob[o]).sqrt()
                        proj = project(q, subset, o, n)
                        q2 = A.plain(v['q2'])
                        chk.add(f'q2 == projection/sqrt(p) [n={n},index={subset},outcome={o}] (all entries)', pre + path.facts,
                                ir.band_all(H.eq_sc(S.as_sc(q2[j]), S.as_sc(proj[j]) / sp_) for j in range(len(q2))), key='measure_quantum_vector post-measurement state', replay=rp)
                    if full:
                      with path.resume():
                        sp_ = S.as_sc(prob[o]).sqrt()
                        proj = project(q, subset, o, n)
                        q2 = A.plain(v['q2'])
                        for j in range(len(q2)):
                            chk.add(f'q2 == projection/sqrt(p) [n={n},index={subset},outcome={o}] entry {j}', pre + path.facts, H.eq_sc(S.as_sc(q2[j]), S.as_sc(proj[j]) / sp_),
                                    key='measure_quantum_vector post-measurement state', replay=rp)
                        chk.add(f'||q2|| == 1 [n={n},index={subset},outcome={o}]', pre + path.facts, H.eq_sc(H.norm2(q2), 1), key='measure_quantum_vector post-measurement norm', replay=rp)
                        p2 = A.plain(v['p2'])
                        same = ir.bconst(v['o2'] == o and v['b2'] == v['bitstr'])
                        chk.add(f'second measurement: same outcome, probability 1 [n={n},index={subset},outcome={o}]', pre + path.facts, ir.band(same, H.eq_sc(p2[o], 1)),
                                key='measure_quantum_vector repeat outcome', replay=rp)
                        q3 = A.plain(v['q3'])
                        for j in range(len(q3)):
                            chk.add(f'second measurement leaves the state unchanged [n={n},index={subset},outcome={o}] entry {j}', pre + path.facts, H.eq_sc(q3[j], q2[j]),
                                    key='measure_quantum_vector repeat state', replay=rp)
                    chk.add(f'reach [n={n},index={subset},path={pi}]', pre, ir.TRUE, kind='reach')
                if full:
                    # every outcome index is reachable for some state (varying the seed reaches every outcome with positive probability)
                    outs = {p_.value['o'] for p_ in paths if p_.status == 'return'}
                    chk.add(f'every outcome reachable [n={n},index={subset}]', [], ir.bconst(outs == set(range(2 ** len(subset)))), key='measure_quantum_vector unreachable outcome', replay=rp)
    # ---- MeasureGate inside a circuit: symbolic gates before and after
    cfgs = [(2, 0, (1,), 1, None), (2, 1, (0, 1), 0, None), (3, 0, (0,), 1, 'shift'), (2, 0, (1,), 1, 'rerun')]
    if not quick:
        cfgs += [(3, 2, (0, 2), 1, None), (3, 0, (1,), 2, None), (3, 1, (0, 1), 0, 'shift'), (3, 0, (0, 2), 1, 'rerun'), (4, 0, (0, 2), 1, 'shift')]
    for n, a, sub, b, hist in cfgs:
        q = H.cx_array(f'cq{n}{hist}', 2 ** n)
        # gate matrices and state fully symbolic (the identities below do not need unitarity or normalisation:
        # probabilities are then the unnormalised marginals, and out*sqrt(p_o) = U2 P_o U1 q)
        unit = c1 = c2 = ir.TRUE
        U1 = H.cx_array(f'u1{n}{a}', (2, 2))
        U2 = H.cx_array(f'u2{n}{b}', (2, 2))
        stub = ChoiceRng(f'c{n}{a}{b}_')
        chk.configurations += 1

        def f_c(stub=stub, n=n, a=a, sub=sub, b=b, U1=U1, U2=U2, q=q, hist=hist):
            stub.k = 0
            stub.outcomes = []
            circ = numqi.sim.Circuit()
            circ.single_qubit_gate(U1, a)
            g = circ.measure(sub, seed=stub)
            circ.single_qubit_gate(U2, b)
            if hist:
                circ.apply_state(q)                  # history: the same circuit object was used before ...
                if hist == 'shift':
                    circ.shift_qubit_index_(1)       # ... and moved to the next qubits (state of the same size)
            out = circ.apply_state(q)
            return out, g.bitstr, g.probability, stub.outcomes[-1]
        try:
            paths, st = H.run_paths(f_c, [unit, c1, c2], extra_globals=extra, feas_timeout_ms=300)
        except S.EngineError as e:
            chk.engine_error(f'circuit measure n={n}', e)
            continue
        chk.add_path_stats(st)
        rp = ('c11c', lambda m, q=q, U1=U1, U2=U2, n=n, a=a, b=b, sub=sub, hist=hist: H.payload_cx(m, {'q': q, 'U1': U1, 'U2': U2}, n=n, a=a, b=b, subset=list(sub), hist=hist))
        if hist == 'shift':                          # what the second run must do
            a, b, sub = a + 1, b + 1, tuple(x + 1 for x in sub)
        for pi, path in enumerate(paths):
            pre = [unit, c1, c2] + path.pc + path.facts
            if path.status != 'return':
                chk.add(f'Circuit with measure raises {type(path.value).__name__} [n={n}]', pre, ir.FALSE, key='Circuit measure raises', replay=rp)
                continue
            out, bitstr, prob, o = path.value
            mid = mv(embed(U1, (a,), n), q)
            ref = born(mid, list(sub), n)
            cl = [H.eq_sc(x, y) for x, y in zip(A.plain(prob), ref)]
            cl.append(ir.bconst(list(bitstr) == [int(c) for c in bin(o)[2:].rjust(len(sub), '0')]))
            chk.add(f'MeasureGate records Born marginals of the state at its position [n={n},a={a},index={sub},outcome={o},history={hist}]', pre, ir.band_all(cl), key='MeasureGate probability/bitstr', replay=rp)
            with path.resume():
                sp_ = S.as_sc(A.plain(prob)[o]).sqrt()
                want = [S.as_sc(y) / sp_ for y in mv(embed(U2, (b,), n), project(mid, sub, o, n))]
            for j, (x, y) in enumerate(zip(A.plain(out), want)):
                chk.add(f'circuit output == U2.P_o.U1.q / sqrt(p) [n={n},a={a},index={sub},outcome={o},history={hist}] entry {j}', pre + path.facts, H.eq_sc(S.as_sc(x), y), key='Circuit measure state', replay=rp)
    chk.solve(timeout_s=60 if quick else 300)
