"""C09 - Sp(2n,F2) indexing is a bijection onto the symplectic group."""
import itertools
import random
import os
import numpy as np
import numqi
import numqi.group.spf2 as sp
from symnp import ir, scalars as S, arrays as A, facade
from symnp.scalars import BVS
from . import common as H
from .C07 import symplectic_constraints, eq_arr, bits

U8 = np.uint8
I64 = np.int64


# ---------------------------------------------------------------- bit-blast stubs for the two C-boundary helpers
def stub_int_to_bitarray(i, n):
    """little-endian bits of i (symbolic int64 or concrete) as uint8 array of length n"""
    if not isinstance(i, BVS):
        return REAL_I2B(i, n)
    w = i.n.sort[1]
    out = [BVS(ir.bvext(ir.bvextract(i.n, k, k), 8, False), U8) if k < w else S.bv_const(0, U8) for k in range(n)]
    return A.sym_array(out, U8)


def stub_bitarray_to_int(b):
    if not isinstance(b, A.SymArray) or A.is_all_const(b):
        return REAL_B2I(A.to_concrete(b) if isinstance(b, A.SymArray) else b)
    p = A.plain(b)
    r = ir.bvconst(0, 64)
    for k, e in enumerate(p):
        nz = S.as_sb(e).n       # packbits semantics: non-zero counts as 1
        r = ir.bvbin('bvor', r, ir.bvbin('bvshl', ir.bvext(ir.rite(nz, ir.bvconst(1, 1), ir.bvconst(0, 1)), 64, False), ir.bvconst(k, 64)))
    return BVS(r, I64)


REAL_I2B = sp.int_to_bitarray
REAL_B2I = sp.bitarray_to_int


def validate_stubs():
    bad = []
    for n in range(1, 13):
        for i in range(2 ** n):
            real = REAL_I2B(i, n)
            v = S.bv_const(i, I64)
            got = A.to_concrete(stub_int_to_bitarray(v, n))
            if not np.array_equal(real, got):
                bad.append(('int_to_bitarray', i, n))
            b = A.sym_array([S.bv_const(int(x), U8) for x in real], U8)
            # force the symbolic branch by wrapping one element in a trivially symbolic term? constants fold: evaluate IR path directly
            p = A.plain(b)
            r = 0
            for k, e in enumerate(p):
                r |= (1 if e.const_value() else 0) << k
            if r != REAL_B2I(real):
                bad.append(('bitarray_to_int', i, n))
    return bad


STUBS = {'numqi.group.spf2': {'int_to_bitarray': stub_int_to_bitarray, 'bitarray_to_int': stub_bitarray_to_int}}


def digits(name, n):
    base = sp.get_number(n, 'base')
    t = tuple(S.bv_var(f'{name}{k}', I64) for k in range(2 * n))
    rng = []
    for v, b in zip(t, base):
        rng += [(v >= 0).n, (v < b).n]
    return t, rng


# ---------------------------------------------------------------- replay
def replay(p):
    what = p['what']
    if what == 'tuple':
        t = tuple(int(x) for x in p['t'])
        n = len(t) // 2
        M = sp.from_int_tuple(t)
        lam = np.kron(np.array([[0, 1], [1, 0]]), np.eye(n, dtype=int))
        symp = np.array_equal((M.T.astype(int) @ lam @ M.astype(int)) % 2, lam)
        back = sp.to_int_tuple(M)
        bad = (not symp) or tuple(int(x) for x in back) != t or M.dtype != U8
        return bad, f'from_int_tuple({t}) symplectic={symp}, to_int_tuple gives {tuple(int(x) for x in back)}'
    if what == 'matrix':
        M = np.array(p['M'], dtype=U8)
        n = M.shape[0] // 2
        try:
            M_in = M.copy()
            t = sp.to_int_tuple(M_in)
            if not np.array_equal(M_in, M):
                return True, f'to_int_tuple modified its argument: {M.tolist()} became {M_in.tolist()}'
            base = sp.get_number(n, 'base')
            inr = all(0 <= int(x) < b for x, b in zip(t, base))
            back = sp.from_int_tuple(t)
            bad = (not inr) or (not np.array_equal(back, M))
            return bad, f'to_int_tuple({M.tolist()}) = {tuple(int(x) for x in t)} in range={inr}; from_int_tuple of it = {np.asarray(back).tolist()}'
        except Exception as e:
            return True, f'to_int_tuple raised {type(e).__name__}: {e} on symplectic {M.tolist()}'
    if what == 'inverse':
        M = np.array(p['M'], dtype=U8)
        Mi = sp.inverse(M)
        I = np.eye(M.shape[0], dtype=int)
        bad = not (np.array_equal((M.astype(int) @ Mi.astype(int)) % 2, I) and np.array_equal((Mi.astype(int) @ M.astype(int)) % 2, I))
        return bad, f'inverse({M.tolist()}) is not a two-sided inverse'
    if what == 'transvection':
        v0, v1 = np.array(p['v0'], dtype=U8), np.array(p['v1'], dtype=U8)
        try:
            h = sp.find_transvection(v0, v1)
            got = sp.transvection(v0, *h)
            return (not np.array_equal(got, v1)), f'find_transvection({v0.tolist()},{v1.tolist()}) maps v0 to {np.asarray(got).tolist()}'
        except Exception as e:
            return True, f'find_transvection raised {type(e).__name__}: {e}'
    if what == 'order':
        n = p['n']
        base = sp.get_number(n, 'base')
        pr = 1
        for b in base:
            pr *= b
        want = 1
        for k in range(1, n + 1):
            want *= (4 ** k - 1) * 2 ** (2 * k - 1)
        return (sp.get_number(n, 'order') != pr or pr != want or np.prod(sp.get_number(n, 'coset'), dtype=object) != pr), f'get_number({n}) inconsistent'
    raise ValueError(what)


REPLAYERS = {'c09': replay}


def tpay(model, t):
    return {'what': 'tuple', 't': [int(model.get(v.n.val, 0)) for v in t]}


def mpay(model, arrs, what):
    out = {'what': what}
    for k, a in arrs.items():
        out[k] = H.eval_array(a, H.model_env(model, [a])).tolist()
    return out


class SymPyRandom:
    """random.Random look-alike: randint(a,b) returns a fresh symbolic integer with a <= v <= b"""

    def __init__(self, name):
        self.name = name
        self.k = 0
        self.cons = []
        self.calls = []

    def randint(self, a, b):
        v = S.bv_var(f'{self.name}{self.k}', I64)
        self.k += 1
        self.cons += [(v >= a).n, (v <= b).n]
        self.calls.append((a, b))
        return v


def run(chk):
    quick = chk.tier == 'quick'
    rng = random.Random(chk.seed)
    chk.fn('numqi.group.spf2.from_int_tuple', 'numqi.group.spf2.to_int_tuple', 'numqi.group.spf2.find_transvection', 'numqi.group.spf2.transvection',
           'numqi.group.spf2.get_inner_product', 'numqi.group.spf2.inverse', 'numqi.group.spf2.get_number', 'numqi.random.rand_SpF2')
    chk.register_replayer('c09', replay)
    bad = validate_stubs()
    if bad:
        chk.engine_error('stub validation', RuntimeError(f'bit-blast stubs disagree with the real functions: {bad[:3]}'))
        return
    chk.stub('numqi.group.spf2.int_to_bitarray / bitarray_to_int -> little-endian bits of a 64-bit vector (validated exhaustively against the real functions for widths 1..12 on this run)')
    nmax = 2 if quick else 3
    tmax = 2 if quick else 3
    chk.bound(n_tuple=f'1..{nmax} (digits symbolic, constrained only to be below their base; n=3: the base-63 digit is enumerated - all 63 values thorough, the extreme values 0 and 62 quick)', n_matrix=f'1..{min(nmax, 2)} (symbolic symplectic matrix)',
              n_transvection=f'1..{tmax} (all ordered pairs of non-zero vectors)')
    chk.out_of_claim('n above the bounds; schmidt_orthogonalization; Python big-int overflow of int_to_bitarray (digits are assumed in range)')
    # ---- get_number
    for n in range(1, 11):
        ok, what = replay({'what': 'order', 'n': n})
        chk.add(f'get_number({n}): order == prod(base) == prod (4^k-1) 2^(2k-1) == prod(coset)', [], ir.bconst(not ok), key='get_number', replay=('c09', {'what': 'order', 'n': n}))
    # ---- transvection lemma
    for n in range(1, tmax + 1):
        v0, v1 = bits(f'a{n}', 2 * n), bits(f'b{n}', 2 * n)
        nz = [ir.bor_all(S.as_sb(e).n for e in H.elems(v0)), ir.bor_all(S.as_sb(e).n for e in H.elems(v1))]

        def f_tv():
            h = sp.find_transvection(v0, v1)
            return h, sp.transvection(v0, *h)
        paths, st = H.run_paths(f_tv, nz, extra_globals=STUBS)
        chk.add_path_stats(st)
        chk.configurations += 1
        rp = ('c09', lambda m, v0=v0, v1=v1: mpay(m, {'v0': v0, 'v1': v1}, 'transvection'))
        for pi, path in enumerate(paths):
            if path.status != 'return':
                chk.add(f'find_transvection raises {type(path.value).__name__} on non-zero vectors [n={n}] path {pi}', nz + path.pc, ir.FALSE, key='find_transvection raises', replay=rp)
                continue
            h, got = path.value
            ok = tuple(h.shape) == (2, 2 * n) and h.dtype == U8
            chk.add(f'transvection(v0, *find_transvection(v0,v1)) == v1 [n={n}] path {pi}', nz + path.pc, ir.band(eq_arr(got, v1), ir.bconst(ok)) if ok else ir.FALSE, key='find_transvection does not map v0 to v1', replay=rp)
    # ---- tuple -> matrix -> tuple
    def tuple_block(c, n, fixed=None):
        """fixed: {digit index: concrete value} (partition of the digit domain; the other digits stay symbolic)"""
        t, inr = digits(f't{n}_', n)
        t = tuple(S.bv_const(int(fixed[k]), I64) if fixed and k in fixed else v for k, v in enumerate(t))
        tagf = '' if not fixed else ' ' + ','.join(f'digit{k}={v}' for k, v in sorted(fixed.items()))

        def f_t():
            M = sp.from_int_tuple(t)
            return M, sp.to_int_tuple(M)
        paths, st = H.run_paths(f_t, inr, extra_globals=STUBS)
        c.add_path_stats(st)
        c.configurations += 1
        rp = ('c09', lambda m, t=t: {'what': 'tuple', 't': [int(v.const_value()) if v.isconst else int(m.get(v.n.val, 0)) for v in t]})
        for pi, path in enumerate(paths):
            pre = inr + path.pc
            if path.status != 'return':
                c.add(f'from_int_tuple/to_int_tuple raises {type(path.value).__name__} for in-range digits [n={n}{tagf}] path {pi}', pre, ir.FALSE, key='from_int_tuple raises', replay=rp)
                continue
            M, back = path.value
            symp = ir.band_all(symplectic_constraints(M, n))
            binary = ir.band_all(S.as_sb(e <= 1).n for e in H.elems(M))
            rt = ir.band_all(S.as_sb(a == b).n for a, b in zip(back, t)) if len(back) == len(t) else ir.FALSE
            c.add(f'from_int_tuple(t) is a symplectic 0/1 uint8 matrix and to_int_tuple inverts it [n={n}{tagf}] path {pi}', pre,
                  ir.band(ir.band(symp, binary), ir.band(rt, ir.bconst(M.dtype == U8))), key='from_int_tuple not symplectic / not injective', replay=rp)
        c.add(f'reach tuple [n={n}{tagf}]', inr, ir.TRUE, kind='reach')
    focus = os.environ.get('VERIF_C09_FOCUS', '')      # seed evaluation only: 'matrix' runs the matrix -> tuple -> matrix block alone (never set by the registered commands)
    for n in range(1, min(nmax, 2) + 1) if focus != 'matrix' else ():
        tuple_block(chk, n)
    if nmax < 3 and focus != 'matrix':
        # quick tier: two slices of the n=3 domain - the base-63 digit at its extreme values 0 and 62, the other five digits symbolic (boundary labels are where
        # case analyses slip); the full n=3 domain is the thorough tier
        base3 = sp.get_number(3, 'base')
        kbig = max(range(len(base3)), key=lambda k: base3[k])
        chk.run_partitioned([(f'n=3 digit{kbig}={v}', (lambda c, v=v: tuple_block(c, 3, {kbig: v}))) for v in (0, base3[kbig] - 1)], timeout_s=60)
    if nmax >= 3:
        # n=3 (1,451,520 tuples): the digit with the largest base (63) is enumerated, the other five stay symbolic; one forked child per value.
        # Together with get_number (|tuples| == |Sp(6,2)|) injectivity of the round trip gives bijectivity for n=3.
        base3 = sp.get_number(3, 'base')
        kbig = max(range(len(base3)), key=lambda k: base3[k])
        chk.run_partitioned([(f'n=3 digit{kbig}={v}', (lambda c, v=v: tuple_block(c, 3, {kbig: v}))) for v in range(base3[kbig])], timeout_s=120)
    # ---- matrix -> tuple -> matrix (surjectivity), inverse
    for n in range(1, min(nmax, 2) + 1):
        M = bits(f'm{n}', (2 * n, 2 * n))
        symp = symplectic_constraints(M, n)
        base = sp.get_number(n, 'base')

        def f_m():
            Mc = M.copy()                    # the array object handed to the code (fresh per execution); the caller keeps using it afterwards
            t = sp.to_int_tuple(Mc)
            return t, sp.from_int_tuple(t), Mc
        paths, st = H.run_paths(f_m, symp, extra_globals=STUBS)
        chk.add_path_stats(st)
        chk.configurations += 1
        rp = ('c09', lambda m, M=M: mpay(m, {'M': M}, 'matrix'))
        for pi, path in enumerate(paths):
            pre = symp + path.pc
            if path.status != 'return':
                chk.add(f'to_int_tuple raises {type(path.value).__name__} on a symplectic matrix [n={n}] path {pi}', pre, ir.FALSE, key='to_int_tuple raises', replay=rp)
                continue
            t, back, Mc = path.value
            inrange = ir.band_all(ir.band(S.as_sb(v >= 0).n, S.as_sb(v < b).n) for v, b in zip(t, base))
            chk.add(f'to_int_tuple(M) in range and from_int_tuple inverts it, all symplectic M [n={n}] path {pi}', pre, ir.band(inrange, eq_arr(back, M)), key='to_int_tuple not inverse / out of range', replay=rp)
            chk.add(f"to_int_tuple(M) leaves the caller's array M unchanged, all symplectic M [n={n}] path {pi}", pre, eq_arr(Mc, M), key='to_int_tuple modifies its argument', replay=rp)
        with facade.patched():
            Mi = sp.inverse(M)
        prod1 = (np.dot(A.plain(M), A.plain(Mi))) % 2
        prod2 = (np.dot(A.plain(Mi), A.plain(M))) % 2
        I = np.eye(2 * n, dtype=int)
        chk.add(f'inverse(M) is a two-sided inverse, all symplectic M [n={n}]', symp,
                ir.band_all(S.as_sb(a == int(b)).n for a, b in zip(list(prod1.reshape(-1)) + list(prod2.reshape(-1)), list(I.reshape(-1)) * 2)), key='inverse not two-sided',
                replay=('c09', lambda m, M=M: mpay(m, {'M': M}, 'inverse')))
        chk.add(f'reach matrix [n={n}]', symp, ir.TRUE, kind='reach')
    # ---- rand_SpF2: every draw gives from_int_tuple of in-range digits
    for n in (1, 2):
        prng = SymPyRandom(f'rs{n}_')
        real_get = numqi.random._public.get_random_rng
        repl = dict(STUBS)
        repl['numqi.random._spf2'] = {'get_random_rng': lambda seed=None: seed if isinstance(seed, SymPyRandom) else real_get(seed)}
        base = sp.get_number(n, 'base')
        # run once outside the explorer to learn the draw constraints, then explore under them
        cons_holder = []

        def f_r():
            prng.k = 0
            prng.cons = []
            prng.calls = []
            r = numqi.random.rand_SpF2(n, return_kind='int_tuple-matrix', seed=prng)
            cons_holder[:] = [list(prng.cons), list(prng.calls)]
            return r
        inr = []
        for k, b in enumerate(base):
            v = S.bv_var(f'rs{n}_{k}', I64)
            inr += [(v >= 0).n, (v <= b - 1).n]
        paths, st = H.run_paths(f_r, inr, extra_globals=repl)
        chk.add_path_stats(st)
        chk.configurations += 1
        for pi, path in enumerate(paths):
            pre = inr + path.pc
            if path.status != 'return':
                chk.add(f'rand_SpF2 raises {type(path.value).__name__} [n={n}] path {pi}', pre, ir.FALSE, key='rand_SpF2 raises', replay=('c09', {'what': 'order', 'n': n}))
                continue
            t, M = path.value
            bounds_ok = cons_holder[1] == [(0, b - 1) for b in base]
            chk.add(f'rand_SpF2({n}) draws digits in [0,base) and returns a symplectic matrix for every draw [path {pi}]', pre,
                    ir.band(ir.band_all(symplectic_constraints(M, n)), ir.bconst(bounds_ok)), key='rand_SpF2 invalid', replay=('c09', lambda m, t=t: tpay(m, t)))
    chk.stub('random.Random.randint(a,b) -> fresh symbolic integer with a<=v<=b (rand_SpF2 only)')
    chk.solve(timeout_s=60 if quick else 600)
