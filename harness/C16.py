"""C16 - Gell-Mann coordinates are an orthogonal-basis isomorphism (NumPy backend)."""
from fractions import Fraction
import numpy as np
import numqi
from symnp import ir, scalars as S, arrays as A, facade
from symnp.scalars import SC
from . import common as H
from . import torchsup as TS

TOL = 1e-9


def textbook_basis(d):
    """generalised Gell-Mann matrices in the documented order (X-like i<j row-major, Y-like, diagonal, identity),
    exact algebraic entries; written independently of numqi."""
    mats = []
    Z = lambda: np.full((d, d), 0, dtype=object)
    for i in range(d):
        for j in range(i + 1, d):
            m = Z()
            m[i, j] = 1
            m[j, i] = 1
            mats.append(m)
    for i in range(d):
        for j in range(i + 1, d):
            m = Z()
            m[i, j] = SC(ir.ZERO, ir.MONE)
            m[j, i] = SC(ir.ZERO, ir.ONE)
            mats.append(m)
    for l in range(1, d):
        c = SC(S.sqrt_fraction(Fraction(2, l * (l + 1))))
        m = Z()
        for k in range(l):
            m[k, k] = c
        m[l, l] = c * (-l)
        mats.append(m)
    m = Z()
    c = SC(S.sqrt_fraction(Fraction(2, d)))
    for k in range(d):
        m[k, k] = c
    mats.append(m)
    return mats


def numeric_basis(d):
    mats = []
    for i in range(d):
        for j in range(i + 1, d):
            m = np.zeros((d, d), complex); m[i, j] = 1; m[j, i] = 1; mats.append(m)
    for i in range(d):
        for j in range(i + 1, d):
            m = np.zeros((d, d), complex); m[i, j] = -1j; m[j, i] = 1j; mats.append(m)
    for l in range(1, d):
        m = np.zeros((d, d), complex)
        c = np.sqrt(2 / (l * (l + 1)))
        for k in range(l):
            m[k, k] = c
        m[l, l] = -l * c
        mats.append(m)
    mats.append(np.eye(d, dtype=complex) * np.sqrt(2 / d))
    return np.stack(mats)


def _c(p, key):
    a = np.array(p[key], dtype=float)
    return a[..., 0] + 1j * a[..., 1]


BACKEND = {
    'matrix_to_gellmann_basis': lambda a, t: numqi.gellmann.matrix_to_gellmann_basis(a[0]),
    'gellmann_basis_to_matrix': lambda a, t: numqi.gellmann.gellmann_basis_to_matrix(a[0]),
    'dm_to_gellmann_basis': lambda a, t: numqi.gellmann.dm_to_gellmann_basis(a[0]),
    'dm_to_gellmann_basis(with_rho0)': lambda a, t: numqi.gellmann.dm_to_gellmann_basis(a[0], with_rho0=True),
    'gellmann_basis_to_dm': lambda a, t: numqi.gellmann.gellmann_basis_to_dm(a[0]),
    'get_density_matrix_distance2': lambda a, t: numqi.gellmann.get_density_matrix_distance2(a[0], a[1]),
}


def replay(p):
    what, d = p['what'], p['d']
    if what == 'backend':
        arrs = [_c(p, k) for k in p['names']]
        if p.get('real'):
            arrs = [np.real(a) for a in arrs]
        bad, msg = TS.replay_backend(BACKEND[p['fn']], arrs)
        return bad, f"{p['fn']} d={d} (shapes {[a.shape for a in arrs]}): {msg}"
    G = numeric_basis(d)
    if what == 'basis':
        got = numqi.gellmann.all_gellmann_matrix(d)
        return (not H.close(got, G, TOL)), f'all_gellmann_matrix({d}) differs from the documented basis'
    if what in ('m2v_expand', 'roundtrip_m'):
        Am = _c(p, 'A')
        if p.get('real_dtype'):
            Am = np.ascontiguousarray(Am.real, dtype=np.float64)       # a real-dtype (not merely real-valued) matrix
        v = numqi.gellmann.matrix_to_gellmann_basis(Am)
        if what == 'm2v_expand':
            rec = np.einsum('i,ijk->jk', v, G)
        else:
            rec = numqi.gellmann.gellmann_basis_to_matrix(v)
        return (not H.close(rec, Am, TOL)), f'{what} d={d}: reconstruction error {np.max(np.abs(rec - Am)):.3g}'
    if what == 'roundtrip_v':
        w = _c(p, 'w')
        got = numqi.gellmann.matrix_to_gellmann_basis(numqi.gellmann.gellmann_basis_to_matrix(w))
        return (not H.close(got, w, TOL)), f'vector->matrix->vector d={d}: error {np.max(np.abs(got - w)):.3g}'
    if what == 'v2m_expand':
        w = _c(p, 'w')
        got = numqi.gellmann.gellmann_basis_to_matrix(w)
        rec = np.einsum('i,ijk->jk', w, G)
        return (not H.close(got, rec, TOL)), f'gellmann_basis_to_matrix != sum w_i G_i, d={d}'
    if what == 'batch':
        Am = _c(p, 'A')
        got = numqi.gellmann.matrix_to_gellmann_basis(Am)
        ref = np.stack([numqi.gellmann.matrix_to_gellmann_basis(x) for x in Am.reshape(-1, d, d)]).reshape(Am.shape[:-2] + (d * d,))
        bad = not H.close(got, ref, TOL)
        got2 = numqi.gellmann.gellmann_basis_to_matrix(got)
        bad |= not H.close(got2, Am, TOL)
        return bad, f'batched call differs from per-sample calls, shape={Am.shape}'
    if what in ('dm_roundtrip', 'dm_norm', 'dm_dist'):
        rho = _c(p, 'rho')
        b = numqi.gellmann.dm_to_gellmann_basis(rho)
        if what == 'dm_roundtrip':
            got = numqi.gellmann.gellmann_basis_to_dm(b)
            return (not H.close(got, rho, TOL)), f'Bloch round trip d={d}'
        if what == 'dm_norm':
            got = numqi.gellmann.dm_to_gellmann_norm(rho)
            return (abs(got ** 2 - np.sum(b ** 2)) > TOL), f'dm_to_gellmann_norm^2 {got**2} != |bloch|^2 {np.sum(b**2)}'
        sig = _c(p, 'sigma')
        b2 = numqi.gellmann.dm_to_gellmann_basis(sig)
        got = numqi.gellmann.get_density_matrix_distance2(rho, sig)
        return (abs(got - np.sum((b - b2) ** 2)) > TOL), 'get_density_matrix_distance2 != |bloch difference|^2'
    raise ValueError(what)


REPLAYERS = {'gm': replay}


def payload(model, arrs, **kw):
    out = dict(kw)
    for key, a in arrs.items():
        env = H.model_env(model, [a])
        v = H.eval_array(a, env)
        out[key] = np.stack([np.real(v), np.imag(v)], axis=-1).tolist()
    return out


def run(chk):
    quick = chk.tier == 'quick'
    chk.fn('numqi.gellmann.gellmann_matrix', 'numqi.gellmann.all_gellmann_matrix', 'numqi.gellmann.matrix_to_gellmann_basis',
           'numqi.gellmann.gellmann_basis_to_matrix', 'numqi.gellmann.dm_to_gellmann_basis', 'numqi.gellmann.gellmann_basis_to_dm',
           'numqi.gellmann.dm_to_gellmann_norm', 'numqi.gellmann.get_density_matrix_distance2')
    chk.register_replayer('gm', replay)
    dims = [2, 3, 4, 5] if quick else [2, 3, 4, 5, 6, 7]
    chk.bound(d=dims, soft='d=7 diagonal-entry identities are soft obligations (a solver time-out is reported, not counted as a pass or a failure)', matrices='arbitrary complex d x d, fully symbolic', batch_shapes='(), (2,), (2,2) for d<=3', tensor_n='1 (all d), 2 (d=2)')
    chk.out_of_claim('float32; d above the bound; float rounding; torch.scatter with duplicate indices (not produced by this code: checked on every call)')
    ctx = S.new_ctx()
    gm = numqi.gellmann
    with facade.patched():
        for d in dims:
            chk.configurations += 1
            T = textbook_basis(d)
            G = gm.all_gellmann_matrix(d)
            Gp = A.plain(G) if isinstance(G, A.SymArray) else G
            # 1. basis: equals the documented (textbook) basis, Hermitian, Tr(GiGj) = 2 delta  (ground, exact radicals)
            for i in range(d * d):
                eqs = ir.band_all(H.eq_sc(Gp[i][r, c], T[i][r, c]) for r in range(d) for c in range(d))
                chk.add(f'all_gellmann_matrix[d={d}][{i}] == documented basis element', ctx.facts, eqs,
                        key='all_gellmann_matrix order/values', replay=('gm', {'what': 'basis', 'd': d}))
            for i in range(d * d):
                cl = []
                for j in range(i, d * d):
                    tr = SC(ir.ZERO)
                    for r in range(d):
                        for c in range(d):
                            tr = tr + S.as_sc(Gp[i][r, c]) * S.as_sc(Gp[j][c, r])
                    cl.append(H.eq_sc(tr, 2 if i == j else 0))
                herm = [H.eq_sc(S.as_sc(Gp[i][r, c]), S.as_sc(Gp[i][c, r]).conjugate()) for r in range(d) for c in range(d)]
                chk.add(f'Tr(G_{i} G_j)=2 delta, Hermitian [d={d}]', ctx.facts, ir.band_all(cl + herm),
                        key='all_gellmann_matrix orthogonality', replay=('gm', {'what': 'basis', 'd': d}))
            # 2. analysis / synthesis on a symbolic matrix
            Am = H.cx_array(f'a{d}', (d, d))
            v = gm.matrix_to_gellmann_basis(Am)
            vp = A.plain(v)
            rec2 = gm.gellmann_basis_to_matrix(v)
            for r in range(d):
                for c in range(d):
                    acc = SC(ir.ZERO)
                    for i in range(d * d):
                        acc = acc + S.as_sc(vp[i]) * S.as_sc(T[i][r, c])
                    soft = 'probe_forall' if (d >= 7 and r == c) else 'forall'      # d=7 diagonal entries mix six nested radicals: z3 may time out (reported as soft unknowns)
                    chk.add(f'sum_i v_i G_i == A [d={d}][{r},{c}]', ctx.facts, H.eq_sc(acc, Am[r, c]), key='matrix_to_gellmann_basis coefficients', kind=soft, timeout_s=None if soft == 'forall' else 120,
                            replay=('gm', lambda m, Am=Am, d=d: payload(m, {'A': Am}, what='m2v_expand', d=d)))
                    chk.add(f'basis_to_matrix(matrix_to_basis(A)) == A [d={d}][{r},{c}]', ctx.facts, H.eq_sc(rec2[r, c], Am[r, c]),
                            key='gellmann round trip matrix->vector->matrix', kind=soft, timeout_s=None if soft == 'forall' else 120,
                            replay=('gm', lambda m, Am=Am, d=d: payload(m, {'A': Am}, what='roundtrip_m', d=d)))
            # 2b. the same for a matrix of real dtype (float64 array, in general not symmetric): its antisymmetric part needs imaginary coefficients
            if d <= 4:
                Ar = H.re_array(f'ar{d}', (d, d))
                vr = gm.matrix_to_gellmann_basis(Ar)
                vrp = A.plain(vr)
                recr = gm.gellmann_basis_to_matrix(vr)
                for r in range(d):
                    for c in range(d):
                        acc = SC(ir.ZERO)
                        for i in range(d * d):
                            acc = acc + S.as_sc(vrp[i]) * S.as_sc(T[i][r, c])
                        chk.add(f'sum_i v_i G_i == A for A of real dtype [d={d}][{r},{c}]', ctx.facts, ir.band(H.eq_sc(acc, Ar[r, c]), H.eq_sc(recr[r, c], Ar[r, c])),
                                key='matrix_to_gellmann_basis coefficients (real dtype)',
                                replay=('gm', lambda m, Ar=Ar, d=d: payload(m, {'A': Ar}, what='m2v_expand', d=d, real_dtype=True)))
            w = H.cx_array(f'w{d}', d * d)
            M = gm.gellmann_basis_to_matrix(w)
            w2 = gm.matrix_to_gellmann_basis(M)
            Mp = A.plain(M)
            for i in range(d * d):
                chk.add(f'matrix_to_basis(basis_to_matrix(w)) == w [d={d}][{i}]', ctx.facts, H.eq_sc(w2[i], w[i]),
                        key='gellmann round trip vector->matrix->vector',
                        replay=('gm', lambda m, w=w, d=d: payload(m, {'w': w}, what='roundtrip_v', d=d)))
            for r in range(d):
                for c in range(d):
                    acc = SC(ir.ZERO)
                    for i in range(d * d):
                        acc = acc + S.as_sc(w[i]) * S.as_sc(T[i][r, c])
                    chk.add(f'basis_to_matrix(w) == sum_i w_i G_i [d={d}][{r},{c}]', ctx.facts, H.eq_sc(Mp[r, c], acc),
                            key='gellmann_basis_to_matrix synthesis',
                            replay=('gm', lambda m, w=w, d=d: payload(m, {'w': w}, what='v2m_expand', d=d)))
            # 3. batches equal per-sample calls
            if d <= 3:
                for bshape in ((2,), (2, 2)):
                    Ab = H.cx_array(f'b{d}', bshape + (d, d))
                    vb = gm.matrix_to_gellmann_basis(Ab)
                    per = [gm.matrix_to_gellmann_basis(x) for x in Ab.reshape(-1, d, d)]
                    cl = [H.eq_sc(a, b) for a, b in zip(H.elems(vb), H.elems(per))]
                    back = gm.gellmann_basis_to_matrix(vb)
                    cl += [H.eq_sc(a, b) for a, b in zip(H.elems(back), H.elems(Ab))]
                    ok_shape = tuple(vb.shape) == bshape + (d * d,) and tuple(back.shape) == bshape + (d, d)
                    chk.add(f'batch {bshape} == per-sample [d={d}]', ctx.facts, ir.band_all(cl) if ok_shape else ir.FALSE,
                            key='gellmann batch != per-sample',
                            replay=('gm', lambda m, Ab=Ab, d=d: payload(m, {'A': Ab}, what='batch', d=d)))
            # 4. density-matrix helpers on a symbolic Hermitian trace-one matrix
            if d <= (4 if quick else 5):
                rho = H.herm_array(f'r{d}', d)
                tr1 = H.eq_sc(sum((rho[k, k] for k in range(d)), SC(ir.ZERO)), 1)
                b = gm.dm_to_gellmann_basis(rho)
                back = gm.gellmann_basis_to_dm(b)
                for r in range(d):
                    for c in range(d):
                        chk.add(f'gellmann_basis_to_dm(dm_to_gellmann_basis(rho)) == rho [d={d}][{r},{c}]', ctx.facts + [tr1],
                                H.eq_sc(back[r, c], rho[r, c]), key='Bloch vector round trip',
                                replay=('gm', lambda m, rho=rho, d=d: payload(m, {'rho': rho}, what='dm_roundtrip', d=d)))
                nrm = gm.dm_to_gellmann_norm(rho)
                n2 = S.as_sc(nrm) * S.as_sc(nrm)
                s2 = SC(ir.ZERO)
                for e in H.elems(b):
                    s2 = s2 + S.as_sc(e) * S.as_sc(e)
                chk.add(f'dm_to_gellmann_norm^2 == |bloch|^2 [d={d}]', ctx.facts + [tr1], H.eq_sc(n2, s2), key='dm_to_gellmann_norm',
                        replay=('gm', lambda m, rho=rho, d=d: payload(m, {'rho': rho}, what='dm_norm', d=d)))
                sig = H.herm_array(f's{d}', d)
                tr1s = H.eq_sc(sum((sig[k, k] for k in range(d)), SC(ir.ZERO)), 1)
                dist = gm.get_density_matrix_distance2(rho, sig)
                b2 = gm.dm_to_gellmann_basis(sig)
                s2 = SC(ir.ZERO)
                for e, f in zip(H.elems(b), H.elems(b2)):
                    dd = S.as_sc(e) - S.as_sc(f)
                    s2 = s2 + dd * dd
                chk.add(f'get_density_matrix_distance2 == |bloch diff|^2 [d={d}]', ctx.facts + [tr1, tr1s], H.eq_sc(dist, s2),
                        key='get_density_matrix_distance2',
                        replay=('gm', lambda m, rho=rho, sig=sig, d=d: payload(m, {'rho': rho, 'sigma': sig}, what='dm_dist', d=d)))
                chk.add(f'reach dm [d={d}]', ctx.facts + [tr1, tr1s], ir.TRUE, kind='reach')
    # ---- PyTorch branches (cumsum / einsum / scatter / diag_embed path) == NumPy branches on the same symbolic input
    import random as _random
    trng = _random.Random(chk.seed + 1)
    for d in dims[:3]:
        def be(fn, arrs, names, real=False, d=d):
            rp = ('gm', lambda m, fn=fn, arrs=arrs, names=names: payload(m, dict(zip(names, arrs)), what='backend', d=d, fn=fn, names=names, real=real))
            TS.backend_equiv(chk, f'{fn} [d={d}, shapes {[tuple(a.shape) for a in arrs]}]', BACKEND[fn], arrs, rp, fn, rng=trng)
        be('matrix_to_gellmann_basis', [H.cx_array(f'ta{d}', (d, d))], ['A'])
        be('gellmann_basis_to_matrix', [H.cx_array(f'tw{d}', d * d)], ['w'])
        be('gellmann_basis_to_matrix', [H.re_array(f'tx{d}', d * d)], ['w'], True)
        be('gellmann_basis_to_dm', [H.re_array(f'tv{d}', d * d - 1)], ['w'], True)
        rho, sig = H.herm_array(f'tr{d}', d), H.herm_array(f'ts{d}', d)
        be('dm_to_gellmann_basis', [rho], ['rho'])
        be('dm_to_gellmann_basis(with_rho0)', [rho], ['rho'])
        be('get_density_matrix_distance2', [rho, sig], ['rho', 'sigma'])
        if d <= 3:
            be('matrix_to_gellmann_basis', [H.cx_array(f'tb{d}', (2, d, d))], ['A'])
            be('gellmann_basis_to_matrix', [H.cx_array(f'tc{d}', (2, d * d))], ['w'])
            be('gellmann_basis_to_dm', [H.re_array(f'td{d}', (2, d * d - 1))], ['w'], True)
            be('dm_to_gellmann_basis', [H.cx_array(f'te{d}', (2, d, d))], ['rho'])
    with facade.patched():
        # 5. tensor_n = 2 (d=2): orthogonality Tr(Gi Gj) = 4 delta
        G2 = gm.all_gellmann_matrix(2, tensor_n=2)
        G2p = A.plain(G2) if isinstance(G2, A.SymArray) else G2
        cl = []
        for i in range(16):
            for j in range(i, 16):
                tr = SC(ir.ZERO)
                for r in range(4):
                    for c in range(4):
                        tr = tr + S.as_sc(G2p[i][r, c]) * S.as_sc(G2p[j][c, r])
                cl.append(H.eq_sc(tr, 4 if i == j else 0))
        chk.add('tensor_n=2 basis orthogonal [d=2]', ctx.facts, ir.band_all(cl), key='all_gellmann_matrix tensor_n=2')
        # encoding validation on concrete inputs
        import random
        rng = random.Random(chk.seed)
        for d in dims[:3]:
            Am = H.cx_array(f'a{d}', (d, d))
            v = gm.matrix_to_gellmann_basis(Am)
            env = H.complete_env(ctx, H.random_env([Am], rng))
            conc = H.eval_array(Am, env)
            got = H.eval_array(v, env)
            facade.clear_caches()
            want = _real_call(lambda: numqi.gellmann.matrix_to_gellmann_basis(conc))
            chk.validation(1, [] if H.close(got, want, 1e-9) else [f'matrix_to_gellmann_basis d={d} symbolic vs real differ'])
    chk.notes_from(ctx)
    chk.assume('float constants sqrt(2/d), sqrt(2/(l(l+1))) computed by the code are lifted to exact algebraic numbers (prime radicals) when they match within 4 ulp')
    chk.solve(timeout_s=60 if quick else 300)


def _real_call(f):
    """run f with the real numpy bound in numqi.gellmann (inside a patched() block)"""
    import numpy as _np
    import numqi.gellmann as g
    saved = g.np
    g.np = _np
    try:
        return f()
    finally:
        g.np = saved
