"""C06 - boundaries are exact thresholds (algebraic slice: interpolation helper, state-space and PPT boundary threshold algebra)."""
import itertools
import random
import numpy as np
import numqi
import numqi.entangle as E
from symnp import ir, scalars as S, arrays as A, facade
from symnp.scalars import SC
from . import common as H

TOL = 1e-8


def rand_dm(d, rng, rank=None):
    M = rng.normal(size=(d, rank or d)) + 1j * rng.normal(size=(d, rank or d))
    rho = M @ M.conj().T
    return rho / np.trace(rho)


def replay(p):
    rng = np.random.default_rng(17)
    what = p['what']
    for trial in range(30):
        if what == 'interp':
            d = p['d']
            rho = rand_dm(d, rng)
            b = float(rng.uniform(-0.3, 0.6))
            out = E.hf_interpolate_dm(rho, beta=b)
            nrm = numqi.gellmann.dm_to_gellmann_norm(out)
            dirv = (out - np.eye(d) / d)
            ref = (rho - np.eye(d) / d)
            bad = abs(nrm - abs(b)) > TOL or abs(np.trace(out) - 1) > TOL or np.abs(dirv * numqi.gellmann.dm_to_gellmann_norm(rho) - b * ref).max() > TOL
        elif what == 'dm_boundary':
            d = p['d']
            rho = rand_dm(d, rng, rank=None if trial % 2 else max(1, d - 1))
            bl, bu = E.get_density_matrix_boundary(rho)
            ok = True
            for beta, side in ((bu, +1), (bl, -1)):
                ev0 = np.linalg.eigvalsh(E.hf_interpolate_dm(rho, beta=beta))
                evin = np.linalg.eigvalsh(E.hf_interpolate_dm(rho, beta=beta * (1 - 1e-4)))
                evout = np.linalg.eigvalsh(E.hf_interpolate_dm(rho, beta=beta * (1 + 1e-4)))
                ok &= abs(ev0.min()) < 1e-9 and evin.min() > 0 and evout.min() < 0
            bad = not ok or not (bl < 0 < bu)
        else:
            dA, dB = p['dims']
            bshape = tuple(p.get('batch', ()))
            within = p.get('within_dm', True)
            B = int(np.prod(bshape)) if bshape else 1
            rhos = [rand_dm(dA * dB, rng) for _ in range(B)]
            arg = np.stack(rhos).reshape(bshape + (dA * dB, dA * dB))
            kw = {'dm_norm': numqi.gellmann.dm_to_gellmann_norm(arg)} if p.get('norm_given') else {}
            try:
                bl_a, bu_a = E.get_ppt_boundary(arg, (dA, dB), within_dm=within, **kw)
            except Exception as e:
                return True, f'{what} {p}: raises {type(e).__name__}: {e}'
            if np.shape(bl_a) != bshape:
                return True, f'{what} {p}: output shape {np.shape(bl_a)}'
            pt = lambda x: x.reshape(dA, dB, dA, dB).transpose(0, 3, 2, 1).reshape(dA * dB, dA * dB)
            mineig = (lambda x: min(np.linalg.eigvalsh(x).min(), np.linalg.eigvalsh(pt(x)).min())) if within else (lambda x: np.linalg.eigvalsh(pt(x)).min())
            ok = True
            for rho, bl, bu in zip(rhos, np.reshape(bl_a, -1), np.reshape(bu_a, -1)):
                for beta in (bu, bl):
                    m0 = mineig(E.hf_interpolate_dm(rho, beta=beta))
                    mi = mineig(E.hf_interpolate_dm(rho, beta=beta * (1 - 1e-4)))
                    mo = mineig(E.hf_interpolate_dm(rho, beta=beta * (1 + 1e-4)))
                    ok &= abs(m0) < 1e-9 and mi > 0 and mo < 0
                ok &= bool(bl < 0 < bu)
            bad = not ok
        if bad:
            return True, f'{what} {p}: reported boundary is not the exact threshold (trial {trial})'
    return False, 'thresholds exact on 30 random states'


REPLAYERS = {'c06': replay}


def run(chk):
    quick = chk.tier == 'quick'
    chk.fn('numqi.entangle.hf_interpolate_dm', 'numqi.entangle.get_density_matrix_boundary', 'numqi.entangle.get_ppt_boundary', 'numqi.gellmann.dm_to_gellmann_norm')
    chk.register_replayer('c06', replay)
    chk.out_of_claim('THE CORE OF THE PROPERTY: every SDP / LP / optimiser based boundary (get_ABk_symmetric_extension_boundary, CHABoundaryBagging, PureBosonicExt, AutodiffCHAREE) and therefore '
                     'the whole ordering beta_CHA <= beta_(k+1)-ext <= beta_k-ext, beta_k-ext+PPT <= beta_PPT <= beta_DM: no solver-based encoding of cvxpy/SCS/HiGHS or of torch optimisation runs exists here; '
                     'the eigenvalues themselves (LAPACK eigvalsh: stubbed by its contract); generalized-PPT boundary (root finding)')
    chk.bound(d='2,3 (interpolation); spectra of size 2..4 (threshold algebra); (dimA,dimB) in {(2,2),(2,3)} for the partial-transpose routing')
    # ---- (a) interpolation helper places the state at Gell-Mann distance |beta| on the ray through rho
    for d in (2, 3):
        chk.configurations += 1
        rho = H.herm_array(f'r{d}_', d)
        tr1 = H.eq_sc(sum((rho[k, k] for k in range(d)), SC(ir.ZERO)), 1)
        b = S.sc_var('beta')
        paths, st = H.run_paths(lambda: (E.hf_interpolate_dm(rho, beta=b), numqi.gellmann.dm_to_gellmann_norm(rho)), [tr1], feas_timeout_ms=2000)
        chk.add_path_stats(st)
        rp = ('c06', {'what': 'interp', 'd': d})
        for pi, path in enumerate(paths):
            if path.status != 'return':
                continue
            out, nrm = path.value
            with path.resume():
                nrm = S.as_sc(nrm)
                nz = ir.bnot(H.eq_sc(nrm, 0))
                pre = [tr1, nz] + path.pc + path.facts
                P, R = A.plain(out), A.plain(rho)
                cl = []
                for i in range(d):
                    for j in range(d):
                        I_ij = (S.as_sc(1) / d) if i == j else SC(ir.ZERO)
                        cl.append(H.eq_sc((S.as_sc(P[i, j]) - I_ij) * nrm, b * (S.as_sc(R[i, j]) - I_ij)))
                chk.add(f'hf_interpolate_dm(rho, beta) - I/d == (beta/|rho|_GM)(rho - I/d)  [d={d}]', pre, ir.band_all(cl), key='hf_interpolate_dm direction', replay=rp)
                n_out = S.as_sc(numqi.gellmann.dm_to_gellmann_norm(out))
                chk.add(f'Gell-Mann distance of hf_interpolate_dm(rho, beta) from I/d equals |beta|  [d={d}]', pre + path.facts, H.eq_sc(n_out * n_out, b * b), key='hf_interpolate_dm distance', replay=rp)
                chk.add(f'reach interp d={d}', pre, ir.TRUE, kind='reach')
    # ---- (b) state-space boundary: threshold algebra with eigvalsh stubbed by sorted symbolic eigenvalues
    for N in (2, 3, 4):
        chk.configurations += 1
        dm = H.herm_array(f'm{N}_', N)
        lam = [S.sc_var(f'lam{N}_{i}') for i in range(N)]
        nrm = S.sc_var(f'gmnorm{N}')
        captured = []

        def eig_stub(x):
            captured.append(x)
            return A.sym_array(np.array(lam, dtype=object).reshape(1, N), np.float64)
        fac = facade.make_np_facade(linalg={'eigvalsh': eig_stub})
        sorted_ = [(lam[i] <= lam[i + 1]).n for i in range(N - 1)]
        tr = H.eq_sc(sum(lam, SC(ir.ZERO)), 1)
        nonflat = [(lam[0] < S.as_sc(1) / N).n, (lam[N - 1] > S.as_sc(1) / N).n, (nrm > 0).n]
        pre0 = sorted_ + [tr] + nonflat
        paths, st = H.run_paths(lambda: E.get_density_matrix_boundary(dm, dm_norm=nrm), pre0, np_facade=fac, feas_timeout_ms=2000)
        chk.add_path_stats(st)
        rp = ('c06', {'what': 'dm_boundary', 'd': N})
        for pi, path in enumerate(paths):
            if path.status != 'return':
                chk.add(f'get_density_matrix_boundary raises {type(path.value).__name__} [N={N}]', pre0 + path.pc + path.facts, ir.FALSE, key='get_density_matrix_boundary raises', replay=rp)
                continue
            bl, bu = (S.as_sc(x) for x in path.value)
            _cm = path.resume()
            _cm.__enter__()          # derived terms (divisions) must share this path's reciprocal variables and facts
            pre = pre0 + path.pc + path.facts + [c for k, c in path.side]
            # spectrum along the ray rho(beta) = I/N + beta (dm - I/N)/norm  is  1/N + beta (lam_i - 1/N)/norm   (spectral mapping: the stub's contract)
            ev = lambda beta, i: S.as_sc(1) / N + beta * (lam[i] - S.as_sc(1) / N) / nrm
            same = ir.bconst(len(captured) >= 1) if not captured else ir.band_all(H.eq_sc(a, b) for a, b in zip(H.elems(captured[-1]), H.elems(dm)))
            chk.add(f'get_density_matrix_boundary: eigen-solver receives dm itself [N={N}]', pre, same, key='get_density_matrix_boundary argument', replay=rp)
            e0, eN = ev(bu, 0), ev(bl, N - 1)
            chk.add(f'beta_u makes the smallest eigenvalue of the interpolated state exactly 0, beta_l the largest-direction one; beta_l < 0 < beta_u [N={N}]', pre + path.facts,
                    ir.band_all([H.eq_sc(e0, 0), H.eq_sc(eN, 0), (bl < 0).n, (bu > 0).n]), key='get_density_matrix_boundary threshold', replay=rp)
            t = S.sc_var(f't{N}')
            inside = [(t > bl).n, (t < bu).n]
            evs = [ev(t, i) for i in range(N)]
            chk.add(f'just inside (beta_l < beta < beta_u) every eigenvalue is positive [N={N}]', pre + path.facts + inside, ir.band_all(ir.rcmp('lt', ir.ZERO, e_.re) for e_ in evs),
                    key='get_density_matrix_boundary not a threshold (inside)', replay=rp)
            outside = [(t > bu).n]
            chk.add(f'just outside (beta > beta_u) the smallest eigenvalue is negative [N={N}]', pre + path.facts + outside, ir.rcmp('lt', evs[0].re, ir.ZERO), key='get_density_matrix_boundary not a threshold (outside)', replay=rp)
            chk.add(f'reach boundary N={N}', pre, ir.TRUE, kind='reach')
            _cm.__exit__(None, None, None)
    chk.stub('np.linalg.eigvalsh -> sorted symbolic eigenvalues of the captured matrix (sum 1, not all equal); spectral mapping of the ray supplied as the contract')
    # ---- (c) PPT boundary: eigvalsh is an uninterpreted function of the matrix it receives (same matrix -> same sorted symbolic spectrum);
    #      the returned pair must be the exact threshold of "PSD and PPT" (within_dm) / "PPT" along the ray, per batch item
    chk.stub('get_ppt_boundary: np.linalg.eigvalsh -> uninterpreted function matrix -> sorted spectrum (memoised on the symbolic entries; contract: sum 1, lam_min < 1/N < lam_max); '
             'spectral mapping along the ray for dm and for its partial transpose')
    for (dA, dB), bshape, within, norm_given in itertools.product(((2, 2), (2, 3)), ((), (2,), (3,)), (True, False), (True, False)):
        if quick and ((dA, dB) == (2, 3) and (bshape == (3,) or not norm_given)):
            continue
        if not norm_given and bshape != ():
            continue
        chk.configurations += 1
        N = dA * dB
        B = int(np.prod(bshape)) if bshape else 1
        tag = f'{dA}{dB}b{B}{"w" if within else "p"}{"n" if norm_given else "c"}'
        dms = [H.herm_array(f'p{tag}_{b}_', N) for b in range(B)]
        dm = A.sym_array(np.stack([A.plain(x) for x in dms]).reshape(bshape + (N, N)), np.complex128)
        nrms = [S.sc_var(f'pn{tag}_{b}') for b in range(B)]
        nrm_arg = (A.sym_array(np.array(nrms, dtype=object).reshape(bshape), np.float64) if bshape else nrms[0]) if norm_given else None
        cfg = f'({dA},{dB}) batch={bshape} within_dm={within} dm_norm={"given" if norm_given else "computed"}'

        def spectrum(mat, N=N):
            """uninterpreted eigvalsh: memo on the entries' term identity (per path context)"""
            c = S.ctx()
            tab = c.__dict__.setdefault('_eig', {})
            key = tuple((S.as_sc(e).re.id, S.as_sc(e).im.id) for e in A.plain(mat).reshape(-1))
            ls = tab.get(key)
            if ls is None:
                k = len(tab)
                ls = [SC(c.fresh(f'eig{k}_{i}')) for i in range(N)]
                c.facts += [(ls[i] <= ls[i + 1]).n for i in range(N - 1)] + [H.eq_sc(sum(ls, SC(ir.ZERO)), 1), (ls[0] < S.as_sc(1) / N).n, (ls[N - 1] > S.as_sc(1) / N).n]
                tab[key] = ls
            return ls

        def eig_stub3(x, spectrum=spectrum, N=N):
            p_ = A.plain(x) if isinstance(x, A.SymArray) else np.asarray(x, dtype=object)
            lead = p_.shape[:-2]
            flat = p_.reshape((-1, N, N))
            out = np.empty((flat.shape[0], N), dtype=object)
            for r in range(flat.shape[0]):
                out[r, :] = spectrum(flat[r])
            return A.sym_array(out.reshape(lead + (N,)), np.float64)
        fac = facade.make_np_facade(linalg={'eigvalsh': eig_stub3})
        pre0 = [(n_ > 0).n for n_ in nrms] if norm_given else [ir.bnot(H.eq_sc(sum((x.real * x.real + x.imag * x.imag for x in (S.as_sc(e) for e in H.elems(dms[0]))), SC(ir.ZERO)), S.as_sc(1) / N))]
        pre0 += [H.eq_sc(sum((S.as_sc(x[k, k]) for k in range(N)), SC(ir.ZERO)), 1) for x in dms]
        try:
            paths, st = H.run_paths(lambda: E.get_ppt_boundary(dm, (dA, dB), dm_norm=nrm_arg, within_dm=within), pre0, np_facade=fac, feas_timeout_ms=1000, max_paths=64)
        except S.EngineError as e:
            chk.engine_error(f'get_ppt_boundary {cfg}', e)
            continue
        chk.add_path_stats(st)
        rp = ('c06', {'what': 'ppt_boundary', 'dims': [dA, dB], 'batch': list(bshape), 'within_dm': within, 'norm_given': norm_given})
        for pi, path in enumerate(paths[:8]):
            if path.status != 'return':
                chk.add(f'get_ppt_boundary {cfg} raises {type(path.value).__name__}', pre0 + path.pc + path.facts, ir.FALSE, key='get_ppt_boundary raises', replay=rp)
                continue
            bl_a, bu_a = path.value
            if tuple(np.shape(bl_a)) != bshape or tuple(np.shape(bu_a)) != bshape:
                chk.add(f'get_ppt_boundary {cfg}: output shape', [], ir.FALSE, key='get_ppt_boundary shape', replay=rp)
                continue
            bls, bus = [S.as_sc(x) for x in H.elems(bl_a)], [S.as_sc(x) for x in H.elems(bu_a)]
            with path.resume():
                t = S.sc_var(f't{tag}')
                for b in range(B):
                    ptm = A.plain(dms[b]).reshape(dA, dB, dA, dB).transpose(0, 3, 2, 1).reshape(N, N)
                    l_pt, l_dm = spectrum(ptm), spectrum(A.plain(dms[b]))
                    nb = nrms[b] if norm_given else S.as_sc(numqi.gellmann.dm_to_gellmann_norm(dms[b]))
                    ev = lambda ls, beta, i: S.as_sc(1) / N + beta * (ls[i] - S.as_sc(1) / N) / nb
                    sets = [l_pt, l_dm] if within else [l_pt]
                    pre = pre0 + path.pc + path.facts + [c for k, c in path.side]
                    bl, bu = bls[b], bus[b]
                    chk.add(f'get_ppt_boundary {cfg} item {b}: beta_l < 0 < beta_u', pre + path.facts, ir.band((bl < 0).n, (bu > 0).n), key='get_ppt_boundary sign', replay=rp)
                    inside = [(t > bl).n, (t < bu).n]
                    chk.add(f'get_ppt_boundary {cfg} item {b}: strictly inside, every eigenvalue of the state{" and" if within else "\'s"} partial transpose is positive', pre + path.facts + inside,
                            ir.band_all(ir.rcmp('lt', ir.ZERO, ev(ls, t, i).re) for ls in sets for i in range(N)), key='get_ppt_boundary not a threshold (inside)', replay=rp)
                    chk.add(f'get_ppt_boundary {cfg} item {b}: beyond beta_u some eigenvalue is negative', pre + path.facts + [(t > bu).n],
                            ir.bor_all(ir.rcmp('lt', ev(ls, t, 0).re, ir.ZERO) for ls in sets), key='get_ppt_boundary not a threshold (outside, upper)', replay=rp)
                    chk.add(f'get_ppt_boundary {cfg} item {b}: below beta_l some eigenvalue is negative', pre + path.facts + [(t < bl).n],
                            ir.bor_all(ir.rcmp('lt', ev(ls, t, N - 1).re, ir.ZERO) for ls in sets), key='get_ppt_boundary not a threshold (outside, lower)', replay=rp)
                chk.add(f'reach get_ppt_boundary {cfg} (path {pi})', pre0 + path.pc + path.facts, ir.TRUE, kind='reach')
        chk.add(f'get_ppt_boundary {cfg} returns on some path', [], ir.bconst(any(p_.status == 'return' for p_ in paths)), key='get_ppt_boundary raises', replay=rp)
    chk.solve(timeout_s=60 if quick else 300)
