"""C02 - trivializations are locally onto: the differential has full rank somewhere in the parameter box,
and is never rank-deficient everywhere (no constant / lower-dimensional chart)."""
import itertools
import random
from fractions import Fraction
import numpy as np
import scipy.linalg
import numqi
import numqi.manifold as M
from symnp import ir, scalars as S, arrays as A, facade
from symnp.scalars import SC, Dual
from . import common as H
from . import C01

PYTH = [(Fraction(3, 5), Fraction(4, 5)), (Fraction(5, 13), Fraction(12, 13)), (Fraction(8, 17), Fraction(-15, 17)), (Fraction(-7, 25), Fraction(24, 25)),
        (Fraction(20, 29), Fraction(21, 29)), (Fraction(12, 37), Fraction(-35, 37)), (Fraction(-9, 41), Fraction(40, 41)), (Fraction(28, 53), Fraction(45, 53)),
        (Fraction(11, 61), Fraction(60, 61)), (Fraction(-16, 65), Fraction(63, 65)), (Fraction(33, 65), Fraction(-56, 65)), (Fraction(48, 73), Fraction(55, 73)),
        (Fraction(13, 85), Fraction(84, 85)), (Fraction(36, 85), Fraction(77, 85)), (Fraction(39, 89), Fraction(80, 89)), (Fraction(65, 97), Fraction(72, 97)),
        (Fraction(20, 101), Fraction(99, 101)), (Fraction(60, 109), Fraction(-91, 109)), (Fraction(15, 113), Fraction(112, 113)), (Fraction(44, 125), Fraction(117, 125)),
        (Fraction(88, 137), Fraction(105, 137)), (Fraction(17, 145), Fraction(144, 145))]
RAT = [Fraction(1, 2), Fraction(-3, 4), Fraction(2, 3), Fraction(5, 4), Fraction(-1, 3), Fraction(7, 5), Fraction(-6, 5), Fraction(3, 7), Fraction(-5, 8), Fraction(9, 7),
       Fraction(1, 5), Fraction(-8, 7), Fraction(4, 9), Fraction(11, 9), Fraction(-2, 7), Fraction(13, 11), Fraction(-4, 11), Fraction(6, 11), Fraction(-10, 11), Fraction(3, 13),
       Fraction(1, 7), Fraction(-7, 9), Fraction(5, 12), Fraction(-11, 12)]


def rat_point(n):
    """rational point of the box with RATIONAL Euclidean norm (integer vector with perfect-square norm, divided by 8):
    keeps the Jacobian of norm-based charts free of radicals at the probe point"""
    import math
    base = [((k % 5) + 1) * (1 if k % 2 == 0 else -1) for k in range(n)]
    if n == 1:
        return [Fraction(1, 2)]
    for a in range(1, 40):
        for b in range(1, 40):
            v = base[:-2] + [a, -b] if n >= 2 else [a]
            ss = sum(x * x for x in v)
            r = math.isqrt(ss)
            if r * r == ss and a != b:
                den = max(8, max(abs(x) for x in v))
                return [Fraction(x, den) for x in v]
    return [RAT[k % len(RAT)] for k in range(n)]


def sym_expit_dual(x):
    def one(e):
        if isinstance(e, Dual):
            v = C01.sym_expit(e.v)
            return Dual(v, e.d * v * (1 - v))
        return C01.sym_expit(e)
    if isinstance(x, np.ndarray):
        return A.wrap(A._elementwise(one, x), np.float64)
    return one(x)


def dual_inv(a):
    """inverse of a (batched) small matrix of Dual numbers: adjugate formula evaluated in Dual arithmetic"""
    p = A.plain(a)
    if p.ndim == 3:
        return A.wrap(np.stack([A.plain(dual_inv(x)) for x in p]))
    n = p.shape[0]
    D = lambda e: e if isinstance(e, Dual) else Dual(S.as_sc(e))
    if n == 1:
        out = np.empty((1, 1), dtype=object)
        out[0, 0] = D(p[0, 0]).recip()
        return A.wrap(out)
    if n == 2:
        det = D(p[0, 0]) * D(p[1, 1]) - D(p[0, 1]) * D(p[1, 0])
        adj = [[D(p[1, 1]), -D(p[0, 1])], [-D(p[1, 0]), D(p[0, 0])]]
    elif n == 3:
        c = lambda i, j: (D(p[(i + 1) % 3, (j + 1) % 3]) * D(p[(i + 2) % 3, (j + 2) % 3]) - D(p[(i + 1) % 3, (j + 2) % 3]) * D(p[(i + 2) % 3, (j + 1) % 3]))
        cof = [[c(i, j) for j in range(3)] for i in range(3)]
        det = D(p[0, 0]) * cof[0][0] + D(p[0, 1]) * cof[0][1] + D(p[0, 2]) * cof[0][2]
        adj = [[cof[j][i] for j in range(3)] for i in range(3)]
    else:
        raise S.EngineError('inv stub: only up to 3x3')
    r = det.recip()
    out = np.empty((n, n), dtype=object)
    for i in range(n):
        for j in range(n):
            out[i, j] = adj[i][j] * r
    return A.wrap(out)


def configs(quick):
    """(fn, kw, n_params, manifold_dim, angle_params?)"""
    out = []
    for d in (2, 3) if quick else (2, 3, 4):
        out += [('to_sphere_quotient', {'is_real': True}, d, d - 1, False), ('to_sphere_quotient', {'is_real': False}, 2 * d, 2 * d - 1, False),
                ('to_sphere_coordinate', {'is_real': True}, d - 1, d - 1, True), ('to_sphere_coordinate', {'is_real': False}, 2 * d - 1, 2 * d - 1, True),
                ('to_ball', {'is_real': True}, d, d, False), ('to_ball', {'is_real': False}, 2 * d, 2 * d, False),
                ('to_discrete_probability_sphere', {}, d, d - 1, False)]
    for d in (2, 3):
        for tr0, nm1 in itertools.product((False, True), repeat=2):
            if d == 3 and quick and not (tr0 and nm1):
                continue
            nr = d * (d + 1) // 2 - (1 if tr0 else 0)
            nc = d * d - (1 if tr0 else 0)
            kw = {'dim': d, 'trace0': tr0, 'norm1': nm1}
            if nr - (1 if nm1 else 0) > 0:
                out.append(('to_symmetric_matrix', kw, nr, nr - (1 if nm1 else 0), False))
            out.append(('to_symmetric_matrix', kw, nc, nc - (1 if nm1 else 0), False))
    for d, r in ((2, 1), (2, 2)) if quick else ((2, 1), (2, 2), (3, 1), (3, 2), (4, 4)):
        N0 = (r * (2 * d - r + 1)) // 2
        out.append(('to_trace1_psd_cholesky', {'dim': d, 'rank': r}, N0, d * r - r * (r - 1) // 2 - 1, False))
        if (d, r) != (4, 4):      # rank 4 (real only): the diagonal slots of the packed lower trapezoid stop being the leading parameters
            out.append(('to_trace1_psd_cholesky', {'dim': d, 'rank': r}, 2 * N0 - r, 2 * d * r - r * r - 1, False))
    for d, r in ((2, 1), (3, 1), (3, 2), (2, 2)) if quick else ((2, 1), (3, 1), (3, 2), (2, 2), (4, 2), (3, 3)):
        N0 = d * r - r * (r + 1) // 2
        out.append(('to_stiefel_euler', {'dim': d, 'rank': r, 'with_phase': False}, N0, N0, True))
        out.append(('to_stiefel_euler', {'dim': d, 'rank': r, 'with_phase': False}, 2 * N0, 2 * N0, True))
        out.append(('to_stiefel_euler', {'dim': d, 'rank': r, 'with_phase': True}, 2 * N0 + r, 2 * N0 + r, True))
    for d, r in ((2, 1), (2, 2), (3, 2)) if quick else ((2, 1), (2, 2), (3, 2), (3, 3), (4, 2)):
        N0 = (r * (r + 1)) // 2
        if d * r - N0 > 0:
            out.append(('to_stiefel_choleskyL', {'dim': d, 'rank': r}, d * r - N0, d * r - N0, False))
        if (d, r) not in ((3, 3), (4, 2)):      # the complex (4,2) chart (10 parameters, exact 2x2 Cholesky + inverse) exceeds the solver budget: outside the bound
            out.append(('to_stiefel_choleskyL', {'dim': d, 'rank': r}, 2 * d * r - 2 * N0, 2 * d * r - 2 * N0, False))
    for d in (2, 3):
        for order in (1, 2):
            out.append(('to_special_orthogonal_cayley', {'dim': d, 'order': order}, d * (d - 1) // 2, d * (d - 1) // 2, False))
            if d == 2:                          # SU(3) Cayley chart (8 parameters through an exact 3x3 inverse) exceeds the solver budget: outside the bound
                out.append(('to_special_orthogonal_cayley', {'dim': d, 'order': order}, d * d - 1, d * d - 1, False))
    out.append(('to_open_interval', {'lower': -1.5, 'upper': 2.0}, 1, 1, False))
    out.append(('to_positive_real_softplus', {}, 2, 2, False))
    out.append(('to_positive_real_exp', {}, 2, 2, False))
    return [c for c in out if c[2] > 0 and c[3] > 0]


# ---------------------------------------------------------------- numeric Jacobian for replay
def numeric_jacobian(f, th, kw, eps=1e-6):
    th = np.asarray(th, dtype=float)
    cols = []
    for k in range(len(th)):
        e = np.zeros_like(th)
        e[k] = eps
        a = np.asarray(f(th + e, **kw), dtype=complex).reshape(-1)
        b = np.asarray(f(th - e, **kw), dtype=complex).reshape(-1)
        d = (a - b) / (2 * eps)
        cols.append(np.concatenate([d.real, d.imag]))
    return np.stack(cols, axis=1)


def replay(p):
    f = C01.FUNCS[p['fn']]
    kw = p['kw']
    m = p['m']
    if p['mode'] == 'witness':
        J = numeric_jacobian(f, p['theta'], kw)
        sv = np.linalg.svd(J, compute_uv=False)
        ok = np.sum(sv > 1e-6) >= m
        return (not ok), f"{p['fn']}{kw}: witness has numerical rank {int(np.sum(sv > 1e-6))} < {m}"
    # mode 'deficient': the solver proved that no point of the box has rank m; confirm numerically on a seeded family of points
    rng = np.random.default_rng(2024)
    best = 0
    for _ in range(12):
        th = rng.uniform(-1.5, 1.5, size=p['n'])
        try:
            J = numeric_jacobian(f, th, kw)
        except Exception as e:
            return True, f"{p['fn']}{kw}: raises {type(e).__name__} at theta={th.tolist()}"
        sv = np.linalg.svd(J, compute_uv=False)
        best = max(best, int(np.sum(sv > 1e-6 * max(1.0, sv[0] if len(sv) else 1.0))))
    return (best < m), f"{p['fn']}{kw}: differential has rank {best} < {m} = manifold dimension at every sampled point (solver: rank-deficient on the whole box |theta|<=2)"


REPLAYERS = {'c02': replay}


def run(chk):
    quick = chk.tier == 'quick'
    chk.fn(*['numqi.manifold.' + k for k in C01.FUNCS])
    chk.register_replayer('c02', replay)
    chk.out_of_claim('torch branches; exp / QR / polar / softmax charts (LAPACK, expm); "generic point" is replaced by "there is a point of the box |theta|<=2 with full rank" (equivalent for analytic maps)')
    chk.bound(dims='2..3 quick (4 thorough)', box='|theta_i| <= 2; angles enter through (cos,sin) on the unit circle', jacobian='forward-mode dual numbers through the real function, one run per parameter')
    chk.stub('scipy.special.expit -> fresh v in (0,1) with derivative v(1-v); np.linalg.inv -> adjugate formula in dual arithmetic (dim<=3); np.linalg.cholesky -> exact Cholesky-Banachiewicz recursion in dual arithmetic (dim<=3)')
    fac = facade.make_np_facade(linalg={'inv': lambda a: dual_inv(a) if isinstance(a, A.SymArray) else np.linalg.inv(a),
                                        'cholesky': lambda a: C01.exact_cholesky(a) if isinstance(a, A.SymArray) else np.linalg.cholesky(a)})
    import scipy as _sp
    import scipy.special as _sps
    eg = {'numqi.manifold._internal': {'scipy': facade.Facade(_sp, {'special': facade.Facade(_sps, {'expit': sym_expit_dual}, 'scipy.special')}, 'scipy')}}
    stage2 = []
    records = []
    for ci, (fn, kw, n, m, is_angle) in enumerate(configs(quick)):
        chk.configurations += 1
        f = C01.FUNCS[fn]
        ctx = S.new_ctx(f'j{ci}_')
        th_vars = [S.sc_var(f'th{ci}_{k}') for k in range(n)]
        cols = []
        try:
            with facade.patched(fac, eg):
                for j in range(n):
                    arr = np.empty(n, dtype=object)
                    for k in range(n):
                        arr[k] = Dual(th_vars[k], SC(ir.ONE) if k == j else SC(ir.ZERO))
                    out = f(A.wrap(arr, np.float64), **kw)
                    col = []
                    for e in H.elems(out):
                        d = e.d if isinstance(e, Dual) else SC(ir.ZERO)
                        col += [d.re, d.im]
                    cols.append(col)
        except S.EngineError as e:
            chk.engine_error(f'{fn}{kw} n={n}', e)
            continue
        chk.notes_from(ctx)
        nrow = len(cols[0])
        J = [[cols[j][i] for j in range(n)] for i in range(nrow)]
        # probe: the same dual-number run at a CONCRETE rational point (angles: rational points of the unit circle injected as
        # values of their (cos,sin) variables), so that the Jacobian is a matrix of exact constants (rationals and prime radicals)
        pctx = S.new_ctx(f'p{ci}_')
        rp_ = rat_point(n)
        pvars = [S.sc_var(f'ph{ci}_{k}') for k in range(n)] if is_angle else [SC(ir.rconst(rp_[k])) for k in range(n)]
        pcols = []
        try:
            with facade.patched(fac, eg):
                for j in range(n):
                    arr = np.empty(n, dtype=object)
                    for k in range(n):
                        arr[k] = Dual(pvars[k], SC(ir.ONE) if k == j else SC(ir.ZERO))
                    out = f(A.wrap(arr, np.float64), **kw)
                    col = []
                    for e in H.elems(out):
                        d = e.d if isinstance(e, Dual) else SC(ir.ZERO)
                        col += [d.re, d.im]
                    pcols.append(col)
        except (S.EngineError, ZeroDivisionError) as e:
            chk.engine_error(f'{fn}{kw} n={n} (probe run)', e)
            continue
        nrow = len(cols[0])
        J = [[cols[j][i] for j in range(n)] for i in range(nrow)]
        PJ = [[pcols[j][i] for j in range(n)] for i in range(nrow)]
        hint = []
        env = {}
        pi = 0
        witness_cs = {}
        for var, kind, data in pctx.aux:
            if kind == 'cos':
                base, den = data
                c_, s_ = PYTH[pi % len(PYTH)]
                pi += 1
                env[var.val] = float(c_)
                hint.append(ir.rcmp('eq', var, ir.rconst(c_)))
                sinv = [v2 for v2, k2, d2 in pctx.aux if k2 == 'sin' and d2[0] is base and d2[1] == den][0]
                env[sinv.val] = float(s_)
                hint.append(ir.rcmp('eq', sinv, ir.rconst(s_)))
                witness_cs[base.val] = (float(c_), float(s_), den)
        for k, v in enumerate(pvars):
            if is_angle:
                env[v.re.val] = 0.0
        H.complete_env(pctx, env)
        try:
            Jn = np.array(ir.evaluate([x for row in PJ for x in row], env), dtype=float).reshape(nrow, n)
        except (KeyError, ZeroDivisionError) as e:
            chk.engine_error(f'{fn}{kw}: numeric Jacobian at the hint point', e)
            continue
        rows, colsel = pick_minor(Jn, m)
        box = [ir.band(ir.rcmp('le', ir.rconst(-2), v.re), ir.rcmp('le', v.re, ir.rconst(2))) for v in th_vars]
        side = [c for _, c in ctx.side]
        name = f'{fn}{C01.kw_key(kw)} n={n} m={m}'
        import math
        if is_angle:
            wth = [math.atan2(witness_cs[v.re.val][1], witness_cs[v.re.val][0]) * witness_cs[v.re.val][2] if v.re.val in witness_cs else 0.0 for v in pvars]
        else:
            wth = [float(x) for x in rp_]
        rec = {'fn': fn, 'kw': kw, 'n': n, 'm': m, 'ctx': ctx, 'th': th_vars, 'J': J, 'box': box, 'side': side, 'name': name, 'wth': wth, 'rows': rows, 'cols': colsel}
        records.append(rec)
        if rows is not None:
            claim = inverse_exists(PJ, rows, colsel, m, f'B{ci}_')
            rec['probe'] = chk.add(f'{name}: the minor rows={rows} cols={colsel} of the exact Jacobian at theta={[str(x) for x in rp_] if not is_angle else "rational circle points"} is invertible',
                                   pctx.facts + [c for _, c in pctx.side] + hint, claim, kind='probe')
        else:
            rec['probe'] = None
    chk.solve(timeout_s=60 if quick else 300)
    # stage 2: maps whose hinted probe did not succeed: search the whole box symbolically (sat = witness, unsat = rank-deficient everywhere)
    for rec in records:
        pr = rec['probe']
        if pr is not None and pr.verdict == 'sat':
            model = pr.model
            th = rec['wth']
            ok, what = replay({'fn': rec['fn'], 'kw': rec['kw'], 'm': rec['m'], 'n': rec['n'], 'mode': 'witness', 'theta': th})
            if not ok:
                pr.kind = 'exists'     # the probe is the existential claim: sat + numerically confirmed witness
                pr.name = f"{rec['name']}: differential has rank m at a point of the box; " + pr.name.split(': ', 1)[1]
                chk.samples.append({'map': rec['name'], 'witness_theta': [round(x, 6) for x in th], 'rank_m': rec['m']})
                continue
            chk.unreproduced.append((rec['name'], 'solver witness not confirmed numerically: ' + what))
            continue
        J, m, n = rec['J'], rec['m'], rec['n']
        nrow = len(J)
        if rec['rows'] is not None and m > 3:
            claim = inverse_exists(J, rec['rows'], rec['cols'], m, f"S{rec['name'].split(' ')[0]}_")   # search with the numerically chosen minor
        else:
            claim = lr_identity(J, m, f"L{rec['name'].split(' ')[0]}_")
        rp = ('c02', {'fn': rec['fn'], 'kw': rec['kw'], 'm': m, 'n': n, 'mode': 'deficient'})
        chk.add(f"{rec['name']}: some point of the box has rank m (symbolic search over the box)", rec['ctx'].facts + rec['box'] + rec['side'], claim, kind='exists',
                key=f"{rec['fn']} differential rank-deficient everywhere {C01.kw_key(rec['kw'])} n={n}", replay=rp)
    chk.solve(timeout_s=120 if quick else 600)
    # an existential search that comes back 'unknown' is inconclusive; directed concrete probing of the real code (numeric Jacobian rank at 12 seeded
    # points) may turn it into a replayed VIOLATION - never into a pass
    for ob in chk.obls:
        if ob.kind == 'exists' and ob.verdict not in ('sat', 'unsat') and ob.meta.get('replay') and 'symbolic search' in ob.name:
            rname, payload = ob.meta['replay']
            try:
                ok, what = chk.replayers[rname](payload)
            except Exception:
                continue
            if ok:
                chk.extra.setdefault('violations_found_by_concrete_probing_after_solver_unknown', []).append(ob.name)
                chk._classify(ob.key, f'{ob.name}: {what} (solver verdict: {ob.verdict}; found by directed concrete probing)', payload, rname)
                ob.verdict = 'unsat'


def pick_minor(Jn, m):
    if Jn.shape[0] < m or Jn.shape[1] < m:
        return None, None
    try:
        _, R, pc = scipy.linalg.qr(Jn, pivoting=True, mode='economic')
        if abs(R[m - 1, m - 1]) < 1e-9:
            return None, None
        cols = sorted(pc[:m].tolist())
        _, R2, pr = scipy.linalg.qr(Jn[:, cols].T, pivoting=True, mode='economic')
        if abs(R2[m - 1, m - 1]) < 1e-9:
            return None, None
        return sorted(pr[:m].tolist()), cols
    except Exception:
        return None, None


def inverse_exists(J, rows, cols, m, tag):
    """B node: exists B with J[rows, cols] . B == I  (B fresh variables)"""
    B = [[ir.rvar(f'{tag}{i}_{j}') for j in range(m)] for i in range(m)]
    cl = []
    for a in range(m):
        for b in range(m):
            acc = ir.ZERO
            for k in range(m):
                acc = ir.radd(acc, ir.rmul(J[rows[a]][cols[k]], B[k][b]))
            cl.append(ir.rcmp('eq', acc, ir.ONE if a == b else ir.ZERO))
    return ir.band_all(cl)


def lr_identity(J, m, tag):
    """B node: exists L (m x nrow), R (n x m) with L J R == I_m  (<=> rank J >= m)"""
    nrow, n = len(J), len(J[0])
    L = [[ir.rvar(f'{tag}l{i}_{j}') for j in range(nrow)] for i in range(m)]
    R = [[ir.rvar(f'{tag}r{i}_{j}') for j in range(m)] for i in range(n)]
    JR = [[None] * m for _ in range(nrow)]
    for i in range(nrow):
        for b in range(m):
            acc = ir.ZERO
            for k in range(n):
                acc = ir.radd(acc, ir.rmul(J[i][k], R[k][b]))
            JR[i][b] = acc
    cl = []
    for a in range(m):
        for b in range(m):
            acc = ir.ZERO
            for i in range(nrow):
                acc = ir.radd(acc, ir.rmul(L[a][i], JR[i][b]))
            cl.append(ir.rcmp('eq', acc, ir.ONE if a == b else ir.ZERO))
    return ir.band_all(cl)


def witness_theta(rec, model):
    """parameter vector realising the model: plain parameters from the model, angles from their (cos,sin) values"""
    import math
    th = []
    ctx = rec['ctx']
    for v in rec['th']:
        name = v.re.val
        cs = [(var, kind, data) for var, kind, data in ctx.aux if kind in ('cos', 'sin') and data[0] is v.re]
        if cs:
            c_ = [float(model.get(var.val, 1)) * 1.0 for var, kind, data in cs if kind == 'cos']
            s_ = [float(model.get(var.val, 0)) * 1.0 for var, kind, data in cs if kind == 'sin']
            den = [data[1] for var, kind, data in cs if kind == 'cos'][0]
            th.append(math.atan2(s_[0], c_[0]) * den)
        else:
            th.append(float(model.get(name, 0)))
    return th
