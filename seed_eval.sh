#!/bin/bash
# ./seed_eval.sh Cxx [check ids...] : verify a seeded change in a scratch worktree, then run the check(s) against /repo with the patch applied.
# SEED_ISOLATED=1: do not touch /repo (e.g. while a long run is reading it); the checks import numqi from the patched scratch worktree
# through PYTHONPATH instead (not valid for C08's CrossHair leg, which reads /repo/python directly).
set -u
id=$1; shift; checks=${@:-${id:0:3}}          # default check: the property of the seed (C08e -> C08)
src=/tmp/seed_$id; dst=/verif/seeded/$id
mkdir -p $dst; cp $src/patch.diff $src/demo.py $dst/ 2>/dev/null; cp $src/meta.json $dst/meta_agent.json 2>/dev/null
wt=/tmp/verify_$id; git -C /repo worktree remove --force $wt 2>/dev/null; rm -rf $wt; git -C /repo worktree add -q --detach $wt HEAD
cp /repo/python/numqi/_version.py $wt/python/numqi/ 2>/dev/null
( cd $wt && PYTHONPATH=$wt/python timeout 900 /venv/bin/python $dst/demo.py >/tmp/demo_clean_$id.log 2>&1; echo "demo on clean tree: exit $?" )
( cd $wt && git apply $dst/patch.diff && PYTHONPATH=$wt/python timeout 900 /venv/bin/python $dst/demo.py >/tmp/demo_mut_$id.log 2>&1; echo "demo with patch: exit $?"; tail -3 /tmp/demo_mut_$id.log )
run_checks() {
  for c in $checks; do ( cd /verif && timeout 3000 ./check $c > /tmp/seedcheck_${id}_$c.log 2>&1; echo "check $c on mutated tree: exit $?"; grep -E "^VIOLATION|^\[C" /tmp/seedcheck_${id}_$c.log | head -4 | cut -c1-300 ); done
}
if [ "${SEED_ISOLATED:-0}" = 1 ]; then
  PYTHONPATH=$wt/python run_checks
  git -C /repo worktree remove --force $wt
  for c in $checks; do git -C /verif checkout -- evidence/$c.json 2>/dev/null; done
else
  git -C /repo worktree remove --force $wt
  git -C /repo apply $dst/patch.diff || { echo "patch does not apply to /repo"; exit 3; }
  run_checks
  git -C /repo checkout -- . ; git -C /repo status --short | head -3
fi
