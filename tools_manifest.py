#!/usr/bin/env python3
"""regenerates MANIFEST.json from the table below (single source of truth for commands/levels)"""
import json, os
HERE = os.path.dirname(os.path.abspath(__file__))
CLAIMS = json.load(open(os.path.join(HERE, 'claims.json')))
props = [json.loads(l) for l in open(os.path.join(HERE, 'properties.jsonl'))]
checks = []
na = []
for p in props:
    pid = p['id']
    c = CLAIMS.get(pid)
    if c and c.get('claimed'):
        checks.append({
            'property_id': pid,
            'quick_cmd': f'./check {pid} --tier quick',
            'thorough_cmd': f'./check {pid} --tier thorough',
            'evidence_file': f'/verif/evidence/{pid}.json',
            'replay_cmd_template': f'./check {pid} --replay {{path}}',
            'engine': c.get('engine', 'symnp'),
            'level_claimed': {'category': 'other', 'text': c['text'], 'design_ref': c.get('design_ref', 'DESIGN.md section 4 ' + pid)},
            'level_note': c['note'],
            'technique': c.get('technique', 'symbolic execution of the real NumPy code on z3-term arrays; bounded SMT verdict (z3) per obligation; counterexamples replayed on real code'),
        })
    else:
        na.append({'property_id': pid, 'reason': (c or {}).get('reason', 'check not built yet')})
m = {
    'version': 1,
    'setup_cmd': './setup.sh',
    'hooks': {'guard': 'NUMQI_VERIF', 'enable': 'no source hooks: checks rebind module globals (np, ...) of the imported numqi modules at run time',
              'baseline_off_cmd': 'cd /repo && /venv/bin/python -m pytest -ra -q -p no:cacheprovider --timeout=900 --continue-on-collection-errors',
              'source_commits': [], 'add_only': True},
    'engines': [
        {'name': 'symnp', 'path': '/verif/symnp', 'serves_properties': [c['property_id'] for c in checks if c['engine'] != 'crosshair'],
         'kind_free_text': 'symbolic execution of numqi\'s real NumPy code: object arrays of z3-term scalars (exact reals/complex, dtype-faithful bit-vectors, binary64), path forking by re-execution, SMT-LIB obligations decided by z3 in parallel workers, replay on real NumPy'},
        {'name': 'crosshair', 'path': '/verif/harness', 'serves_properties': [c['property_id'] for c in checks if 'crosshair' in c.get('engine', '')],
         'kind_free_text': 'crosshair-tool 0.0.110 contracts on pure-Python scalar routines'},
    ],
    'checks': checks,
    'not_applicable': na,
    'notes': 'exit 0 = all obligations discharged / known findings reconfirmed; exit 1 = replayed violation; exit 2 = harness-inconclusive (unknown, time-out, unmodelled operation, counterexample that did not replay). See DESIGN.md.',
}
json.dump(m, open(os.path.join(HERE, 'MANIFEST.json'), 'w'), indent=1)
print('claimed:', [c['property_id'] for c in checks]); print('n/a:', [x['property_id'] for x in na])
