"""SymArray: an object-dtype ndarray subclass that remembers the NumPy dtype it stands for.

NumPy performs all index routing (reshape / transpose / einsum / matmul / kron / fancy indexing);
elements are symbolic scalars (scalars.py) or plain Python numbers.  The subclass
  * reports the *semantic* dtype as .dtype (so `assert x.dtype.type == np.uint8` behaves as on real data),
  * up-casts before integer reductions exactly where NumPy does,
  * turns comparisons / logical reductions into symbolic booleans instead of calling bool() per element,
  * handles boolean-mask assignment by if-then-else and symbolic indices by forking (explorer).
"""
from fractions import Fraction
import numpy as np
from . import ir
from . import scalars as S
from .scalars import SC, BVS, SB, Dual, F64, EngineError

_SYM = (SC, BVS, SB, Dual, F64)
_real_array = np.array
_real_asarray = np.asarray


def is_sym_scalar(x):
    return isinstance(x, _SYM)


def has_sym(x):
    """does a (nested) python object contain symbolic content?"""
    if isinstance(x, SymArray):
        return True
    if isinstance(x, _SYM):
        return True
    if isinstance(x, np.ndarray):
        return x.dtype == object and any(isinstance(e, _SYM) for e in x.flat)
    if isinstance(x, (list, tuple)):
        return any(has_sym(e) for e in x)
    return False


def infer_sd(a):
    """semantic dtype of an object array from its elements"""
    sd = None
    cplx = False
    kinds = set()
    for e in np.ndarray.view(a, np.ndarray).flat if isinstance(a, np.ndarray) else [a]:
        if isinstance(e, BVS):
            kinds.add(('bv', e.dtype))
        elif isinstance(e, SB) or isinstance(e, (bool, np.bool_)):
            kinds.add(('b',))
        elif isinstance(e, SC):
            kinds.add(('c',) if not e.isreal else ('f',))
        elif isinstance(e, Dual):
            kinds.add(('c',) if not (e.v.isreal and e.d.isreal) else ('f',))
        elif isinstance(e, F64):
            kinds.add(('f',))
        elif isinstance(e, (int, np.integer)):
            kinds.add(('i',))
        elif isinstance(e, (float, np.floating, Fraction)):
            kinds.add(('f',))
        elif isinstance(e, (complex, np.complexfloating)):
            kinds.add(('c',))
        else:
            return np.dtype(object)
    if ('c',) in kinds:
        return np.dtype(np.complex128)
    if ('f',) in kinds:
        return np.dtype(np.float64)
    bvs = [k[1] for k in kinds if k[0] == 'bv']
    if bvs:
        return np.result_type(*bvs)
    if ('i',) in kinds:
        return np.dtype(np.int64)
    if ('b',) in kinds:
        return np.dtype(np.bool_)
    return np.dtype(np.float64)


def cast_elem(e, sd):
    """cast one element to semantic dtype sd (numpy astype semantics)"""
    sd = np.dtype(sd)
    if sd.kind in 'iub':
        if isinstance(e, BVS):
            return e.cast(sd)
        if isinstance(e, SB):
            return BVS(ir.bool2bv(e.n, 8), np.bool_).cast(sd)
        if isinstance(e, (bool, np.bool_, int, np.integer)):
            if sd == np.bool_:
                return S.bv_const(1 if e else 0, sd)
            return S.bv_const(int(e), sd)
        if isinstance(e, (float, np.floating)):
            return S.bv_const(int(e), sd)
        if isinstance(e, SC) and e.isconst and e.isreal:
            return S.bv_const(int(e.re.val), sd)
        if isinstance(e, F64) and sd != np.bool_:
            return e.to_int(sd)
        raise EngineError(f'cast of {type(e).__name__} to {sd}')
    if sd.kind == 'f':
        if isinstance(e, (SC, Dual)):
            return e.real if not getattr(e, 'isreal', False) else e
        if isinstance(e, (BVS, SB)):
            return S.as_sc(e)
        if isinstance(e, F64):
            return e
        if isinstance(e, (complex, np.complexfloating)):
            return SC(S.lift_real(e.real))
        return SC(S.lift_real(e))
    if sd.kind == 'c':
        if isinstance(e, (BVS, SB)):
            return S.as_sc(e)
        if isinstance(e, (Dual, F64, SC)):
            return e
        return S.as_sc(e)
    if sd == object:
        return e
    raise EngineError(f'cast to dtype {sd}')


def typed_const(v, sd):
    sd = np.dtype(sd)
    if sd.kind in 'iub':
        return S.bv_const(int(v), sd)
    if sd.kind == 'f':
        return SC(S.lift_real(v))
    if sd.kind == 'c':
        return S.as_sc(complex(v))
    return v


def plain(x):
    """strip SymArray subclass (view as base ndarray), recursively through lists/tuples"""
    if isinstance(x, SymArray):
        return np.ndarray.view(x, np.ndarray)
    if isinstance(x, (list, tuple)):
        return type(x)(plain(e) for e in x)
    if isinstance(x, dict):
        return {k: plain(v) for k, v in x.items()}
    return x


def wrap(x, sd=None):
    """object ndarray -> SymArray with semantic dtype (given or inferred); other values unchanged"""
    if isinstance(x, SymArray):
        if sd is not None:
            x._sd = np.dtype(sd)
        return x
    if isinstance(x, np.ndarray) and x.dtype == object:
        r = np.ndarray.view(x, SymArray)
        r._sd = np.dtype(sd) if sd is not None else infer_sd(x)
        return r
    if isinstance(x, (list, tuple)) and not isinstance(x, str):
        return type(x)(wrap(e) for e in x)
    return x


def dummy(x):
    """zero-filled concrete stand-in with the semantic dtype and shape (for shadow calls)"""
    if isinstance(x, SymArray):
        return np.zeros(x.shape, dtype=x._sd if x._sd != object else np.float64)
    if isinstance(x, BVS):
        return x.dtype.type(0)
    if isinstance(x, SB):
        return np.bool_(False)
    if isinstance(x, (SC, Dual)):
        return np.complex128(0) if infer_sd(x).kind == 'c' else np.float64(0)
    if isinstance(x, F64):
        return np.float64(0)
    if isinstance(x, np.ndarray) and x.dtype == object:
        return np.zeros(x.shape, dtype=infer_sd(x))
    if isinstance(x, (list, tuple)):
        return type(x)(dummy(e) for e in x)
    if isinstance(x, dict):
        return {k: dummy(v) for k, v in x.items()}
    return x


def is_all_const(a):
    for e in np.ndarray.view(a, np.ndarray).flat:
        if isinstance(e, (SC, BVS)):
            if not e.isconst:
                return False
        elif isinstance(e, SB):
            if e.n.op != 'const':
                return False
        elif isinstance(e, (Dual, F64)):
            return False
    return True


def to_concrete(a):
    """fully constant SymArray -> real ndarray of the semantic dtype"""
    sd = a._sd if isinstance(a, SymArray) else infer_sd(a)
    out = np.zeros(a.shape, dtype=sd if sd != object else np.float64)
    flat = out.reshape(-1)
    for i, e in enumerate(np.ndarray.view(a, np.ndarray).flat):
        if isinstance(e, (SC, BVS)):
            v = e.const_value()
            flat[i] = complex(v) if isinstance(v, complex) else (float(v) if isinstance(v, Fraction) and out.dtype.kind != 'c' else (complex(v) if out.dtype.kind == 'c' else v))
        elif isinstance(e, SB):
            flat[i] = bool(e.n.val)
        else:
            flat[i] = e
    return out


_CMP_UFUNCS = {np.equal, np.not_equal, np.less, np.less_equal, np.greater, np.greater_equal,
               np.logical_and, np.logical_or, np.logical_xor, np.logical_not}

HANDLED = {}
MATMUL_HOOK = [None]     # harness hook: may replace a matrix product by fresh variables (sound over-approximation for universal claims)


def implements(*funcs):
    def deco(f):
        for fn in funcs:
            HANDLED[fn] = f
        return f
    return deco


def _elementwise(fn, *arrs):
    b = np.broadcast(*[plain(a) if isinstance(a, np.ndarray) else a for a in arrs])
    out = np.empty(b.shape, dtype=object)
    out.reshape(-1)[:] = [fn(*vals) for vals in b] if b.size else []
    return out


def _ite_elem(c, a, b):
    """if-then-else on elements of any kind"""
    c = S.as_sb(c).n
    if c.op == 'const':
        return a if c.val else b
    if isinstance(a, BVS) or isinstance(b, BVS):
        if not isinstance(a, BVS):
            a = cast_elem(a, b.dtype)
        if not isinstance(b, BVS):
            b = cast_elem(b, a.dtype)
        rd = np.result_type(a.dtype, b.dtype)
        a, b = a.cast(rd), b.cast(rd)
        return BVS(ir.rite(c, a.n, b.n), rd)
    if isinstance(a, SB) or isinstance(b, SB):
        a, b = S.as_sb(a), S.as_sb(b)
        return SB(ir.bor(ir.band(c, a.n), ir.band(ir.bnot(c), b.n)))
    if isinstance(a, F64) or isinstance(b, F64):
        a, b = F64.lift(a), F64.lift(b)
        return F64(ir.rite(c, a.n, b.n))
    a, b = S.as_sc(a), S.as_sc(b)
    return SC(ir.rite(c, a.re, b.re), ir.rite(c, a.im, b.im))


class SymArray(np.ndarray):
    _sd = None

    def __new__(cls, data, sd=None):
        arr = np.empty(np.shape(data), dtype=object) if not isinstance(data, np.ndarray) else None
        if arr is None:
            arr = np.ndarray.view(data, np.ndarray).astype(object)
        else:
            _fill(arr, data)
        r = np.ndarray.view(arr, cls)
        r._sd = np.dtype(sd) if sd is not None else infer_sd(arr)
        return r

    def __array_finalize__(self, obj):
        if obj is not None and self._sd is None:
            self._sd = getattr(obj, '_sd', None)

    # ---- semantic dtype
    @property
    def dtype(self):
        return self._sd if self._sd is not None else np.dtype(object)

    @property
    def real(self):
        r = _elementwise(lambda e: e.real, self)
        sd = self._sd
        return wrap(r, np.float64 if sd is not None and sd.kind == 'c' else sd)

    @property
    def imag(self):
        def im(e):
            return e.imag if hasattr(e, 'imag') else 0
        r = _elementwise(im, self)
        sd = self._sd
        return wrap(r, np.float64 if sd is not None and sd.kind == 'c' else sd)

    def conj(self):
        return wrap(_elementwise(lambda e: e.conjugate() if hasattr(e, 'conjugate') else e, self), self._sd)

    conjugate = conj

    def astype(self, dtype, *a, **k):
        sd = np.dtype(dtype)
        if sd == object:
            return wrap(plain(self).copy(), self._sd)
        r = _elementwise(lambda e: cast_elem(e, sd), self)
        return wrap(r, sd)

    def copy(self, *a, **k):
        return wrap(plain(self).copy(), self._sd)

    def view(self, *a, **k):
        if not a and not k:
            return self
        dt = a[0] if a else k.get('dtype')
        if isinstance(dt, type) and issubclass(dt, np.ndarray):
            return np.ndarray.view(self, dt)
        dt = np.dtype(dt)
        sd = self._sd
        if dt == sd:
            return self
        if dt == np.uint8 and sd is not None and sd.kind in 'iu' and self.ndim >= 1:
            # reinterpret as bytes: little-endian memory layout of this machine (checked below)
            import sys as _sys
            if _sys.byteorder != 'little':
                raise EngineError('byte view modelled for little-endian hosts only')
            nb = sd.itemsize
            p = plain(self)
            out = np.empty(p.shape[:-1] + (p.shape[-1] * nb,), dtype=object)
            for idx in np.ndindex(*p.shape):
                e = cast_elem(p[idx], sd)
                for b in range(nb):
                    out[idx[:-1] + (idx[-1] * nb + b,)] = BVS(ir.bvextract(e.n, 8 * b + 7, 8 * b), np.uint8)
            return wrap(out, np.uint8)
        if dt == np.complex128 and sd == np.float64 and self.ndim >= 1 and self.shape[-1] % 2 == 0:
            # (re, im) pairs along the last axis, as NumPy's memory reinterpretation does
            p = plain(self)
            out = np.empty(p.shape[:-1] + (p.shape[-1] // 2,), dtype=object)
            for idx in np.ndindex(*out.shape):
                re_, im_ = S.as_sc(p[idx[:-1] + (2 * idx[-1],)]), S.as_sc(p[idx[:-1] + (2 * idx[-1] + 1,)])
                out[idx] = SC(re_.re, im_.re)
            return wrap(out, np.complex128)
        raise EngineError(f'view {sd} -> {dt} of a symbolic array')

    def byteswap(self, inplace=False):
        sd = self._sd
        if sd is None or sd.kind not in 'iu':
            raise EngineError('byteswap of non-integer symbolic array')
        nb = sd.itemsize

        def sw(e):
            e = cast_elem(e, sd)
            r = ir.bvextract(e.n, 7, 0)
            for b in range(1, nb):
                r = ir.bvconcat(r, ir.bvextract(e.n, 8 * b + 7, 8 * b))
            return BVS(r, sd)
        return wrap(_elementwise(sw, self), sd)

    def tolist(self):
        def conv(e):
            if isinstance(e, BVS):
                return int(e)
            if isinstance(e, SB):
                return bool(e)
            if isinstance(e, SC) and e.isconst:
                v = e.const_value()
                return complex(v) if isinstance(v, complex) else float(v)
            return e
        return _map_nested(plain(self).tolist(), conv)

    def item(self, *args):
        e = plain(self).item(*args)
        return e

    def tobytes(self, *a, **k):
        raise EngineError('tobytes of a symbolic array')

    def max(self, axis=None, **k):
        return _reduce_minmax(self, axis, 'maximum', k)

    def min(self, axis=None, **k):
        return _reduce_minmax(self, axis, 'minimum', k)

    def all(self, axis=None, **k):
        return _all_any(self, axis, True, **k)

    def any(self, axis=None, **k):
        return _all_any(self, axis, False, **k)

    def sum(self, axis=None, dtype=None, out=None, keepdims=False, **k):
        return np.add.reduce(self, axis=axis, dtype=dtype, keepdims=keepdims)

    def prod(self, axis=None, dtype=None, out=None, keepdims=False, **k):
        return np.multiply.reduce(self, axis=axis, dtype=dtype, keepdims=keepdims)

    def dot(self, other):
        return np.dot(self, other)

    def __bool__(self):
        if self.size != 1:
            raise ValueError('The truth value of an array with more than one element is ambiguous. Use a.any() or a.all()')
        return bool(S.as_sb(plain(self).reshape(-1)[0]))

    def __int__(self):
        if self.size != 1:
            raise TypeError('only length-1 arrays can be converted to Python scalars')
        return int(plain(self).reshape(-1)[0])

    __index__ = __int__

    def __float__(self):
        if self.size != 1:
            raise TypeError('only length-1 arrays can be converted to Python scalars')
        return float(plain(self).reshape(-1)[0])

    # ---- indexing
    def _fix_key(self, key):
        """concretise symbolic scalar indices; detect a symbolic boolean mask (returns ('mask', m))"""
        if isinstance(key, SymArray):
            if key._sd == np.bool_:
                return ('mask', key)
            return _real_array(key.tolist(), dtype=np.intp).reshape(key.shape)
        if isinstance(key, BVS):
            return int(key)
        if isinstance(key, tuple):
            out = []
            for k in key:
                if isinstance(k, SymArray):
                    if k._sd == np.bool_:
                        if is_all_const(k):
                            out.append(to_concrete(k))
                            continue
                        raise EngineError('symbolic mask inside a tuple index')
                    out.append(_real_array(k.tolist(), dtype=np.intp).reshape(k.shape))
                elif isinstance(k, BVS):
                    out.append(int(k))
                else:
                    out.append(k)
            return tuple(out)
        return key

    def __getitem__(self, key):
        key = self._fix_key(key)
        if isinstance(key, tuple) and len(key) == 2 and key[0] == 'mask':
            m = key[1]
            conc = _real_array([bool(S.as_sb(e)) for e in plain(m).flat], dtype=bool).reshape(m.shape)
            key = conc
        r = np.ndarray.__getitem__(self, key)
        if isinstance(r, SymArray):
            r._sd = self._sd
        return r

    def __setitem__(self, key, value):
        key = self._fix_key(key)
        sd = self._sd
        if isinstance(key, tuple) and len(key) == 2 and isinstance(key[0], str) and key[0] == 'mask':
            m = plain(key[1])
            base = plain(self)
            if m.shape != base.shape[:m.ndim]:
                raise IndexError('boolean index did not match')
            # value broadcast against base[m_index] rows; supported: scalar / row value broadcast to the masked rows
            sub_shape = base.shape[m.ndim:]
            val = value
            if isinstance(val, np.ndarray):
                val = plain(val)
                if val.shape != sub_shape and val.size != 1:
                    if val.ndim and val.shape[1:] == sub_shape:
                        # one value per selected row: NumPy's semantics depend on how many entries are selected ->
                        # decide the mask (forking where it is symbolic) and let real NumPy do (or refuse) the assignment
                        conc = _real_array([bool(S.as_sb(e)) for e in m.flat], dtype=bool).reshape(m.shape)
                        np.ndarray.__setitem__(self, conc, _elementwise(lambda e: _cast_into(e, sd), val) if sd is not None and sd != object else val)
                        return
                    val = np.broadcast_to(val, sub_shape)
            for idx in np.ndindex(*m.shape):
                c = m[idx]
                if sub_shape:
                    tgt = base[idx]
                    v = np.broadcast_to(val, sub_shape) if isinstance(val, np.ndarray) else None
                    for j in np.ndindex(*sub_shape):
                        new = v[j] if v is not None else val
                        tgt[j] = _ite_elem(c, _cast_into(new, sd), tgt[j])
                else:
                    new = val.reshape(-1)[0] if isinstance(val, np.ndarray) else val
                    base[idx] = _ite_elem(c, _cast_into(new, sd), base[idx])
            return
        if sd is not None and sd != object:
            if isinstance(value, np.ndarray):
                value = _elementwise(lambda e: _cast_into(e, sd), value)
            elif isinstance(value, (list, tuple)):
                value = _elementwise(lambda e: _cast_into(e, sd), _to_obj_array(value))
            else:
                value = _cast_into(value, sd)
        np.ndarray.__setitem__(self, key, plain(value) if isinstance(value, SymArray) else value)

    # ---- ufuncs
    def __array_ufunc__(self, ufunc, method, *inputs, out=None, **kwargs):
        return array_ufunc(ufunc, method, inputs, out, kwargs)

    def __array_function__(self, func, types, args, kwargs):
        return array_function(func, args, kwargs)

    def __repr__(self):
        return f'SymArray[{self._sd}]' + repr(plain(self))

    __str__ = __repr__


def _cast_into(e, sd):
    """value stored into an array of semantic dtype sd (numpy assignment casting)"""
    if sd is None or sd == object:
        return e
    if sd.kind in 'iub':
        return cast_elem(e, sd)
    if sd.kind == 'f':
        if isinstance(e, (SC, Dual)):
            if not e.isreal if isinstance(e, SC) else False:
                raise TypeError("symnp: can't store complex value into a real array")
            return e
        if isinstance(e, (BVS, SB)):
            return S.as_sc(e)
        if isinstance(e, (int, float, np.integer, np.floating, Fraction, bool, np.bool_)):
            return S.as_sc(e)
        return e
    if isinstance(e, (BVS, SB)):
        return S.as_sc(e)
    if isinstance(e, (int, float, complex, np.number, Fraction, bool, np.bool_)):
        return S.as_sc(e)
    return e


def _map_nested(x, fn):
    if isinstance(x, list):
        return [_map_nested(e, fn) for e in x]
    return fn(x)


def _fill(arr, data):
    if arr.ndim == 0:
        arr[()] = data
        return
    if isinstance(data, np.ndarray):
        data = plain(data)
    for i in range(arr.shape[0]):
        sub = data[i]
        if arr.ndim == 1:
            arr[i] = sub
        else:
            _fill(arr[i], sub)


def _to_obj_array(x):
    """nested lists / arrays / scalars (possibly symbolic) -> plain object ndarray"""
    if isinstance(x, np.ndarray):
        return plain(x) if x.dtype == object else x.astype(object)
    if isinstance(x, (list, tuple)):
        subs = [_to_obj_array(e) for e in x]
        if not subs:
            return np.empty((0,), dtype=object)
        shp = subs[0].shape
        if any(s.shape != shp for s in subs):
            raise ValueError('setting an array element with a sequence (inhomogeneous shape)')
        out = np.empty((len(subs),) + shp, dtype=object)
        for i, s in enumerate(subs):
            if shp:
                out[i, ...] = s
            else:
                out[i] = s[()]
        return out
    out = np.empty((), dtype=object)
    out[()] = x
    return out


def sym_array(x, dtype=None):
    """np.array(...) for content that may be symbolic"""
    a = _to_obj_array(x)
    if a.dtype != object:
        a = a.astype(object)
    sd = np.dtype(dtype) if dtype is not None else infer_sd(a)
    if dtype is not None or True:
        a = _elementwise(lambda e: cast_elem(e, sd), a) if sd != object else a
    return wrap(a, sd)


# ---------------------------------------------------------------------------------------------
def _all_any(a, axis, is_all, keepdims=False, **k):
    p = plain(a)
    comb = ir.band if is_all else ir.bor
    unit = ir.TRUE if is_all else ir.FALSE

    def red(vals):
        r = unit
        for e in vals:
            r = comb(r, S.as_sb(e).n)
        return SB(r)
    if axis is None:
        r = red(p.flat)
        if keepdims:
            out = np.empty((1,) * p.ndim, dtype=object)
            out.reshape(-1)[0] = r
            return wrap(out, np.bool_)
        return r
    if isinstance(axis, int):
        axis = (axis,)
    axis = tuple(ax % p.ndim for ax in axis)
    keep = [i for i in range(p.ndim) if i not in axis]
    q = np.transpose(p, keep + list(axis))
    shp = q.shape[:len(keep)]
    q = q.reshape(shp + (-1,))
    out = np.empty(shp, dtype=object)
    for idx in np.ndindex(*shp):
        out[idx] = red(q[idx])
    if keepdims:
        out = out.reshape([1 if i in axis else p.shape[i] for i in range(p.ndim)])
    return wrap(out, np.bool_)


def _reduce_minmax(a, axis, name, k=None):
    p = plain(a)
    sd = a._sd if isinstance(a, SymArray) else infer_sd(p)

    def red(vals):
        vals = list(vals)
        if not vals:
            raise ValueError('zero-size array to reduction operation which has no identity')
        r = _lift_for_method(vals[0], sd)
        for e in vals[1:]:
            r = getattr(r, name)(_lift_for_method(e, sd))
        return r
    if axis is None:
        return red(p.flat)
    axis = axis % p.ndim
    q = np.moveaxis(p, axis, -1)
    out = np.empty(q.shape[:-1], dtype=object)
    for idx in np.ndindex(*q.shape[:-1]):
        out[idx] = red(q[idx])
    return wrap(out, sd)


def _lift_for_method(e, sd):
    if isinstance(e, _SYM):
        return e
    if sd is not None and sd.kind in 'iub':
        return cast_elem(e, sd)
    return S.as_sc(e)


def shadow_dtype(fn, args, kwargs):
    """dtype(s) NumPy would produce: run fn on zero-filled dummies of the semantic dtypes"""
    try:
        with np.errstate(all='ignore'):
            r = fn(*dummy(args), **dummy(kwargs))
    except EngineError:
        raise
    except Exception:
        return None
    return r


def _apply_shadow(res, shadow):
    """wrap object results with the dtype found by the shadow call (structure-parallel)"""
    if isinstance(res, np.ndarray) and res.dtype == object:
        sd = shadow.dtype if isinstance(shadow, (np.ndarray, np.generic)) else None
        return wrap(res, sd)
    if isinstance(res, (tuple, list)):
        if isinstance(shadow, (tuple, list)) and len(shadow) == len(res):
            return type(res)(_apply_shadow(r, s) for r, s in zip(res, shadow))
        return type(res)(_apply_shadow(r, None) for r in res)
    return res


def array_ufunc(ufunc, method, inputs, out, kwargs):
    if out is not None:
        if len(out) != 1 or not isinstance(out[0], SymArray):
            raise EngineError(f'ufunc {ufunc.__name__} with out= of kind {type(out[0]).__name__}')
        res = array_ufunc(ufunc, method, inputs, None, kwargs)
        tgt = out[0]
        tgt[...] = res
        return tgt
    pin = [plain(x) if isinstance(x, np.ndarray) else x for x in inputs]
    sds = [x._sd if isinstance(x, SymArray) else None for x in inputs]
    name = ufunc.__name__
    if method == '__call__':
        if ufunc in (np.maximum, np.minimum, np.fmax, np.fmin):
            nm = 'maximum' if ufunc in (np.maximum, np.fmax) else 'minimum'
            sd0 = next((s for s in sds if s is not None), None)
            def mm(a, b):
                if isinstance(a, F64) or isinstance(b, F64):      # binary64 operands: the other side (python number / exact constant) is lifted to binary64
                    return getattr(F64.lift(a), nm)(F64.lift(b))
                return getattr(_lift_for_method(a, sd0), nm)(_lift_for_method(b, sd0))
            r = _elementwise(mm, *pin)
            return _apply_shadow(r, shadow_dtype(ufunc, inputs, {}))
        if ufunc is np.sign:
            r = _elementwise(lambda a: a.sign() if isinstance(a, Dual) else (S.as_sc(a).sign() if not isinstance(a, BVS) else a), *pin)
            return wrap(r, sds[0])
        if ufunc in (np.absolute, np.fabs):
            r = _elementwise(lambda a: abs(a), *pin)
            return _apply_shadow(r, shadow_dtype(ufunc, inputs, {}))
        if ufunc in (np.isnan, np.isinf, np.isfinite):
            def f(a):
                if isinstance(a, F64):
                    if ufunc is np.isnan:
                        return a.isnan()
                    if ufunc is np.isinf:
                        return a.isinf()
                    return ~(a.isnan() | a.isinf())
                return SB(ir.bconst(ufunc is np.isfinite))
            return wrap(_elementwise(f, *pin), np.bool_)
        if ufunc is np.logical_not:
            return wrap(_elementwise(lambda a: ~S.as_sb(a), *pin), np.bool_)
        if ufunc in (np.logical_and, np.logical_or, np.logical_xor):
            op = {np.logical_and: '__and__', np.logical_or: '__or__', np.logical_xor: '__xor__'}[ufunc]
            return wrap(_elementwise(lambda a, b: getattr(S.as_sb(a), op)(S.as_sb(b)), *pin), np.bool_)
        if ufunc in _CMP_UFUNCS:
            kwargs = dict(kwargs)
            kwargs['dtype'] = object
            r = ufunc(*pin, **kwargs)
            if isinstance(r, np.ndarray):
                r = _elementwise(lambda e: e if isinstance(e, SB) else SB(ir.bconst(bool(e))), r)
                return wrap(r, np.bool_)
            return r
        if ufunc is np.square:
            r = _elementwise(lambda a: a * a, *pin)
            return _apply_shadow(r, shadow_dtype(ufunc, inputs, {}))
        if ufunc is np.power:
            r = _elementwise(lambda a, b: a ** b, *pin)
            return _apply_shadow(r, shadow_dtype(ufunc, inputs, {}))
        if ufunc is np.matmul:
            r = _matmul(pin[0], pin[1])
            if MATMUL_HOOK[0] is not None and isinstance(r, np.ndarray):
                r = MATMUL_HOOK[0](r, pin[0], pin[1])
            return _apply_shadow(r, shadow_dtype(ufunc, inputs, {})) if isinstance(r, np.ndarray) else r
        kw = {k: v for k, v in kwargs.items() if k not in ('dtype', 'casting')}
        dt = kwargs.get('dtype')
        pin2 = [x.astype(object) if isinstance(x, np.ndarray) and x.dtype != object else x for x in pin]
        # typed concrete operands keep their NumPy integer semantics
        pin2 = [_typed_obj(x) if isinstance(x, np.ndarray) else x for x in pin2]
        pin2 = [_typed_obj_from(orig, x) for orig, x in zip(pin, pin2)]
        if name in _METHOD_UFUNCS:
            # object loops call e.<name>(): plain Python/NumPy numbers sitting in the array have no such method -> lift them
            pin2 = [_elementwise(_lift_num, x) if isinstance(x, np.ndarray) else _lift_num(x) for x in pin2]
        r = ufunc(*pin2, **kw)
        sh = shadow_dtype(ufunc, inputs, {})
        if dt is not None and dt != object and isinstance(r, np.ndarray):
            r = _elementwise(lambda e: cast_elem(e, dt), r)
            return wrap(r, dt)
        return _apply_shadow(r, sh)
    if method in ('reduce', 'accumulate'):
        a = inputs[0]
        p = pin[0]
        sd = sds[0] if sds[0] is not None else infer_sd(p)
        kw = dict(kwargs)
        dt = kw.pop('dtype', None)
        if ufunc in (np.logical_and, np.logical_or):
            if method != 'reduce':
                raise EngineError('logical accumulate')
            return _all_any(a, kw.get('axis', 0), ufunc is np.logical_and, keepdims=kw.get('keepdims', False))
        if ufunc in (np.maximum, np.minimum) and method == 'reduce':
            return _reduce_minmax(a, kw.get('axis', 0), ufunc.__name__)
        sh = None
        try:
            sh = getattr(ufunc, method)(dummy(a), **{**kw, **({'dtype': dt} if dt is not None else {})})
        except Exception as e:
            raise type(e)(*e.args)
        rd = np.asarray(sh).dtype
        if rd.kind in 'iub' and sd.kind in 'iub' and rd != sd:
            p = _elementwise(lambda e: cast_elem(e, rd), p)
        kw.pop('initial', None)
        kw.pop('where', None)
        if p.size == 0 or (method == 'reduce' and _reduces_empty(p, kw.get('axis', 0))):
            ident = ufunc.identity
            r = getattr(ufunc, method)(p, **kw)
            if isinstance(r, np.ndarray):
                r = _elementwise(lambda e: typed_const(e, rd) if not isinstance(e, _SYM) else e, r)
                return wrap(r, rd)
            return typed_const(r, rd) if not isinstance(r, _SYM) else r
        r = getattr(ufunc, method)(p, **kw)
        if isinstance(r, np.ndarray):
            return wrap(r, rd)
        return r
    if method == 'outer':
        r = ufunc.outer(*pin, **kwargs)
        return _apply_shadow(r, shadow_dtype(ufunc.outer, inputs, {}))
    raise EngineError(f'ufunc method {name}.{method}')


_METHOD_UFUNCS = {'sqrt', 'exp', 'log', 'log1p', 'cos', 'sin', 'tan', 'arccos', 'arcsin', 'tanh', 'arctan2', 'conjugate', 'square'}


def _lift_num(e):
    if isinstance(e, (int, float, complex, np.number, Fraction)) and not isinstance(e, (bool, np.bool_)):
        return S.as_sc(e)
    return e


def _reduces_empty(p, axis):
    if axis is None:
        return p.size == 0
    if isinstance(axis, int):
        axis = (axis,)
    return any(p.shape[ax] == 0 for ax in axis)


def _typed_obj(x):
    return x


def _typed_obj_from(orig, x):
    """concrete integer ndarray operand -> object array of typed BVS constants (keeps wrap-around semantics)"""
    if isinstance(orig, np.ndarray) and orig.dtype != object and orig.dtype.kind in 'iub':
        return _elementwise(lambda e: S.bv_const(int(e), orig.dtype), orig)
    if isinstance(orig, np.generic) and orig.dtype.kind in 'iub':
        return S.bv_const(int(orig), orig.dtype)
    return x


def _matmul(a, b):
    a = a if isinstance(a, np.ndarray) else _real_asarray(a)
    b = b if isinstance(b, np.ndarray) else _real_asarray(b)
    a = _typed_obj_from(a, a)
    b = _typed_obj_from(b, b)
    ao = a if a.dtype == object else a.astype(object)
    bo = b if b.dtype == object else b.astype(object)
    if ao.ndim <= 2 and bo.ndim <= 2:
        return np.dot(ao, bo)
    return np.matmul(ao, bo)


def array_function(func, args, kwargs):
    h = HANDLED.get(func)
    if h is not None:
        return h(*args, **kwargs)
    mod = getattr(func, '__module__', '') or ''
    if mod.startswith('numpy.linalg') and func.__name__ not in ('norm', 'matrix_power', 'multi_dot'):
        # LAPACK: only reachable with fully constant content (constant propagation)
        return _concrete_call(func, args, kwargs)
    pargs, pkw = plain(args), plain(kwargs)
    try:
        res = func(*pargs, **pkw)
    except EngineError:
        raise
    sh = shadow_dtype(func, args, kwargs)
    return _apply_shadow(res, sh)


def _concretize_args(x):
    if isinstance(x, SymArray):
        if not is_all_const(x):
            raise EngineError('numeric kernel called on symbolic content')
        return to_concrete(x)
    if isinstance(x, (list, tuple)):
        return type(x)(_concretize_args(e) for e in x)
    if isinstance(x, dict):
        return {k: _concretize_args(v) for k, v in x.items()}
    return x


def _concrete_call(func, args, kwargs):
    try:
        cargs, ckw = _concretize_args(args), _concretize_args(kwargs)
    except EngineError:
        raise EngineError(f'{func.__module__}.{func.__name__} called on symbolic content (no stub installed)')
    return func(*cargs, **ckw)


# ---------------------------------------------------------------------------------------------
@implements(np.all)
def _np_all(a, axis=None, out=None, keepdims=False, **k):
    return _all_any(a, axis, True, keepdims=keepdims)


@implements(np.any)
def _np_any(a, axis=None, out=None, keepdims=False, **k):
    return _all_any(a, axis, False, keepdims=keepdims)


@implements(np.array_equal)
def _np_array_equal(a, b, equal_nan=False):
    a = a if isinstance(a, np.ndarray) else _real_asarray(a)
    b = b if isinstance(b, np.ndarray) else _real_asarray(b)
    if a.shape != b.shape:
        return False
    r = ir.TRUE
    for x, y in zip(plain(a).flat, plain(b).flat):
        r = ir.band(r, S.as_sb(_sym_eq(x, y)).n)
    return SB(r)


def _sym_eq(x, y):
    if isinstance(x, _SYM):
        return x == y
    if isinstance(y, _SYM):
        return y == x
    return bool(x == y)


@implements(np.nonzero)
def _np_nonzero(a):
    p = plain(a)
    conc = _real_array([bool(S.as_sb(e)) for e in p.flat], dtype=bool).reshape(p.shape)
    return np.nonzero(conc)


@implements(np.count_nonzero)
def _np_count_nonzero(a, axis=None, **k):
    """number of non-zero entries as a symbolic integer (no forking: a later comparison is a single decision)"""
    p = plain(a)
    ind = _elementwise(lambda e: BVS(ir.bvext(ir.rite(S.as_sb(e).n, ir.bvconst(1, 1), ir.bvconst(0, 1)), 64, False), np.int64), p)
    if axis is None:
        if ind.size == 0:
            return 0
        r = ind.reshape(-1)[0]
        for e in ind.reshape(-1)[1:]:
            r = r + e
        return r if not r.isconst else int(r.const_value())
    return np.add.reduce(wrap(ind, np.int64), axis=axis)


@implements(np.where)
def _np_where(c, *xy):
    if not xy:
        return _np_nonzero(c)
    x, y = xy
    r = _elementwise(_ite_elem, c, x, y)
    return wrap(r)


@implements(np.amax, np.max)
def _np_max(a, axis=None, **k):
    return _reduce_minmax(a, axis, 'maximum')


@implements(np.amin, np.min)
def _np_min(a, axis=None, **k):
    return _reduce_minmax(a, axis, 'minimum')


@implements(np.sum)
def _np_sum(a, axis=None, dtype=None, out=None, keepdims=False, **k):
    return np.add.reduce(a, axis=axis, dtype=dtype, keepdims=keepdims)


@implements(np.prod)
def _np_prod(a, axis=None, dtype=None, out=None, keepdims=False, **k):
    return np.multiply.reduce(a, axis=axis, dtype=dtype, keepdims=keepdims)


@implements(np.cumsum)
def _np_cumsum(a, axis=None, dtype=None, out=None):
    if axis is None:
        a = a.reshape(-1)
        axis = 0
    return np.add.accumulate(a, axis=axis, dtype=dtype)


@implements(np.cumprod)
def _np_cumprod(a, axis=None, dtype=None, out=None):
    if axis is None:
        a = a.reshape(-1)
        axis = 0
    return np.multiply.accumulate(a, axis=axis, dtype=dtype)


@implements(np.real)
def _np_real(a):
    return a.real


@implements(np.imag)
def _np_imag(a):
    return a.imag


@implements(np.conj, np.conjugate)
def _np_conj(a):
    return a.conj()


@implements(np.iscomplexobj)
def _np_iscomplexobj(a):
    return a._sd is not None and a._sd.kind == 'c'


@implements(np.isrealobj)
def _np_isrealobj(a):
    return not _np_iscomplexobj(a)


@implements(np.zeros_like)
def _np_zeros_like(a, dtype=None, **k):
    sd = np.dtype(dtype) if dtype is not None else a._sd
    out = np.empty(a.shape, dtype=object)
    out.reshape(-1)[:] = [typed_const(0, sd)] * out.size
    return wrap(out, sd)


@implements(np.ones_like)
def _np_ones_like(a, dtype=None, **k):
    sd = np.dtype(dtype) if dtype is not None else a._sd
    out = np.empty(a.shape, dtype=object)
    out.reshape(-1)[:] = [typed_const(1, sd)] * out.size
    return wrap(out, sd)


@implements(np.empty_like)
def _np_empty_like(a, dtype=None, **k):
    return _np_zeros_like(a, dtype)


@implements(np.copy)
def _np_copy(a, **k):
    return a.copy()


@implements(np.dot)
def _np_dot(a, b, out=None):
    sh = shadow_dtype(np.dot, (a, b), {})
    pa = plain(a) if isinstance(a, np.ndarray) else a
    pb = plain(b) if isinstance(b, np.ndarray) else b
    pa = _typed_obj_from(pa, pa)
    pb = _typed_obj_from(pb, pb)
    if isinstance(pa, np.ndarray) and pa.dtype != object:
        pa = pa.astype(object)
    if isinstance(pb, np.ndarray) and pb.dtype != object:
        pb = pb.astype(object)
    r = np.dot(pa, pb)
    return _apply_shadow(r, sh)


@implements(np.vdot)
def _np_vdot(a, b):
    pa = plain(a).reshape(-1) if isinstance(a, np.ndarray) else a
    pb = plain(b).reshape(-1) if isinstance(b, np.ndarray) else b
    pa = _elementwise(lambda e: e.conjugate() if hasattr(e, 'conjugate') else e, pa)
    return np.dot(pa.astype(object), pb.astype(object) if isinstance(pb, np.ndarray) else pb)


@implements(np.isclose)
def _np_isclose(a, b, rtol=1e-5, atol=1e-8, equal_nan=False):
    # |a-b| <= atol + rtol*|b| on exact reals
    def f(x, y):
        d = abs(S.as_sc(x) - S.as_sc(y))
        return d <= (S.as_sc(atol) + S.as_sc(rtol) * abs(S.as_sc(y)))
    return wrap(_elementwise(f, a, b), np.bool_)


@implements(np.allclose)
def _np_allclose(a, b, rtol=1e-5, atol=1e-8, equal_nan=False):
    return _all_any(_np_isclose(a, b, rtol, atol), None, True)


@implements(np.round, np.around)
def _np_round(a, decimals=0, out=None):
    if isinstance(a, SymArray) and a._sd.kind in 'iub':
        return a
    raise EngineError('round of symbolic reals')


@implements(np.linalg.norm)
def _np_norm(x, ord=None, axis=None, keepdims=False):
    # shadow first: argument errors are those of real NumPy
    np.linalg.norm(dummy(x), ord=ord, axis=axis, keepdims=keepdims)
    if ord not in (None, 2, 'fro') or (ord == 2 and (axis is None and x.ndim != 1 or isinstance(axis, tuple))):
        raise EngineError(f'norm ord={ord}')
    p = plain(x)
    sq = _elementwise(lambda e: (e.real * e.real + e.imag * e.imag) if isinstance(e, (SC, Dual, complex, np.complexfloating)) else e * e, p)
    s = np.add.reduce(sq, axis=axis, keepdims=keepdims) if axis is not None else np.add.reduce(sq.reshape(-1))
    if isinstance(s, np.ndarray):
        return wrap(_elementwise(lambda e: S.as_sc(e).sqrt() if not isinstance(e, Dual) else e.sqrt(), s), np.float64)
    r = S.as_sc(s).sqrt() if not isinstance(s, Dual) else s.sqrt()
    if keepdims:
        out = np.empty((1,) * p.ndim, dtype=object)
        out.reshape(-1)[0] = r
        return wrap(out, np.float64)
    return r


@implements(np.unpackbits)
def _np_unpackbits(a, axis=None, count=None, bitorder='big'):
    if a._sd != np.uint8:
        raise TypeError('Expected an input array of unsigned byte data type')
    p = plain(a)
    if axis is None:
        p = p.reshape(-1)
        axis = 0
    axis = axis % p.ndim
    q = np.moveaxis(p, axis, -1)
    out = np.empty(q.shape[:-1] + (q.shape[-1] * 8,), dtype=object)
    for idx in np.ndindex(*q.shape):
        e = cast_elem(q[idx], np.uint8)
        for b in range(8):
            bit = (7 - b) if bitorder == 'big' else b
            out[idx[:-1] + (idx[-1] * 8 + b,)] = BVS(ir.bvext(ir.bvextract(e.n, bit, bit), 8, False), np.uint8)
    out = np.moveaxis(out, -1, axis)
    if count is not None:
        sl = [slice(None)] * out.ndim
        sl[axis] = slice(None, count)
        out = out[tuple(sl)]
    return wrap(out, np.uint8)


@implements(np.packbits)
def _np_packbits(a, axis=None, bitorder='big'):
    p = plain(a)
    if axis is None:
        p = p.reshape(-1)
        axis = 0
    axis = axis % p.ndim
    q = np.moveaxis(p, axis, -1)
    nbytes = (q.shape[-1] + 7) // 8
    out = np.empty(q.shape[:-1] + (nbytes,), dtype=object)
    for idx in np.ndindex(*(q.shape[:-1] + (nbytes,))):
        bits = []
        for b in range(8):
            j = idx[-1] * 8 + b
            if j < q.shape[-1]:
                e = q[idx[:-1] + (j,)]
                nz = S.as_sb(e).n                # packbits treats any non-zero as 1
                bits.append(ir.rite(nz, ir.bvconst(1, 1), ir.bvconst(0, 1)))
            else:
                bits.append(ir.bvconst(0, 1))
        if bitorder == 'big':
            r = bits[0]
            for b in bits[1:]:
                r = ir.bvconcat(r, b)
        else:
            r = bits[7]
            for b in reversed(bits[:7]):
                r = ir.bvconcat(r, b)
        out[idx] = BVS(r, np.uint8)
    return wrap(np.moveaxis(out, -1, axis), np.uint8)


@implements(np.array_equiv)
def _np_array_equiv(a, b):
    try:
        bb = np.broadcast(plain(a) if isinstance(a, np.ndarray) else a, plain(b) if isinstance(b, np.ndarray) else b)
    except ValueError:
        return False
    r = ir.TRUE
    for x, y in bb:
        r = ir.band(r, S.as_sb(_sym_eq(x, y)).n)
    return SB(r)


@implements(np.roll)
def _np_roll(a, shift, axis=None):
    return wrap(np.roll(plain(a), shift, axis), a._sd)


@implements(np.triu)
def _np_triu(m, k=0):
    p = plain(m)
    if p.ndim == 1:      # NumPy broadcasts a vector against the (N,N) mask
        p = np.broadcast_to(p, (p.shape[0], p.shape[0]))
    mask = np.triu(np.ones(p.shape[-2:], dtype=bool), k)
    out = p.copy()
    z = typed_const(0, m._sd) if m._sd is not None and m._sd != object else 0
    for idx in np.ndindex(*p.shape):
        if not mask[idx[-2:]]:
            out[idx] = z
    return wrap(out, m._sd)


@implements(np.tril)
def _np_tril(m, k=0):
    p = plain(m)
    if p.ndim == 1:      # NumPy broadcasts a vector against the (N,N) mask
        p = np.broadcast_to(p, (p.shape[0], p.shape[0]))
    mask = np.tril(np.ones(p.shape[-2:], dtype=bool), k)
    out = p.copy()
    z = typed_const(0, m._sd) if m._sd is not None and m._sd != object else 0
    for idx in np.ndindex(*p.shape):
        if not mask[idx[-2:]]:
            out[idx] = z
    return wrap(out, m._sd)
