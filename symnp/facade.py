"""Module facades: rebind `np` (and friends) inside the numqi modules under test for the duration of a
symbolic run.  Everything is delegated to the real module except constructors (which must be able to hold
symbolic elements) and explicitly installed stubs.  The numqi function objects themselves are untouched."""
import sys
import types
import contextlib
import numpy as _np
from . import arrays as A
from . import scalars as S
from . import ir


class Facade:
    """attribute proxy over a real module with an override table"""

    def __init__(self, real, overrides=None, name=None):
        object.__setattr__(self, '_real', real)
        object.__setattr__(self, '_over', dict(overrides or {}))
        object.__setattr__(self, '_name', name or getattr(real, '__name__', 'module'))

    def __getattr__(self, k):
        o = object.__getattribute__(self, '_over')
        if k in o:
            return o[k]
        return getattr(object.__getattribute__(self, '_real'), k)

    def __setattr__(self, k, v):
        object.__getattribute__(self, '_over')[k] = v

    def __repr__(self):
        return f'<symnp facade of {self._name}>'


def _shape_tuple(shape):
    if isinstance(shape, (int, _np.integer)):
        return (int(shape),)
    return tuple(int(s) for s in shape)


def _const_array(shape, v, dtype):
    sd = _np.dtype(dtype if dtype is not None else _np.float64)
    if sd.kind not in 'iubfc':
        return None
    shp = _shape_tuple(shape)
    out = _np.empty(shp, dtype=object)
    out.reshape(-1)[:] = [A.typed_const(v, sd)] * out.size
    return A.wrap(out, sd)


def np_zeros(shape, dtype=None, order='C', **k):
    r = _const_array(shape, 0, dtype)
    return r if r is not None else _np.zeros(shape, dtype=dtype)


def np_ones(shape, dtype=None, order='C', **k):
    r = _const_array(shape, 1, dtype)
    return r if r is not None else _np.ones(shape, dtype=dtype)


def np_empty(shape, dtype=None, order='C', **k):
    return np_zeros(shape, dtype)


def np_full(shape, fill_value, dtype=None, order='C', **k):
    if A.is_sym_scalar(fill_value):
        shp = _shape_tuple(shape)
        out = _np.empty(shp, dtype=object)
        out.reshape(-1)[:] = [fill_value] * out.size
        return A.wrap(out, dtype)
    if dtype is None:
        dtype = _np.asarray(fill_value).dtype
    r = _const_array(shape, fill_value, dtype)
    return r if r is not None else _np.full(shape, fill_value, dtype=dtype)


def np_eye(N, M=None, k=0, dtype=None, **kw):
    c = _np.eye(N, M, k, dtype=dtype if dtype is not None else _np.float64)
    return A.sym_array(c, c.dtype)


def np_identity(n, dtype=None):
    return np_eye(n, dtype=dtype)


def np_array(obj, dtype=None, copy=True, **k):
    if A.has_sym(obj):
        if isinstance(obj, A.SymArray) and dtype is None:
            return obj.copy() if copy else obj
        return A.sym_array(obj, dtype)
    return _np.array(obj, dtype=dtype, **k)


def np_asarray(obj, dtype=None, **k):
    if isinstance(obj, A.SymArray):
        if dtype is None or _np.dtype(dtype) == obj._sd:
            return obj
        return obj.astype(dtype)
    if A.has_sym(obj):
        return A.sym_array(obj, dtype)
    return _np.asarray(obj, dtype=dtype, **k)


def np_ascontiguousarray(obj, dtype=None, **k):
    return np_asarray(obj, dtype)


def _scalar_fn(name):
    real = getattr(_np, name)

    def f(x, *a, **k):
        if A.is_sym_scalar(x) and not a and not k:
            return getattr(x, name)()
        return real(x, *a, **k)
    f.__name__ = name
    return f


def np_stack_like(name):
    real = getattr(_np, name)

    def f(arrays, *a, **k):
        # lists mixing concrete arrays and SymArrays: let __array_function__ dispatch; pure-python lists of
        # symbolic scalars need explicit conversion
        if isinstance(arrays, (list, tuple)) and any(A.is_sym_scalar(x) for x in arrays):
            arrays = [A.sym_array(x) if A.is_sym_scalar(x) else x for x in arrays]
        return real(arrays, *a, **k)
    return f


def make_np_facade(extra=None, linalg=None, random=None):
    over = {
        'zeros': np_zeros, 'ones': np_ones, 'empty': np_empty, 'full': np_full, 'eye': np_eye,
        'identity': np_identity, 'array': np_array, 'asarray': np_asarray, 'ascontiguousarray': np_ascontiguousarray,
        'stack': np_stack_like('stack'), 'concatenate': np_stack_like('concatenate'),
        'hstack': np_stack_like('hstack'), 'vstack': np_stack_like('vstack'),
    }
    for nm in ('sqrt', 'exp', 'log', 'log1p', 'cos', 'sin', 'tan', 'arccos', 'arcsin', 'tanh', 'conj', 'conjugate',
               'abs', 'absolute'):
        pass  # numpy already routes these to the element's same-named method for object scalars
    over['abs'] = over['absolute'] = lambda x, *a, **k: abs(x) if A.is_sym_scalar(x) else _np.abs(x, *a, **k)
    over['real'] = lambda x: x.real if (A.is_sym_scalar(x) or isinstance(x, A.SymArray)) else _np.real(x)
    over['imag'] = lambda x: x.imag if (A.is_sym_scalar(x) or isinstance(x, A.SymArray)) else _np.imag(x)
    over['conj'] = over['conjugate'] = lambda x: x.conjugate() if (A.is_sym_scalar(x) or isinstance(x, A.SymArray)) else _np.conj(x)
    over['iscomplexobj'] = lambda x: ((x._sd.kind == 'c') if isinstance(x, A.SymArray) else
                                      (not x.isreal if isinstance(x, S.SC) else _np.iscomplexobj(x)))
    over['isrealobj'] = lambda x: not over['iscomplexobj'](x)
    if linalg:
        over['linalg'] = Facade(_np.linalg, linalg, 'numpy.linalg')
    if random:
        over['random'] = Facade(_np.random, random, 'numpy.random')
    if extra:
        over.update(extra)
    return Facade(_np, over, 'numpy')


@contextlib.contextmanager
def patched(np_facade=None, extra_globals=None, module_prefix='numqi'):
    """rebind the global `np` of every imported numqi module to the facade (and optional other globals:
    {module_name: {global_name: value}}); undo on exit."""
    np_facade = np_facade or make_np_facade()
    saved = []
    clear_caches(module_prefix)
    try:
        for name, mod in list(sys.modules.items()):
            if mod is None or not (name == module_prefix or name.startswith(module_prefix + '.')):
                continue
            d = getattr(mod, '__dict__', None)
            if d is None:
                continue
            if d.get('np') is _np:
                saved.append((d, 'np', _np))
                d['np'] = np_facade
        for mname, repl in (extra_globals or {}).items():
            d = sys.modules[mname].__dict__
            for k, v in repl.items():
                saved.append((d, k, d.get(k, _MISSING)))
                d[k] = v
        yield np_facade
    finally:
        for d, k, v in reversed(saved):
            if v is _MISSING:
                d.pop(k, None)
            else:
                d[k] = v
        clear_caches(module_prefix)


def clear_caches(module_prefix='numqi'):
    """functools caches in numqi must not leak values between symbolic and real-NumPy executions"""
    for name, mod in list(sys.modules.items()):
        if mod is None or not (name == module_prefix or name.startswith(module_prefix + '.')):
            continue
        for v in list(getattr(mod, '__dict__', {}).values()):
            cc = getattr(v, 'cache_clear', None)
            if callable(cc):
                try:
                    cc()
                except Exception:
                    pass


_MISSING = object()
