"""Hash-consed term DAG for symbolic scalars, with SMT-LIB2 emission and concrete evaluation.

Sorts: 'R' (exact real), 'B' (bool), ('BV', w) (bit-vector of width w), 'F' (IEEE binary64).
Only *local* constant folding is performed here (0+x, 1*x, const op const, x xor x ...); no polynomial
normalisation: deciding identities is the solver's job.
"""
from fractions import Fraction
import math

_TABLE = {}
_EXTRACT_MEMO = {}
_COUNTER = [0]
NARROW = False   # push bit extraction through + - * and compute zero-extended narrow products at narrow width (sound BV identities; helps or hurts the SAT back end depending on the formula)


class N:
    __slots__ = ('op', 'args', 'sort', 'id', 'val')

    def __repr__(self):
        if self.op == 'const':
            return f'{self.val}'
        if self.op == 'var':
            return f'{self.val}'
        return f'({self.op} ' + ' '.join(map(repr, self.args)) + ')' if self.id < 0 else f'<{self.op}#{self.id}>'

    def __hash__(self):
        return self.id

    def __eq__(self, o):
        return self is o


def _mk(op, args, sort, val=None):
    key = (op, tuple(a.id for a in args), sort, val)
    r = _TABLE.get(key)
    if r is None:
        r = N.__new__(N)
        r.op = op
        r.args = tuple(args)
        r.sort = sort
        r.val = val
        r.id = _COUNTER[0]
        _COUNTER[0] += 1
        _TABLE[key] = r
    return r


def reset():
    """Forget all terms (frees memory between obligations groups). Constants are re-created lazily."""
    _TABLE.clear()
    _EXTRACT_MEMO.clear()
    global ZERO, ONE, MONE, TRUE, FALSE
    ZERO = rconst(0)
    ONE = rconst(1)
    MONE = rconst(-1)
    TRUE = _mk('const', (), 'B', True)
    FALSE = _mk('const', (), 'B', False)


# ---------------------------------------------------------------- reals
def rconst(x):
    if not isinstance(x, Fraction):
        x = Fraction(x)
    return _mk('const', (), 'R', x)


def rvar(name):
    return _mk('var', (), 'R', name)


def isconst(a):
    return a.op == 'const'


def radd(a, b):
    if a.op == 'const':
        if b.op == 'const':
            return rconst(a.val + b.val)
        if a.val == 0:
            return b
    elif b.op == 'const' and b.val == 0:
        return a
    return _mk('add', (a, b), 'R')


def rneg(a):
    if a.op == 'const':
        return rconst(-a.val)
    if a.op == 'neg':
        return a.args[0]
    return _mk('neg', (a,), 'R')


def rsub(a, b):
    if b.op == 'const':
        if a.op == 'const':
            return rconst(a.val - b.val)
        if b.val == 0:
            return a
    if a is b:
        return ZERO
    if a.op == 'const' and a.val == 0:
        return rneg(b)
    return _mk('sub', (a, b), 'R')


def rmul(a, b):
    if a.op == 'const':
        if b.op == 'const':
            return rconst(a.val * b.val)
        if a.val == 0:
            return ZERO
        if a.val == 1:
            return b
        if a.val == -1:
            return rneg(b)
    elif b.op == 'const':
        if b.val == 0:
            return ZERO
        if b.val == 1:
            return a
        if b.val == -1:
            return rneg(a)
    return _mk('mul', (a, b), 'R')


def rdiv(a, b):
    if b.op == 'const':
        if b.val == 0:
            raise ZeroDivisionError('symnp: division by exact zero')
        return rmul(a, rconst(1 / b.val))
    if a.op == 'const' and a.val == 0:
        return ZERO
    return _mk('div', (a, b), 'R')


def rite(c, a, b):
    if c.op == 'const':
        return a if c.val else b
    if a is b:
        return a
    return _mk('ite', (c, a, b), a.sort)


def rcmp(op, a, b):
    """op in lt le eq"""
    if a.op == 'const' and b.op == 'const':
        if op == 'lt':
            return bconst(a.val < b.val)
        if op == 'le':
            return bconst(a.val <= b.val)
        return bconst(a.val == b.val)
    if a is b:
        return bconst(op != 'lt')
    return _mk(op, (a, b), 'B')


# ---------------------------------------------------------------- bools
def bconst(v):
    return TRUE if v else FALSE


def bvar(name):
    return _mk('var', (), 'B', name)


def bnot(a):
    if a.op == 'const':
        return bconst(not a.val)
    if a.op == 'not':
        return a.args[0]
    return _mk('not', (a,), 'B')


def band(a, b):
    if a.op == 'const':
        return b if a.val else FALSE
    if b.op == 'const':
        return a if b.val else FALSE
    if a is b:
        return a
    return _mk('and', (a, b), 'B')


def bor(a, b):
    if a.op == 'const':
        return TRUE if a.val else b
    if b.op == 'const':
        return TRUE if b.val else a
    if a is b:
        return a
    return _mk('or', (a, b), 'B')


def bxor(a, b):
    if a.op == 'const':
        return bnot(b) if a.val else b
    if b.op == 'const':
        return bnot(a) if b.val else a
    if a is b:
        return FALSE
    return _mk('xor', (a, b), 'B')


def beq(a, b):
    return bnot(bxor(a, b))


def band_all(xs):
    r = TRUE
    for x in xs:
        r = band(r, x)
    return r


def bor_all(xs):
    r = FALSE
    for x in xs:
        r = bor(r, x)
    return r


# ---------------------------------------------------------------- bit-vectors
def _mask(w):
    return (1 << w) - 1


def bvconst(v, w):
    return _mk('const', (), ('BV', w), int(v) & _mask(w))


def bvvar(name, w):
    return _mk('var', (), ('BV', w), name)


def _tosigned(v, w):
    return v - (1 << w) if v >> (w - 1) else v


def bvbin(op, a, b):
    """op in bvadd bvsub bvmul bvand bvor bvxor bvudiv bvurem bvsdiv bvsrem bvsmod bvshl bvlshr bvashr"""
    w = a.sort[1]
    assert a.sort == b.sort, (a.sort, b.sort)
    if a.op == 'const' and b.op == 'const':
        x, y = a.val, b.val
        if op == 'bvadd':
            return bvconst(x + y, w)
        if op == 'bvsub':
            return bvconst(x - y, w)
        if op == 'bvmul':
            return bvconst(x * y, w)
        if op == 'bvand':
            return bvconst(x & y, w)
        if op == 'bvor':
            return bvconst(x | y, w)
        if op == 'bvxor':
            return bvconst(x ^ y, w)
        if op == 'bvudiv':
            return bvconst(x // y if y else _mask(w), w)
        if op == 'bvurem':
            return bvconst(x % y if y else x, w)
        if op == 'bvshl':
            return bvconst(x << y if y < w else 0, w)
        if op == 'bvlshr':
            return bvconst(x >> y if y < w else 0, w)
        sx, sy = _tosigned(x, w), _tosigned(y, w)
        if op == 'bvashr':
            return bvconst(sx >> min(y, w - 1), w)
        if op == 'bvsdiv':  # truncation toward zero
            if sy == 0:
                return bvconst(1 if sx < 0 else _mask(w), w)
            q = abs(sx) // abs(sy)
            return bvconst(q if (sx < 0) == (sy < 0) else -q, w)
        if op == 'bvsrem':  # sign follows dividend
            if sy == 0:
                return a
            r = abs(sx) % abs(sy)
            return bvconst(-r if sx < 0 else r, w)
        if op == 'bvsmod':  # sign follows divisor (python semantics)
            if sy == 0:
                return a
            return bvconst(sx % sy, w)
    if op in ('bvadd', 'bvor', 'bvxor'):
        if a.op == 'const' and a.val == 0:
            return b
        if b.op == 'const' and b.val == 0:
            return a
    if op in ('bvsub', 'bvshl', 'bvlshr', 'bvashr') and b.op == 'const' and b.val == 0:
        return a
    if op == 'bvmul':
        for p, q in ((a, b), (b, a)):
            if p.op == 'const':
                if p.val == 0:
                    return p
                if p.val == 1:
                    return q
    if op == 'bvand':
        for p, q in ((a, b), (b, a)):
            if p.op == 'const':
                if p.val == 0:
                    return p
                if p.val == _mask(w):
                    return q
        if a is b:
            return a
    if op == 'bvxor' and a is b:
        return bvconst(0, w)
    if op in ('bvudiv',) and b.op == 'const' and b.val == 1:
        return a
    if NARROW and b.op == 'const' and b.val > 0 and (b.val & (b.val - 1)) == 0:
        k = b.val.bit_length() - 1
        if op == 'bvurem':
            return bvconst(0, w) if k == 0 else bvext(bvextract(a, k - 1, 0), w, False)
        if op == 'bvudiv':
            return bvext(bvextract(a, w - 1, k), w, False)
    if NARROW and op == 'bvlshr' and b.op == 'const' and 0 < b.val < w:
        return bvext(bvextract(a, w - 1, b.val), w, False)
    if NARROW and op == 'bvand':
        for p, q in ((a, b), (b, a)):
            if p.op == 'const' and p.val > 0 and (p.val & (p.val + 1)) == 0:
                k = p.val.bit_length()
                return bvext(bvextract(q, k - 1, 0), w, False)
    if w == 1:
        if op in ('bvadd', 'bvsub'):
            return bvbin('bvxor', a, b)
        if op == 'bvmul':
            return bvbin('bvand', a, b)
    # product / sum of zero-extended narrow values that cannot overflow: compute at the narrow width
    if NARROW and op in ('bvmul', 'bvadd') and a.op == 'zext' and b.op == 'zext':
        wa, wb = a.args[0].sort[1], b.args[0].sort[1]
        need = (wa + wb) if op == 'bvmul' else (max(wa, wb) + 1)
        if need < w:
            return bvext(bvbin(op, bvext(a.args[0], need, False), bvext(b.args[0], need, False)), w, False)
    if NARROW and op in ('bvmul', 'bvadd') and ((a.op == 'zext' and b.op == 'const') or (b.op == 'zext' and a.op == 'const')):
        z, c = (a, b) if a.op == 'zext' else (b, a)
        wz = z.args[0].sort[1]
        need = (wz + c.val.bit_length()) if op == 'bvmul' else (max(wz, c.val.bit_length()) + 1)
        if 0 < need < w:
            return bvext(bvbin(op, bvext(z.args[0], need, False), bvconst(c.val, need)), w, False)
    return _mk(op, (a, b), a.sort)


def bvun(op, a):
    """op in bvneg bvnot"""
    w = a.sort[1]
    if a.op == 'const':
        return bvconst(-a.val if op == 'bvneg' else ~a.val, w)
    return _mk(op, (a,), a.sort)


def bvcmp(op, a, b):
    """op in eq bvult bvule bvslt bvsle"""
    assert a.sort == b.sort, (a.sort, b.sort)
    w = a.sort[1]
    if a.op == 'const' and b.op == 'const':
        x, y = a.val, b.val
        if op == 'eq':
            return bconst(x == y)
        if op == 'bvult':
            return bconst(x < y)
        if op == 'bvule':
            return bconst(x <= y)
        sx, sy = _tosigned(x, w), _tosigned(y, w)
        return bconst(sx < sy if op == 'bvslt' else sx <= sy)
    if a is b:
        return bconst(op in ('eq', 'bvule', 'bvsle'))
    # comparisons of zero-extended values: decide at the narrow width
    za = a.args[0] if a.op == 'zext' else None
    zb = b.args[0] if b.op == 'zext' else None
    if op in ('eq', 'bvult', 'bvule') or (op in ('bvslt', 'bvsle') and (za is not None or a.op == 'const' and a.val >> (w - 1) == 0)
                                          and (zb is not None or b.op == 'const' and b.val >> (w - 1) == 0)):
        uop = {'bvslt': 'bvult', 'bvsle': 'bvule'}.get(op, op)
        if za is not None and zb is not None:
            m = max(za.sort[1], zb.sort[1])
            return bvcmp(uop, bvext(za, m, False), bvext(zb, m, False))
        if za is not None and b.op == 'const':
            wz = za.sort[1]
            if b.val >> wz:
                return bconst(uop != 'eq')          # a < 2^wz <= b
            return bvcmp(uop, za, bvconst(b.val, wz))
        if zb is not None and a.op == 'const':
            wz = zb.sort[1]
            if a.val >> wz:
                return FALSE                         # a >= 2^wz > b : a==b, a<b, a<=b all false
            return bvcmp(uop, bvconst(a.val, wz), zb)
    return _mk(op, (a, b), 'B')


def bvext(a, w2, signed):
    w = a.sort[1]
    if w2 == w:
        return a
    if w2 < w:
        if a.op == 'const':
            return bvconst(a.val, w2)
        return _mk('extract', (a,), ('BV', w2), (w2 - 1, 0))
    if a.op == 'const':
        return bvconst(_tosigned(a.val, w) if signed else a.val, w2)
    if a.op == 'zext':
        return bvext(a.args[0], w2, False)     # zero-extension composes (also under a signed extension: top bit is 0)
    return _mk('sext' if signed else 'zext', (a,), ('BV', w2), w2 - w)


_LOWBIT_OPS = ('bvadd', 'bvsub', 'bvmul')
_BITWISE_OPS = ('bvand', 'bvor', 'bvxor')


def bvextract(a, hi, lo):
    """bits hi..lo of a; pushes the extraction towards the leaves where that is an identity of bit-vector
    arithmetic (low bits of + - * depend only on the low bits of the operands), so that F2 code written with
    uint8 arithmetic is decided at the width it really needs."""
    w = a.sort[1]
    assert 0 <= lo <= hi < w, (hi, lo, w)
    if a.op == 'const':
        return bvconst(a.val >> lo, hi - lo + 1)
    if lo == 0 and hi == w - 1:
        return a
    key = (a.id, hi, lo)
    r = _EXTRACT_MEMO.get(key)
    if r is not None:
        return r
    op = a.op
    nw = hi - lo + 1
    if op == 'extract':
        l2 = a.val[1]
        r = bvextract(a.args[0], hi + l2, lo + l2)
    elif op == 'zext':
        x = a.args[0]
        wx = x.sort[1]
        if hi < wx:
            r = bvextract(x, hi, lo)
        elif lo >= wx:
            r = bvconst(0, nw)
        else:
            r = bvext(bvextract(x, wx - 1, lo), nw, False)
    elif op == 'sext' and hi < a.args[0].sort[1]:
        r = bvextract(a.args[0], hi, lo)
    elif op == 'concat':
        hi_part, lo_part = a.args
        wl = lo_part.sort[1]
        if hi < wl:
            r = bvextract(lo_part, hi, lo)
        elif lo >= wl:
            r = bvextract(hi_part, hi - wl, lo - wl)
        else:
            r = _mk('extract', (a,), ('BV', nw), (hi, lo))
    elif NARROW and op in _BITWISE_OPS:
        r = bvbin(op, bvextract(a.args[0], hi, lo), bvextract(a.args[1], hi, lo))
    elif NARROW and op == 'bvnot':
        r = bvun('bvnot', bvextract(a.args[0], hi, lo))
    elif NARROW and op in _LOWBIT_OPS and lo == 0:
        r = bvbin(op, bvextract(a.args[0], hi, 0), bvextract(a.args[1], hi, 0))
    elif NARROW and op == 'bvneg' and lo == 0:
        r = bvun('bvneg', bvextract(a.args[0], hi, 0))
    elif NARROW and op == 'ite':
        r = rite(a.args[0], bvextract(a.args[1], hi, lo), bvextract(a.args[2], hi, lo))
    elif NARROW and op in _LOWBIT_OPS and lo > 0:
        # high bits of a sum/product need the low bits too: narrow to hi+1 bits first, then cut
        inner = bvbin(op, bvextract(a.args[0], hi, 0), bvextract(a.args[1], hi, 0)) if hi < w - 1 else a
        r = _mk('extract', (inner,), ('BV', nw), (hi, lo)) if inner.op != 'const' else bvconst(inner.val >> lo, nw)
    else:
        r = _mk('extract', (a,), ('BV', nw), (hi, lo))
    _EXTRACT_MEMO[key] = r
    return r


def bvconcat(a, b):
    wa, wb = a.sort[1], b.sort[1]
    if a.op == 'const' and b.op == 'const':
        return bvconst((a.val << wb) | b.val, wa + wb)
    return _mk('concat', (a, b), ('BV', wa + wb))


def bool2bv(c, w):
    return rite(c, bvconst(1, w), bvconst(0, w))


def bv2real(a, signed):
    """integer value of a bit-vector as a real term (used only for mixed arithmetic, rarely)."""
    if a.op == 'const':
        return rconst(_tosigned(a.val, a.sort[1]) if signed else a.val)
    return _mk('bv2real', (a,), 'R', signed)


# ---------------------------------------------------------------- floats (binary64)
def fconst(x):
    return _mk('const', (), 'F', float(x).hex())


def fvar(name):
    return _mk('var', (), 'F', name)


def fbin(op, a, b):
    """fp.add fp.sub fp.mul fp.div (RNE)"""
    return _mk(op, (a, b), 'F')


def fun(op, a):
    """fp.neg fp.abs fp.sqrt"""
    return _mk(op, (a,), 'F')


def fcmp(op, a, b):
    """fp.lt fp.leq fp.eq"""
    return _mk(op, (a, b), 'B')


def fp_from_bv(a, signed):
    """binary64 nearest (RNE) to the integer value of a bit-vector"""
    if a.op == 'const':
        return fconst(float(_tosigned(a.val, a.sort[1]) if signed else a.val))
    return _mk('to_fp_sbv' if signed else 'to_fp_ubv', (a,), 'F')


def fp_to_bv(a, w, signed):
    """C-style conversion (round toward zero) of a binary64 to a w-bit integer (unspecified outside the range)"""
    return _mk('fp.to_sbv' if signed else 'fp.to_ubv', (a,), ('BV', w), w)


def fpred(op, a):
    """fp.isNaN fp.isInfinite fp.isZero fp.isNegative"""
    return _mk(op, (a,), 'B')


reset()

# ---------------------------------------------------------------- traversal


def topo(roots):
    """nodes reachable from roots in dependency order (iterative)."""
    seen = set()
    order = []
    stack = [(r, False) for r in roots]
    while stack:
        n, done = stack.pop()
        if done:
            order.append(n)
            continue
        if n.id in seen:
            continue
        seen.add(n.id)
        stack.append((n, True))
        for a in n.args:
            if a.id not in seen:
                stack.append((a, False))
    return order


def variables(roots):
    return [n for n in topo(roots) if n.op == 'var']


def _sort_smt(s):
    if s == 'R':
        return 'Real'
    if s == 'B':
        return 'Bool'
    if s == 'F':
        return '(_ FloatingPoint 11 53)'
    return f'(_ BitVec {s[1]})'


def _const_smt(n):
    s = n.sort
    if s == 'R':
        v = n.val
        if v.denominator == 1:
            t = f'{abs(v.numerator)}.0'
        else:
            t = f'(/ {abs(v.numerator)}.0 {v.denominator}.0)'
        return f'(- {t})' if v < 0 else t
    if s == 'B':
        return 'true' if n.val else 'false'
    if s == 'F':
        x = float.fromhex(n.val)
        if x != x:
            return '(_ NaN 11 53)'
        if math.isinf(x):
            return '(_ +oo 11 53)' if x > 0 else '(_ -oo 11 53)'
        import struct
        b = struct.unpack('>Q', struct.pack('>d', x))[0]
        return f'(fp #b{b >> 63:01b} #b{(b >> 52) & 0x7ff:011b} #b{b & ((1 << 52) - 1):052b})'
    w = s[1]
    return f'(_ bv{n.val} {w})'


_SMT_OP = {'add': '+', 'sub': '-', 'mul': '*', 'div': '/', 'neg': '-', 'lt': '<', 'le': '<=', 'eq': '=',
           'xor': 'xor', 'and': 'and', 'or': 'or', 'not': 'not', 'ite': 'ite', 'concat': 'concat'}


def _name(n):
    return f'n{n.id}'


import re as _re
_SIMPLE = _re.compile(r'^[A-Za-z_!.$%&*+<=>?@^~-][A-Za-z0-9_!.$%&*+<=>?@^~-]*$')


def _vname(s):
    return s if _SIMPLE.match(s) else '|' + s + '|'


def to_smt(assertions, logic=None, extra_decls=(), get_model=False, inline_limit=0):
    """SMT-LIB2 script asserting every node in `assertions` (sort B).

    Every interior node becomes a zero-ary define-fun, so sharing in the DAG is preserved."""
    out = []
    if logic:
        out.append(f'(set-logic {logic})')
    order = topo(assertions)
    for n in order:
        if n.op == 'var':
            out.append(f'(declare-fun {_vname(n.val)} () {_sort_smt(n.sort)})')
    out.extend(extra_decls)
    ref = {}
    for n in order:
        if n.op == 'var':
            ref[n.id] = _vname(n.val)
            continue
        if n.op == 'const':
            ref[n.id] = _const_smt(n)
            continue
        a = [ref[x.id] for x in n.args]
        op = n.op
        if op in _SMT_OP:
            body = f'({_SMT_OP[op]} ' + ' '.join(a) + ')'
        elif op == 'extract':
            body = f'((_ extract {n.val[0]} {n.val[1]}) {a[0]})'
        elif op == 'zext':
            body = f'((_ zero_extend {n.val}) {a[0]})'
        elif op == 'sext':
            body = f'((_ sign_extend {n.val}) {a[0]})'
        elif op == 'bv2real':
            # unsigned value; signed handled by subtracting 2^w when the top bit is set
            w = n.args[0].sort[1]
            u = f'(to_real (bv2nat {a[0]}))'
            if n.val:
                body = f'(ite (bvslt {a[0]} (_ bv0 {w})) (- {u} {1 << w}.0) {u})'
            else:
                body = u
        elif op in ('fp.add', 'fp.sub', 'fp.mul', 'fp.div', 'fp.sqrt'):
            body = f'({op} RNE ' + ' '.join(a) + ')'
        elif op == 'to_fp_ubv':
            body = f'((_ to_fp_unsigned 11 53) RNE {a[0]})'
        elif op == 'to_fp_sbv':
            body = f'((_ to_fp 11 53) RNE {a[0]})'
        elif op in ('fp.to_ubv', 'fp.to_sbv'):
            body = f'((_ {op} {n.val}) RTZ {a[0]})'
        else:  # bv*, fp.* predicates
            body = f'({op} ' + ' '.join(a) + ')'
        nm = _name(n)
        out.append(f'(define-fun {nm} () {_sort_smt(n.sort)} {body})')
        ref[n.id] = nm
    for n in assertions:
        out.append(f'(assert {ref[n.id]})')
    out.append('(check-sat)')
    if get_model:
        out.append('(get-model)')
    return '\n'.join(out) + '\n'


def pretty(n, depth=6):
    """bounded-depth infix-ish rendering for evidence samples."""
    if n.op == 'const':
        return _const_smt(n)
    if n.op == 'var':
        return n.val
    if depth == 0:
        return '...'
    op = _SMT_OP.get(n.op, n.op)
    return '(' + op + ' ' + ' '.join(pretty(a, depth - 1) for a in n.args) + ')'


# ---------------------------------------------------------------- concrete evaluation
def evaluate(roots, env, exact=False):
    """Evaluate nodes under env {varname: python value}.  Reals -> float (or Fraction if exact),
    BV -> int (unsigned representative), bool -> bool, F -> float."""
    val = {}
    for n in topo(roots):
        op = n.op
        s = n.sort
        if op == 'var':
            val[n.id] = env[n.val]
            continue
        if op == 'const':
            if s == 'R':
                val[n.id] = n.val if exact else float(n.val)
            elif s == 'F':
                val[n.id] = float.fromhex(n.val)
            else:
                val[n.id] = n.val
            continue
        a = [val[x.id] for x in n.args]
        if op == 'add':
            v = a[0] + a[1]
        elif op == 'sub':
            v = a[0] - a[1]
        elif op == 'mul':
            v = a[0] * a[1]
        elif op == 'div':
            v = a[0] / a[1]
        elif op == 'neg':
            v = -a[0]
        elif op == 'ite':
            v = a[1] if a[0] else a[2]
        elif op == 'lt':
            v = a[0] < a[1]
        elif op == 'le':
            v = a[0] <= a[1]
        elif op == 'eq':
            v = a[0] == a[1]
        elif op == 'not':
            v = not a[0]
        elif op == 'and':
            v = a[0] and a[1]
        elif op == 'or':
            v = a[0] or a[1]
        elif op == 'xor':
            v = bool(a[0]) != bool(a[1])
        elif op.startswith('bv') and op != 'bv2real':
            w = n.args[0].sort[1]
            if op in ('bvneg', 'bvnot'):
                v = bvun(op, bvconst(a[0], w)).val
            elif op in ('bvult', 'bvule', 'bvslt', 'bvsle'):
                v = bvcmp(op, bvconst(a[0], w), bvconst(a[1], w)).val
            else:
                v = bvbin(op, bvconst(a[0], w), bvconst(a[1], w)).val
        elif op == 'extract':
            hi, lo = n.val
            v = (a[0] >> lo) & _mask(hi - lo + 1)
        elif op == 'zext':
            v = a[0]
        elif op == 'sext':
            w = n.args[0].sort[1]
            v = _tosigned(a[0], w) & _mask(s[1])
        elif op == 'concat':
            v = (a[0] << n.args[1].sort[1]) | a[1]
        elif op == 'bv2real':
            w = n.args[0].sort[1]
            v = _tosigned(a[0], w) if n.val else a[0]
        elif op == 'to_fp_ubv':
            v = float(a[0])
        elif op == 'to_fp_sbv':
            v = float(_tosigned(a[0], n.args[0].sort[1]))
        elif op in ('fp.to_ubv', 'fp.to_sbv'):
            v = int(a[0]) & _mask(n.val) if (a[0] == a[0] and abs(a[0]) != float('inf')) else 0
        elif op == 'fp.add':
            v = a[0] + a[1]
        elif op == 'fp.sub':
            v = a[0] - a[1]
        elif op == 'fp.mul':
            v = a[0] * a[1]
        elif op == 'fp.div':
            try:
                v = a[0] / a[1]
            except ZeroDivisionError:
                v = float('nan') if (a[0] == 0 or a[0] != a[0]) else math.copysign(float('inf'), a[0]) * math.copysign(1, a[1])
        elif op == 'fp.neg':
            v = -a[0]
        elif op == 'fp.abs':
            v = abs(a[0])
        elif op == 'fp.sqrt':
            v = math.sqrt(a[0]) if a[0] >= 0 else float('nan')
        elif op == 'fp.lt':
            v = a[0] < a[1]
        elif op == 'fp.leq':
            v = a[0] <= a[1]
        elif op == 'fp.eq':
            v = a[0] == a[1]
        elif op == 'fp.isNaN':
            v = a[0] != a[0]
        elif op == 'fp.isInfinite':
            v = math.isinf(a[0])
        elif op == 'fp.isZero':
            v = a[0] == 0
        elif op == 'fp.isNegative':
            v = math.copysign(1, a[0]) < 0 and a[0] == a[0]
        else:
            raise NotImplementedError(op)
        val[n.id] = v
    return [val[r.id] for r in roots]
