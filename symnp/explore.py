"""Path exploration by re-execution: symbolic bool() / int() decisions fork; z3 decides feasibility."""
import time
import z3
from . import ir
from . import scalars as S
from .solve import Z3Translator, model_value


class Infeasible(BaseException):
    """current path condition is unsatisfiable (BaseException: must not be swallowed by `except Exception`)"""


class PathLimit(Exception):
    pass


class Path:
    __slots__ = ('pc', 'status', 'value', 'ctx', 'extra')

    def __init__(self, pc, status, value, ctx):
        self.pc = pc            # list of B nodes (decisions taken, as literals)
        self.status = status    # 'return' | 'raise'
        self.value = value      # return value or exception instance
        self.ctx = ctx          # the run's context (facts / side conditions / notes / caches), live
        ctx.explorer = None
        self.extra = {}

    @property
    def facts(self):
        return self.ctx.facts

    @property
    def side(self):
        return self.ctx.side

    @property
    def notes(self):
        return self.ctx.notes

    def resume(self):
        """context manager: derive further terms in this path's context (shared sqrt / reciprocal variables)"""
        return _Resume(self.ctx)

    def cond(self):
        return ir.band_all(self.pc)


class _Resume:
    def __init__(self, ctx):
        self.ctx = ctx

    def __enter__(self):
        self.old = S.CTX
        S.CTX = self.ctx
        return self.ctx

    def __exit__(self, *a):
        S.CTX = self.old


class Explorer:
    def __init__(self, assumptions=(), timeout_ms=10000):
        self.tr = Z3Translator()
        self.solver = z3.Solver()
        self.solver.set('timeout', timeout_ms)
        for a in assumptions:
            self.solver.add(self.tr(a))
        self.prefix = []
        self.trace = []
        self.pending = []
        self.queries = 0
        self.solver_s = 0.0
        self.nfacts = 0
        self.unknowns = 0

    # -- per run
    def start(self, prefix):
        self.prefix = prefix
        self.trace = []
        self.nfacts = 0
        self.solver.push()

    def finish(self):
        self.solver.pop()

    def _sync_facts(self):
        facts = S.ctx().facts
        while self.nfacts < len(facts):
            self.solver.add(self.tr(facts[self.nfacts]))
            self.nfacts += 1

    def _check(self, *lits):
        t0 = time.time()
        r = self.solver.check(*lits)
        self.solver_s += time.time() - t0
        self.queries += 1
        if r == z3.unknown:
            self.unknowns += 1
        return r

    def decide(self, node, aux=None):
        i = len(self.trace)
        self._sync_facts()
        zn = self.tr(node)
        if i < len(self.prefix):
            rec_node, v, _ = self.prefix[i]
            if rec_node is not node:
                raise S.EngineError('non-deterministic re-execution (decision %d differs)' % i)
        else:
            rt = self._check(zn)
            rf = self._check(z3.Not(zn))
            t_ok = rt != z3.unsat   # unknown is treated as feasible (sound: more paths, obligations still decided by the solver)
            f_ok = rf != z3.unsat
            if t_ok and f_ok:
                v = True
                self.pending.append(list(self.trace) + [(node, False, aux)])
            elif t_ok:
                v = True
            elif f_ok:
                v = False
            else:
                raise Infeasible()
        self.trace.append((node, v, aux))
        self.solver.add(zn if v else z3.Not(zn))
        return v

    def assume(self, node):
        """restrict the current path to node (environment contract, e.g. 'the sampled outcome has positive probability'):
        no fork; Infeasible if the path cannot satisfy it"""
        if node.op == 'const':
            if node.val:
                return
            raise Infeasible()
        i = len(self.trace)
        self._sync_facts()
        zn = self.tr(node)
        if i < len(self.prefix):
            if self.prefix[i][0] is not node:
                raise S.EngineError('non-deterministic re-execution (assume %d differs)' % i)
        else:
            if self._check(zn) == z3.unsat:
                raise Infeasible()
        self.trace.append((node, True, 'assume'))
        self.solver.add(zn)

    def choose(self, n, name=None):
        """environment choice of an integer in range(n): forks over all values; no solver variable is involved"""
        i = len(self.trace)
        if i < len(self.prefix):
            tag = self.prefix[i][2]
            if not (isinstance(tag, tuple) and tag[0] == 'choice'):
                raise S.EngineError('non-deterministic re-execution (choice %d differs)' % i)
            k = tag[1]
        else:
            k = 0
            for other in range(n - 1, 0, -1):
                self.pending.append(list(self.trace) + [(ir.TRUE, True, ('choice', other))])
        self.trace.append((ir.TRUE, True, ('choice', k)))
        return k

    def concretize(self, bvs):
        """pick concrete values of a symbolic integer one at a time (each choice is a decision)"""
        w = bvs.n.sort[1]
        while True:
            i = len(self.trace)
            if i < len(self.prefix):
                val = self.prefix[i][2]
                if val is None:
                    raise S.EngineError('non-deterministic re-execution in concretize')
                node = ir.bvcmp('eq', bvs.n, ir.bvconst(val, w))
            else:
                self._sync_facts()
                r = self._check()
                if r != z3.sat:
                    if r == z3.unsat:
                        raise Infeasible()
                    raise S.EngineError('solver unknown while concretising an index')
                val = model_value(self.solver.model(), self.tr(bvs.n))
                node = ir.bvcmp('eq', bvs.n, ir.bvconst(val, w))
            if node.op == 'const':
                if node.val:
                    return ir._tosigned(val, w) if bvs.signed else val
                raise Infeasible()
            if self.decide(node, val):
                return ir._tosigned(val, w) if bvs.signed else val

    def pc(self):
        return [n if v else ir.bnot(n) for n, v, _ in self.trace]


def explore(fn, assumptions=(), max_paths=100000, timeout_ms=10000, prefix='', truncate=False):
    """run fn() under every feasible combination of its symbolic decisions.

    fn must create its fresh variables deterministically.  Returns (paths, stats)."""
    ex = Explorer(assumptions, timeout_ms)
    ex.pending = [[]]
    paths = []
    truncated = 0
    old = S.CTX
    try:
        while ex.pending:
            pre = ex.pending.pop()
            c = S.new_ctx(prefix)
            c.explorer = ex
            ex.start(pre)
            try:
                try:
                    out = fn()
                    paths.append(Path(ex.pc(), 'return', out, c))
                except Infeasible:
                    pass
                except S.EngineError:
                    raise
                except PathLimit:
                    raise
                except Exception as e:
                    paths.append(Path(ex.pc(), 'raise', e, c))
            finally:
                ex.finish()
            if len(paths) > max_paths:
                if truncate:      # caller states the truncation as a bound: the paths explored so far are still real paths
                    truncated = len(ex.pending)
                    break
                raise PathLimit(f'more than {max_paths} paths')
    finally:
        S.CTX = old
    stats = {'paths': len(paths), 'feasibility_queries': ex.queries, 'solver_s': round(ex.solver_s, 3),
             'unknown_feasibility': ex.unknowns, 'truncated_pending': truncated}
    return paths, stats
