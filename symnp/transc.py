"""Transcendental functions on symbolic scalars.

cos / sin / exp(i.) are modelled *algebraically*: an angle is a linear form (rational coefficients) over
real variables plus a rational multiple of pi; each base angle x/q is represented by a pair (c, s)
with c^2 + s^2 = 1, and cos/sin of the form are expanded with the addition and multiple-angle formulas.
This is exact for every property that holds for all angles as a consequence of c^2+s^2=1 (orthogonality,
unitarity, homomorphism laws).  arccos/arctan2 return fresh angle variables under their defining equations.
exp/log/log1p/tanh on reals are fresh variables under sign/monotonicity axioms (recorded as notes).
"""
from fractions import Fraction
import math
from . import ir
from . import scalars as S


def linear_form(node):
    """node -> ({var node: Fraction}, const Fraction) or raise EngineError"""
    memo = {}

    def rec(n):
        r = memo.get(n.id)
        if r is not None:
            return r
        op = n.op
        if op == 'const':
            r = ({}, n.val)
        elif op == 'var':
            r = ({n: Fraction(1)}, Fraction(0))
        elif op in ('add', 'sub'):
            a, ca = rec(n.args[0])
            b, cb = rec(n.args[1])
            sg = 1 if op == 'add' else -1
            d = dict(a)
            for k, v in b.items():
                d[k] = d.get(k, 0) + sg * v
            r = ({k: v for k, v in d.items() if v != 0}, ca + sg * cb)
        elif op == 'neg':
            a, ca = rec(n.args[0])
            r = ({k: -v for k, v in a.items()}, -ca)
        elif op == 'mul':
            x, y = n.args
            if x.op == 'const':
                a, ca = rec(y)
                r = ({k: v * x.val for k, v in a.items()}, ca * x.val)
            elif y.op == 'const':
                a, ca = rec(x)
                r = ({k: v * y.val for k, v in a.items()}, ca * y.val)
            else:
                raise S.EngineError('angle is not a linear form: ' + ir.pretty(n, 3))
        else:
            raise S.EngineError('angle is not a linear form: ' + ir.pretty(n, 3))
        memo[n.id] = r
        return r
    return rec(node)


_PI = Fraction(math.pi)


def pi_multiple(c):
    """Fraction c (exact value of a double, or small rational) -> Fraction m with c ~= m*pi, or None."""
    if c == 0:
        return Fraction(0)
    x = float(c) / math.pi
    for q in (1, 2, 3, 4, 6):
        p = round(x * q)
        if abs(x * q - p) < 1e-12 * max(1, abs(p)):
            return Fraction(p, q)
    return None


def _cs_pi_multiple(m):
    """exact (cos, sin) R-terms of m*pi for m with denominator in {1,2,3,4,6}"""
    m = m % 2
    table = {}
    r2 = lambda: S.sqrt_fraction(Fraction(1, 2))
    r3h = lambda: S.sqrt_fraction(Fraction(3, 4))
    half = ir.rconst(Fraction(1, 2))
    # first quadrant values
    def fq(t):  # t in [0, 1/2]
        if t == 0:
            return ir.ONE, ir.ZERO
        if t == Fraction(1, 6):
            return r3h(), half
        if t == Fraction(1, 4):
            return r2(), r2()
        if t == Fraction(1, 3):
            return half, r3h()
        if t == Fraction(1, 2):
            return ir.ZERO, ir.ONE
        raise S.EngineError(f'cos/sin of {t}*pi')
    if m <= Fraction(1, 2):
        return fq(m)
    if m <= 1:
        c, s = fq(1 - m)
        return ir.rneg(c), s
    if m <= Fraction(3, 2):
        c, s = fq(m - 1)
        return ir.rneg(c), ir.rneg(s)
    c, s = fq(2 - m)
    return c, ir.rneg(s)


class _AngleBook:
    """per-context registry of base angles: var node id -> (den, c, s)"""


def _book():
    c = S.ctx()
    b = getattr(c, '_angles', None)
    if b is None:
        b = {}
        c._angles = b
    return b


def _mult(c, s, k):
    """(cos, sin) of k*theta from (cos, sin) of theta, k >= 0 integer"""
    rc, rs = ir.ONE, ir.ZERO
    bc, bs = c, s
    while k:
        if k & 1:
            rc, rs = ir.rsub(ir.rmul(rc, bc), ir.rmul(rs, bs)), ir.radd(ir.rmul(rs, bc), ir.rmul(rc, bs))
        k >>= 1
        if k:
            bc, bs = ir.rsub(ir.rmul(bc, bc), ir.rmul(bs, bs)), ir.rmul(ir.rconst(2), ir.rmul(bs, bc))
    return rc, rs


def base_pair(var, den):
    """(cos, sin) terms for var/den, refining the registered base if necessary."""
    book = _book()
    c = S.ctx()
    ent = book.get(var.id)
    if ent is None:
        cc = ir.rvar(f'cos[{var.val}/{den}]' if den != 1 else f'cos[{var.val}]')
        ss = ir.rvar(f'sin[{var.val}/{den}]' if den != 1 else f'sin[{var.val}]')
        c.facts.append(ir.rcmp('eq', ir.radd(ir.rmul(cc, cc), ir.rmul(ss, ss)), ir.ONE))
        c.aux.append((cc, 'cos', (var, den)))
        c.aux.append((ss, 'sin', (var, den)))
        book[var.id] = (den, cc, ss)
        return cc, ss
    d0, c0, s0 = ent
    if d0 % den == 0:
        return _mult(c0, s0, d0 // den)
    new = d0 * den // math.gcd(d0, den)
    cc = ir.rvar(f'cos[{var.val}/{new}]')
    ss = ir.rvar(f'sin[{var.val}/{new}]')
    c.facts.append(ir.rcmp('eq', ir.radd(ir.rmul(cc, cc), ir.rmul(ss, ss)), ir.ONE))
    c.aux.append((cc, 'cos', (var, new)))
    c.aux.append((ss, 'sin', (var, new)))
    mc, ms = _mult(cc, ss, new // d0)
    c.facts.append(ir.rcmp('eq', mc, c0))
    c.facts.append(ir.rcmp('eq', ms, s0))
    book[var.id] = (new, cc, ss)
    return _mult(cc, ss, new // den)


def set_base_pair(var, cc, ss, den=1):
    """register externally defined (cos, sin) for an angle variable (used by arccos/arctan2)."""
    _book()[var.id] = (den, cc, ss)


def _find_indicator(node):
    """first ite(c, const, const) / ite(c, a, b) node inside a real term (depth-first), or None"""
    for n in ir.topo([node]):
        if n.op == 'ite' and n.sort == 'R':
            return n
    return None


def _assume_cond(node, cond, value):
    """node with the boolean `cond` fixed to `value`: every real if-then-else on cond (or its negation) collapses"""
    memo = {}
    for n in ir.topo([node]):
        if not n.args:
            memo[n.id] = n
            continue
        if n.op == 'ite' and n.sort == 'R':
            c = n.args[0]
            if c is cond:
                memo[n.id] = memo[(n.args[1] if value else n.args[2]).id]
                continue
            if c.op == 'not' and c.args[0] is cond:
                memo[n.id] = memo[(n.args[2] if value else n.args[1]).id]
                continue
        a = [memo.get(x.id, x) for x in n.args]
        if n.sort != 'R':
            memo[n.id] = n if all(x is y for x, y in zip(a, n.args)) else ir._mk(n.op, a, n.sort, n.val)
            continue
        if all(x is y for x, y in zip(a, n.args)):
            memo[n.id] = n
        elif n.op == 'add':
            memo[n.id] = ir.radd(*a)
        elif n.op == 'sub':
            memo[n.id] = ir.rsub(*a)
        elif n.op == 'mul':
            memo[n.id] = ir.rmul(*a)
        elif n.op == 'neg':
            memo[n.id] = ir.rneg(*a)
        elif n.op == 'div':
            memo[n.id] = ir.rdiv(*a)
        elif n.op == 'ite':
            memo[n.id] = ir.rite(*a)
        else:
            memo[n.id] = ir._mk(n.op, a, n.sort, n.val)
    return memo[node.id]


def cos_sin(x):
    """x: real SC -> (cos, sin) as R terms.  Angles that are piecewise (if-then-else of linear forms, e.g. a*[c] + (2pi-a)*[not c])
    are expanded case by case."""
    if not x.isreal:
        raise S.EngineError('cos/sin of complex')
    try:
        lin, const = linear_form(x.re)
    except S.EngineError:
        ind = _find_indicator(x.re)
        if ind is None:
            raise
        c = ind.args[0]
        if c.op == 'not':
            c = c.args[0]
        ct, st = cos_sin(S.SC(_assume_cond(x.re, c, True)))
        cf, sf = cos_sin(S.SC(_assume_cond(x.re, c, False)))
        return ir.rite(c, ct, cf), ir.rite(c, st, sf)
    m = pi_multiple(const)
    if m is None:
        raise S.EngineError(f'constant angle {float(const)} is not a recognised multiple of pi')
    if const != 0 and m * _PI != const:
        S.ctx().notes.append('floats within 1e-12 of k*pi/q (q in 1,2,3,4,6) are treated as exactly k*pi/q')
    rc, rs = _cs_pi_multiple(m)
    for var, coef in sorted(lin.items(), key=lambda kv: kv[0].id):
        p, q = coef.numerator, coef.denominator
        bc, bs = base_pair(var, q)
        tc, ts = _mult(bc, bs, abs(p))
        if p < 0:
            ts = ir.rneg(ts)
        rc, rs = ir.rsub(ir.rmul(rc, tc), ir.rmul(rs, ts)), ir.radd(ir.rmul(rs, tc), ir.rmul(rc, ts))
    return rc, rs


def _memo(kind, key, make):
    c = S.ctx()
    tab = getattr(c, '_tmemo', None)
    if tab is None:
        tab = {}
        c._tmemo = tab
    k = (kind, key)
    if k not in tab:
        tab[k] = make()
    return tab[k]


def apply(name, x):
    c = S.ctx()
    if name in ('cos', 'sin'):
        if x.isconst and x.isreal and x.re.val == 0:
            return S.SC(ir.ONE if name == 'cos' else ir.ZERO)
        cc, ss = cos_sin(x)
        return S.SC(cc if name == 'cos' else ss)
    if name == 'tan':
        cc, ss = cos_sin(x)
        return S.SC(ss) / S.SC(cc)
    if name == 'exp':
        if x.isconst and x.re.val == 0 and x.im.val == 0:
            return S.SC(ir.ONE)
        if x.re is ir.ZERO:
            cc, ss = cos_sin(S.SC(x.im))
            return S.SC(cc, ss)

        def mk():
            e = c.fresh('exp')
            c.facts.append(ir.rcmp('lt', ir.ZERO, e))
            # exp(t) >= 1 + t  and  (t<0 -> e<1), (t>0 -> e>1), (t==0 -> e==1)
            t = x.re
            c.facts.append(ir.rcmp('le', ir.radd(ir.ONE, t), e))
            c.facts.append(ir.beq(ir.rcmp('lt', t, ir.ZERO), ir.rcmp('lt', e, ir.ONE)))
            c.facts.append(ir.beq(ir.rcmp('eq', t, ir.ZERO), ir.rcmp('eq', e, ir.ONE)))
            c.notes.append('exp(t) on reals: fresh e with e>0, e>=1+t, sign(e-1)=sign(t)')
            c.aux.append((e, 'exp', x.re))
            return S.SC(e)
        mag = _memo('exp', x.re.id, mk)
        if x.isreal:
            return mag
        cc, ss = cos_sin(S.SC(x.im))
        return mag * S.SC(cc, ss)
    if not x.isreal:
        raise S.EngineError(f'{name} of complex symbolic')
    t = x.re
    if name == 'log':
        if t.op == 'const':
            if t.val == 1:
                return S.SC(ir.ZERO)
            if t.val <= 0:
                raise S.EngineError('log of non-positive constant')

        def mk():
            l = c.fresh('log')
            c.facts.append(ir.beq(ir.rcmp('lt', t, ir.ONE), ir.rcmp('lt', l, ir.ZERO)))
            c.facts.append(ir.beq(ir.rcmp('eq', t, ir.ONE), ir.rcmp('eq', l, ir.ZERO)))
            c.facts.append(ir.rcmp('le', l, ir.rsub(t, ir.ONE)))
            c.side.append(('log', ir.rcmp('lt', ir.ZERO, t)))
            c.notes.append('log(t) on reals: fresh l with sign(l)=sign(t-1), l<=t-1; defined for t>0')
            c.aux.append((l, 'log', t))
            return S.SC(l)
        return _memo('log', t.id, mk)
    if name == 'log1p':
        def mk():
            l = c.fresh('log1p')
            c.facts.append(ir.beq(ir.rcmp('lt', t, ir.ZERO), ir.rcmp('lt', l, ir.ZERO)))
            c.facts.append(ir.beq(ir.rcmp('eq', t, ir.ZERO), ir.rcmp('eq', l, ir.ZERO)))
            c.facts.append(ir.rcmp('le', l, t))
            c.side.append(('log1p', ir.rcmp('lt', ir.MONE, t)))
            c.notes.append('log1p(t) on reals: fresh l with sign(l)=sign(t), l<=t; defined for t>-1')
            c.aux.append((l, 'log1p', t))
            return S.SC(l)
        return _memo('log1p', t.id, mk)
    if name == 'tanh':
        def mk():
            h = c.fresh('tanh')
            c.facts.append(ir.rcmp('lt', ir.MONE, h))
            c.facts.append(ir.rcmp('lt', h, ir.ONE))
            c.facts.append(ir.beq(ir.rcmp('lt', t, ir.ZERO), ir.rcmp('lt', h, ir.ZERO)))
            c.facts.append(ir.beq(ir.rcmp('eq', t, ir.ZERO), ir.rcmp('eq', h, ir.ZERO)))
            c.notes.append('tanh(t) on reals: fresh h in (-1,1) with sign(h)=sign(t)')
            c.aux.append((h, 'tanh', t))
            return S.SC(h)
        return _memo('tanh', t.id, mk)
    if name == 'arccos' and t.op == 'const' and t.val in (1, 0, -1):
        import math as _m
        return S.SC(ir.ZERO) if t.val == 1 else S.as_sc(_m.pi if t.val == -1 else _m.pi / 2)
    if name == 'arccos':
        # angle a in [0, pi] with cos a = t, sin a = +sqrt(1 - t^2)
        def mk():
            a = c.fresh('arccos')
            s = S.SC(ir.rsub(ir.ONE, ir.rmul(t, t))).sqrt()
            set_base_pair(a, t, s.re)
            c.aux.append((a, 'arccos', t))
            # range facts (a is the principal value): 0 <= a <= pi, and the end points are attained only at t = +-1
            import math as _m
            pi_ = ir.rconst(S.lift_float(_m.pi))
            c.facts += [ir.rcmp('le', ir.ZERO, a), ir.rcmp('le', a, pi_),
                        ir.beq(ir.rcmp('eq', a, ir.ZERO), ir.rcmp('eq', t, ir.ONE)), ir.beq(ir.rcmp('eq', a, pi_), ir.rcmp('eq', t, ir.MONE))]
            c.side.append(('arccos', ir.band(ir.rcmp('le', ir.MONE, t), ir.rcmp('le', t, ir.ONE))))
            c.notes.append('arccos(t): fresh angle a with cos a = t, sin a = +sqrt(1-t^2) (a in [0,pi])')
            return S.SC(a)
        return _memo('arccos', t.id, mk)
    if name == 'arcsin':
        def mk():
            a = c.fresh('arcsin')
            s = S.SC(ir.rsub(ir.ONE, ir.rmul(t, t))).sqrt()
            set_base_pair(a, s.re, t)
            c.aux.append((a, 'arcsin', t))
            c.side.append(('arcsin', ir.band(ir.rcmp('le', ir.MONE, t), ir.rcmp('le', t, ir.ONE))))
            c.notes.append('arcsin(t): fresh angle a with sin a = t, cos a = +sqrt(1-t^2)')
            return S.SC(a)
        return _memo('arcsin', t.id, mk)
    raise S.EngineError(f'transcendental {name} not modelled')


def arctan2(y, x):
    """angle a with r cos a = x, r sin a = y, r = sqrt(x^2+y^2); numpy returns 0 at (0,0) (for +0)."""
    c = S.ctx()
    if not (x.isreal and y.isreal):
        raise S.EngineError('arctan2 of complex')

    def mk():
        a = c.fresh('atan2')
        cc = c.fresh('cos_atan2')
        ss = c.fresh('sin_atan2')
        r2 = ir.radd(ir.rmul(x.re, x.re), ir.rmul(y.re, y.re))
        r = S.SC(r2).sqrt().re
        zero = ir.rcmp('eq', r2, ir.ZERO)
        c.facts.append(ir.rcmp('eq', ir.radd(ir.rmul(cc, cc), ir.rmul(ss, ss)), ir.ONE))
        c.facts.append(ir.bor(zero, ir.band(ir.rcmp('eq', ir.rmul(r, cc), x.re), ir.rcmp('eq', ir.rmul(r, ss), y.re))))
        c.facts.append(ir.bor(ir.bnot(zero), ir.band(ir.rcmp('eq', cc, ir.ONE), ir.rcmp('eq', ss, ir.ZERO))))
        set_base_pair(a, cc, ss)
        c.aux.append((a, 'atan2', (y.re, x.re)))
        c.aux.append((cc, 'cos', (a, 1)))
        c.aux.append((ss, 'sin', (a, 1)))
        c.notes.append('arctan2(y,x): fresh angle a with r cos a = x, r sin a = y (r=|(x,y)|); a=0 at the origin')
        return S.SC(a)
    return _memo('atan2', (y.re.id, x.re.id), mk)


def libm_f64(name, x):
    """libm call on a binary64 value: a fresh constant constrained by the C/IEEE contract only."""
    c = S.ctx()

    def mk():
        r = c.fresh(name, 'F')
        n = x.n
        isnan = ir.fpred('fp.isNaN', n)
        zero = ir.fconst(0.0)
        one = ir.fconst(1.0)
        rn = ir.fpred('fp.isNaN', r)
        rinf = ir.fpred('fp.isInfinite', r)
        if name in ('log', 'log2'):
            neg = ir.fcmp('fp.lt', n, zero)
            c.facts.append(ir.beq(rn, ir.bor(isnan, neg)))
            iszero = ir.fpred('fp.isZero', n)
            pinf = ir.band(ir.fpred('fp.isInfinite', n), ir.fcmp('fp.lt', zero, n))
            c.facts.append(ir.beq(ir.band(rinf, ir.fcmp('fp.lt', r, zero)), iszero))
            c.facts.append(ir.beq(ir.band(rinf, ir.fcmp('fp.lt', zero, r)), pinf))
            c.facts.append(ir.bor(ir.bnot(ir.fcmp('fp.lt', n, one)), ir.bor(ir.fcmp('fp.lt', r, zero), rn)))
            c.facts.append(ir.bor(ir.bnot(ir.fcmp('fp.eq', n, one)), ir.fpred('fp.isZero', r)))
            c.facts.append(ir.bor(ir.bnot(ir.fcmp('fp.lt', one, n)), ir.fcmp('fp.lt', zero, r)))
            # magnitude: |log x| <= 750 for every positive finite double (log(2^-1074) = -744.4, log(DBL_MAX) = 709.8)
            fin = ir.band(ir.fcmp('fp.lt', zero, n), ir.bnot(ir.fpred('fp.isInfinite', n)))
            c.facts.append(ir.bor(ir.bnot(fin), ir.band(ir.fcmp('fp.leq', ir.fconst(-750.0), r), ir.fcmp('fp.leq', r, ir.fconst(750.0)))))
            c.aux.append((r, 'libm_' + name, n))
            c.notes.append(f'{name}(x) in binary64: fresh value under the C contract (NaN iff x<0 or NaN, '
                           '-inf iff x==0, +inf iff x==+inf, sign follows x-1, |value| <= 750 for positive finite x); nothing else assumed')
        elif name == 'exp':
            c.facts.append(ir.beq(rn, isnan))
            c.facts.append(ir.bor(rn, ir.fcmp('fp.leq', zero, r)))
            c.notes.append('exp(x) in binary64: fresh non-negative value, NaN iff x is NaN')
        else:
            raise S.EngineError(f'libm {name}')
        return S.F64(r)
    return _memo('libm_' + name, x.n.id, mk)
