"""Symbolic scalar kinds that live inside NumPy object arrays.

SC   exact real/complex number (pair of 'R' terms)          -> QF_NRA
BVS  NumPy integer / bool element with dtype semantics      -> QF_BV
SB   symbolic truth value; bool() forks the path explorer
F64  IEEE binary64 scalar                                   -> QF_FP

NumPy's object loops call Python operators and same-named methods (sqrt, conjugate, cos, ...) on the
elements, so the real numqi code runs unchanged on arrays of these.
"""
from fractions import Fraction
import math
import numbers
import numpy as np
from . import ir


class EngineError(Exception):
    """operation the engine does not model -> harness-inconclusive (exit 2), never a verdict"""


# ---------------------------------------------------------------------------------------------
# run context
class Ctx:
    def __init__(self):
        self.facts = []      # definitional constraints introduced by the engine (s*s == e, s >= 0, ...)
        self.side = []       # (label, B-node) definedness conditions of partial operations (b != 0, e >= 0)
        self.nfresh = 0
        self.explorer = None
        self.notes = []      # modelling assumptions taken during the run (axioms for exp/log ...)
        self.prefix = ''
        self.radicals = {}   # prime -> R var
        self.sqrt_cache = {}
        self.aux = []        # (var node, kind, data): how to compute engine-introduced variables from inputs (for concrete evaluation)

    def fresh(self, tag, sort='R'):
        self.nfresh += 1
        name = f'{self.prefix}{tag}!{self.nfresh}'
        if sort == 'R':
            return ir.rvar(name)
        if sort == 'B':
            return ir.bvar(name)
        if sort == 'F':
            return ir.fvar(name)
        return ir.bvvar(name, sort[1])

    def radical(self, p):
        v = self.radicals.get(p)
        if v is None:
            v = ir.rvar(f'rad{p}')
            self.radicals[p] = v
            self.facts.append(ir.rcmp('lt', ir.ZERO, v))
            self.facts.append(ir.rcmp('eq', ir.rmul(v, v), ir.rconst(p)))
            self.aux.append((v, 'sqrt', ir.rconst(p)))
        return v


CTX = Ctx()


MOD_EXACT = [False]     # harness switch: model `angle % (2 pi k)` exactly (fresh angle, half-angle pair equal up to a free sign)


def new_ctx(prefix=''):
    global CTX
    CTX = Ctx()
    CTX.prefix = prefix
    return CTX


def ctx():
    return CTX


# ---------------------------------------------------------------------------------------------
# constant lifting
def lift_float(x):
    """exact rational a double stands for: small-denominator rational if it round-trips, else dyadic."""
    x = float(x)
    if x != x or math.isinf(x):
        raise EngineError(f'non-finite constant {x}')
    if x == int(x) and abs(x) < 2**53:
        return Fraction(int(x))
    f = Fraction(x).limit_denominator(10**6)
    if float(f) == x or abs(float(f) - x) <= 4 * math.ulp(x):
        return f
    return Fraction(x)


def _factor_squarefree(n):
    """n = m^2 * s with s square-free; returns (m, [primes of s])"""
    m = 1
    primes = []
    p = 2
    while p * p <= n:
        cnt = 0
        while n % p == 0:
            n //= p
            cnt += 1
        m *= p ** (cnt // 2)
        if cnt % 2:
            primes.append(p)
        p += 1 if p == 2 else 2
    if n > 1:
        primes.append(n)
    return m, primes


def sqrt_fraction(f):
    """R-term for sqrt of a non-negative Fraction using shared prime radicals."""
    if f < 0:
        raise EngineError('sqrt of negative constant')
    if f == 0:
        return ir.ZERO
    # sqrt(p/q) = sqrt(p*q)/q
    m, primes = _factor_squarefree(f.numerator * f.denominator)
    r = ir.rconst(Fraction(m, f.denominator))
    for p in primes:
        r = ir.rmul(r, CTX.radical(p))
    return r


def lift_irrational(x):
    """try to recognise a double as +-sqrt(p/q) (p/q small); returns SC or None."""
    x = float(x)
    sq = Fraction(x * x).limit_denominator(10**4)
    if sq == 0:
        return None
    cand = math.sqrt(sq)
    if abs(cand - abs(x)) <= 4e-16 * max(1.0, abs(x)):
        t = sqrt_fraction(sq)
        return SC(t if x > 0 else ir.rneg(t), None, SC(ir.rconst(sq)))
    return None


def lift_real(x):
    """python/numpy real number -> R term (exact)"""
    if isinstance(x, (bool, np.bool_)):
        return ir.rconst(int(x))
    if isinstance(x, (int, np.integer)):
        return ir.rconst(int(x))
    if isinstance(x, Fraction):
        return ir.rconst(x)
    xf = float(x)
    f = lift_float(xf)
    if f.denominator > 10**6:
        s = lift_irrational(xf)
        if s is not None:
            return s.re
    return ir.rconst(f)



class _ScalarLike:
    """numpy-scalar look-alike attributes so code written for np.float64 results works on symbolic scalars"""
    __slots__ = ()
    shape = ()
    ndim = 0
    size = 1

    def reshape(self, *shape):
        from . import arrays as A
        if len(shape) == 1 and isinstance(shape[0], (tuple, list)):
            shape = tuple(shape[0])
        out = np.empty((), dtype=object)
        out[()] = self
        return A.wrap(out.reshape(shape))

    def item(self):
        return self

    def copy(self):
        return self

    def __len__(self):
        raise TypeError('len() of unsized object')

    def __iter__(self):
        raise TypeError('iteration over a 0-d array')


# ---------------------------------------------------------------------------------------------
class SB(_ScalarLike):
    """symbolic bool"""
    __slots__ = ('n',)

    def __init__(self, n):
        self.n = n

    def __bool__(self):
        if self.n.op == 'const':
            return bool(self.n.val)
        ex = CTX.explorer
        if ex is None:
            raise EngineError('symbolic branch outside an exploration: ' + ir.pretty(self.n, 3))
        return ex.decide(self.n)

    def __and__(self, o):
        return SB(ir.band(self.n, as_sb(o).n))
    __rand__ = __and__

    def __or__(self, o):
        return SB(ir.bor(self.n, as_sb(o).n))
    __ror__ = __or__

    def __xor__(self, o):
        return SB(ir.bxor(self.n, as_sb(o).n))
    __rxor__ = __xor__

    def __invert__(self):
        return SB(ir.bnot(self.n))

    def logical_not(self):
        return SB(ir.bnot(self.n))

    def logical_and(self, o):
        return self & o

    def logical_or(self, o):
        return self | o

    def logical_xor(self, o):
        return self ^ o

    def __eq__(self, o):
        return SB(ir.beq(self.n, as_sb(o).n))

    def __ne__(self, o):
        return SB(ir.bxor(self.n, as_sb(o).n))

    __hash__ = None

    def __repr__(self):
        return 'SB(' + ir.pretty(self.n, 3) + ')'

    # numpy bools take part in arithmetic as 0/1
    def _num(self):
        return SC(ir.rite(self.n, ir.ONE, ir.ZERO))

    def __mul__(self, o):
        if isinstance(o, SB):
            return self & o
        if isinstance(o, np.ndarray):
            return NotImplemented
        return self._num() * o
    __rmul__ = __mul__

    def __add__(self, o):
        if isinstance(o, np.ndarray):
            return NotImplemented
        return self._num() + (o._num() if isinstance(o, SB) else o)
    __radd__ = __add__

    def __sub__(self, o):
        if isinstance(o, np.ndarray):
            return NotImplemented
        return self._num() - (o._num() if isinstance(o, SB) else o)

    def __rsub__(self, o):
        return o - self._num()

    def astype_bv(self, dtype):
        return BVS(ir.bool2bv(self.n, np.dtype(dtype).itemsize * 8 if np.dtype(dtype) != np.bool_ else 8), dtype)


def as_sb(x):
    if isinstance(x, SB):
        return x
    if isinstance(x, (bool, np.bool_)):
        return SB(ir.bconst(bool(x)))
    if isinstance(x, BVS):
        return x.nonzero()
    if isinstance(x, SC):
        return x != 0
    if isinstance(x, (int, float, np.number)):
        return SB(ir.bconst(bool(x)))
    raise EngineError(f'cannot use {type(x)} as truth value')


# ---------------------------------------------------------------------------------------------
class SC(_ScalarLike):
    """exact complex number re + i im over real terms; im is the constant 0 for reals."""
    __slots__ = ('re', 'im', 'sq', 'ang')

    def __init__(self, re, im=None, sq=None):
        self.re = re
        self.im = ir.ZERO if im is None else im
        self.sq = sq   # if set: an SC known to equal self*self (self came from sqrt)
        self.ang = None

    @property
    def dtype(self):
        return np.dtype(np.float64 if self.im is ir.ZERO else np.complex128)

    # ---- conversion
    @property
    def isreal(self):
        return self.im is ir.ZERO

    @property
    def isconst(self):
        return self.re.op == 'const' and self.im.op == 'const'

    def const_value(self):
        if self.isreal:
            return self.re.val
        return complex(self.re.val, self.im.val)

    def __float__(self):
        if self.isconst and self.isreal:
            return float(self.re.val)
        raise EngineError('float() of a symbolic value')

    def __int__(self):
        if self.isconst and self.isreal:
            return int(self.re.val)
        raise EngineError('int() of a symbolic value')

    def __complex__(self):
        if self.isconst:
            return complex(self.re.val, self.im.val)
        raise EngineError('complex() of a symbolic value')

    def __index__(self):
        if self.isconst and self.isreal and self.re.val.denominator == 1:
            return int(self.re.val)
        raise EngineError('index from a symbolic real')

    def __repr__(self):
        if self.isreal:
            return 'SC(' + ir.pretty(self.re, 3) + ')'
        return 'SC(' + ir.pretty(self.re, 3) + ' + i ' + ir.pretty(self.im, 3) + ')'

    __hash__ = None

    # ---- arithmetic
    def __add__(self, o):
        o = as_sc(o)
        if o is NotImplemented:
            return o
        return SC(ir.radd(self.re, o.re), ir.radd(self.im, o.im))
    __radd__ = __add__

    def __sub__(self, o):
        o = as_sc(o)
        if o is NotImplemented:
            return o
        return SC(ir.rsub(self.re, o.re), ir.rsub(self.im, o.im))

    def __rsub__(self, o):
        o = as_sc(o)
        if o is NotImplemented:
            return o
        return o - self

    def __neg__(self):
        return SC(ir.rneg(self.re), ir.rneg(self.im))

    def __pos__(self):
        return self

    def __mul__(self, o):
        o = as_sc(o)
        if o is NotImplemented:
            return o
        if o is self and self.sq is not None:
            return self.sq
        a, b, c, d = self.re, self.im, o.re, o.im
        if b is ir.ZERO:
            if d is ir.ZERO:
                # keep the known square through scaling by constants: (k*sqrt(e))^2 = k^2 e
                if self.sq is not None and c.op == 'const':
                    return SC(ir.rmul(a, c), None, self.sq * SC(ir.rconst(c.val * c.val)))
                if o.sq is not None and a.op == 'const':
                    return SC(ir.rmul(a, c), None, o.sq * SC(ir.rconst(a.val * a.val)))
                return SC(ir.rmul(a, c))
            return SC(ir.rmul(a, c), ir.rmul(a, d))
        if d is ir.ZERO:
            return SC(ir.rmul(a, c), ir.rmul(b, c))
        return SC(ir.rsub(ir.rmul(a, c), ir.rmul(b, d)), ir.radd(ir.rmul(a, d), ir.rmul(b, c)))
    __rmul__ = __mul__

    def recip(self):
        if self.isreal:
            return SC(_recip_real(self.re), None, None)
        d = ir.radd(ir.rmul(self.re, self.re), ir.rmul(self.im, self.im))
        r = _recip_real(d)
        return SC(ir.rmul(self.re, r), ir.rneg(ir.rmul(self.im, r)))

    def __truediv__(self, o):
        o = as_sc(o)
        if o is NotImplemented:
            return o
        if o.isreal:
            d = o.re
            if d.op == 'const':
                if self.sq is not None and self.isreal:
                    return SC(ir.rdiv(self.re, d), None, self.sq * SC(ir.rconst(1 / (d.val * d.val))))
                return SC(ir.rdiv(self.re, d), ir.rdiv(self.im, d))
            r = _recip_real(d)
            res = SC(ir.rmul(self.re, r), ir.rmul(self.im, r))
            if self.sq is not None and o.sq is not None and self.isreal:
                res.sq = self.sq / o.sq
            return res
        return self * o.recip()

    def __rtruediv__(self, o):
        o = as_sc(o)
        if o is NotImplemented:
            return o
        return o / self

    def __pow__(self, k):
        if isinstance(k, SC) and k.isconst and k.isreal:
            k = k.re.val
        if isinstance(k, (float, np.floating)) and float(k) == int(k):
            k = int(k)
        if isinstance(k, Fraction) and k.denominator == 1:
            k = int(k)
        if isinstance(k, (float, np.floating, Fraction)) and Fraction(k) == Fraction(1, 2):
            return self.sqrt()
        if isinstance(k, (float, np.floating, Fraction)):
            fr = Fraction(k).limit_denominator(64)
            if fr.numerator == 1 and 2 < fr.denominator <= 8 and abs(float(fr) - float(k)) < 1e-15 and self.isreal:
                # k-th root of a non-negative real: fresh r >= 0 with r^k = base
                kk = fr.denominator
                tab = CTX.__dict__.setdefault('_roots', {})
                key = (self.re.id, kk)
                if key not in tab:
                    r = CTX.fresh(f'root{kk}')
                    rk = r
                    for _ in range(kk - 1):
                        rk = ir.rmul(rk, r)
                    CTX.facts += [ir.rcmp('le', ir.ZERO, r), ir.rcmp('eq', rk, self.re)]
                    CTX.side.append(('root', ir.rcmp('le', ir.ZERO, self.re)))
                    CTX.aux.append((r, 'root', (self.re, kk)))
                    tab[key] = SC(r)
                return tab[key]
        if not isinstance(k, (int, np.integer)):
            raise EngineError(f'power with exponent {k!r}')
        k = int(k)
        if k < 0:
            return (self ** (-k)).recip()
        if k == 0:
            return SC(ir.ONE)
        if k == 2 and self.sq is not None:
            return self.sq
        r = None
        base = self
        while k:
            if k & 1:
                r = base if r is None else r * base
            k >>= 1
            if k:
                base = base * base
        return r

    def __rpow__(self, b):
        # const ** symbolic : only 1j**k style is not supported here
        raise EngineError('constant ** symbolic exponent')

    def conjugate(self):
        if self.isreal:
            return self
        return SC(self.re, ir.rneg(self.im))

    conj = conjugate

    def __mod__(self, o):
        # only `angle % (2*pi*k)`: the representative changes, cos/sin do not; the engine keeps the angle itself
        from . import transc
        o = as_sc(o)
        if o is not NotImplemented and o.isconst and o.isreal and self.isreal:
            m = transc.pi_multiple(o.re.val)
            if m is not None and m != 0 and m.denominator == 1 and m.numerator % 2 == 0 and MOD_EXACT[0]:
                # exact: r = angle - (2 pi k) n for an integer n, i.e. (cos, sin)(r/2) = sigma (cos, sin)(angle/2) with sigma = +-1
                # (sigma = 1 when k is even); every quantity of r derived from its half angle follows, finer subdivisions stay unconstrained
                CTX.nmod = getattr(CTX, 'nmod', 0) + 1
                r = sc_var(f'mod{CTX.nmod}<' + ir.pretty(self.re, 2).replace(' ', '_') + '>')
                ch, sh = (self / 2).cos(), (self / 2).sin()
                cr, sr = (r / 2).cos(), (r / 2).sin()
                if (m.numerator // 2) % 2 == 0:
                    CTX.facts += [(cr == ch).n, (sr == sh).n]
                else:
                    sg = sc_var(f'modsign{CTX.nmod}')
                    CTX.facts += [(sg * sg == 1).n, (cr == sg * ch).n, (sr == sg * sh).n]
                CTX.notes.append('angle % (2 pi k) modelled exactly through the half-angle pair (sign free for odd k)')
                return r
            if m is not None and m != 0 and m.denominator == 1 and m.numerator % 2 == 0:
                CTX.notes.append('angle % (2 pi k) is modelled as the same angle (only its cos/sin are used afterwards)')
                return self
        raise EngineError('modulo of a symbolic real')

    @property
    def real(self):
        return SC(self.re, None, self.sq if self.isreal else None)

    @property
    def imag(self):
        return SC(self.im)

    def sqrt(self):
        if not self.isreal:
            raise EngineError('sqrt of complex symbolic')
        e = self.re
        if e.op == 'const':
            return SC(sqrt_fraction(e.val), None, self)
        key = e.id
        hit = CTX.sqrt_cache.get(key)
        if hit is not None:
            return hit
        s = CTX.fresh('sqrt')
        CTX.facts.append(ir.rcmp('le', ir.ZERO, s))
        CTX.facts.append(ir.rcmp('eq', ir.rmul(s, s), e))
        CTX.side.append(('sqrt', ir.rcmp('le', ir.ZERO, e)))
        CTX.aux.append((s, 'sqrt', e))
        r = SC(s, None, self)
        CTX.sqrt_cache[key] = r
        return r

    def __abs__(self):
        if self.isreal:
            if self.re.op == 'const':
                return SC(ir.rconst(abs(self.re.val)), None, self * self)
            r = SC(ir.rite(ir.rcmp('lt', self.re, ir.ZERO), ir.rneg(self.re), self.re), None, self * self)
            return r
        return SC(ir.radd(ir.rmul(self.re, self.re), ir.rmul(self.im, self.im))).sqrt()

    def absolute(self):
        return abs(self)

    def square(self):
        return self * self

    def sign(self):
        if not self.isreal:
            raise EngineError('sign of complex')
        z = ir.ZERO
        return SC(ir.rite(ir.rcmp('lt', self.re, z), ir.MONE, ir.rite(ir.rcmp('eq', self.re, z), z, ir.ONE)))

    def maximum(self, o):
        o = as_sc(o)
        return SC(ir.rite(ir.rcmp('lt', self.re, o.re), o.re, self.re))

    def minimum(self, o):
        o = as_sc(o)
        return SC(ir.rite(ir.rcmp('lt', o.re, self.re), o.re, self.re))

    # ---- transcendental: handled by the angle layer / axioms (see transc.py)
    def _transc(self, name):
        from . import transc
        return transc.apply(name, self)

    def exp(self):
        return self._transc('exp')

    def log(self):
        return self._transc('log')

    def log1p(self):
        return self._transc('log1p')

    def cos(self):
        return self._transc('cos')

    def sin(self):
        return self._transc('sin')

    def tan(self):
        return self._transc('tan')

    def arccos(self):
        return self._transc('arccos')

    def arcsin(self):
        return self._transc('arcsin')

    def arctan2(self, o):
        from . import transc
        return transc.arctan2(self, as_sc(o))

    def tanh(self):
        return self._transc('tanh')

    # ---- comparisons
    def _cmp(self, op, o, swap=False):
        o = as_sc(o)
        if o is NotImplemented:
            return o
        if not (self.isreal and o.isreal):
            raise EngineError('ordering of complex values')
        a, b = (o.re, self.re) if swap else (self.re, o.re)
        return SB(ir.rcmp(op, a, b))

    def __lt__(self, o):
        return self._cmp('lt', o)

    def __le__(self, o):
        return self._cmp('le', o)

    def __gt__(self, o):
        return self._cmp('lt', o, True)

    def __ge__(self, o):
        return self._cmp('le', o, True)

    def __eq__(self, o):
        o = as_sc(o)
        if o is NotImplemented:
            return o
        return SB(ir.band(ir.rcmp('eq', self.re, o.re), ir.rcmp('eq', self.im, o.im)))

    def __ne__(self, o):
        r = self.__eq__(o)
        if r is NotImplemented:
            return r
        return ~r

    def __bool__(self):
        return bool(self != 0)


def _recip_real(d):
    """1/d for a real term: constants fold; otherwise a reciprocal variable r with (d != 0 -> r*d == 1).
    Division by zero is a recorded side condition, its value is left unconstrained (as in SMT-LIB)."""
    if d.op == 'const':
        if d.val == 0:
            raise ZeroDivisionError('symnp: division by exact zero')
        return ir.rconst(1 / d.val)
    tab = CTX.__dict__.setdefault('_recips', {})
    r = tab.get(d.id)
    if r is None:
        r = CTX.fresh('recip')
        nz = ir.bnot(ir.rcmp('eq', d, ir.ZERO))
        CTX.facts.append(ir.bor(ir.bnot(nz), ir.rcmp('eq', ir.rmul(r, d), ir.ONE)))
        CTX.side.append(('div', nz))
        CTX.aux.append((r, 'recip', d))
        tab[d.id] = r
    return r


def as_sc(x):
    if isinstance(x, SC):
        return x
    if isinstance(x, np.ndarray):
        if x.ndim == 0:
            return as_sc(x.item())
        return NotImplemented
    if isinstance(x, (float, np.floating)):
        xf = float(x)
        f = lift_float(xf)
        if f.denominator > 10**6:
            s = lift_irrational(xf)
            if s is not None:
                return s
        return SC(ir.rconst(f))
    if isinstance(x, (bool, int, Fraction, np.integer, np.bool_)):
        return SC(lift_real(x))
    if isinstance(x, (complex, np.complexfloating)):
        x = complex(x)
        return SC(lift_real(x.real), lift_real(x.imag))
    if isinstance(x, BVS):
        return SC(ir.bv2real(x.n, x.signed))
    if isinstance(x, SB):
        return SC(ir.rite(x.n, ir.ONE, ir.ZERO))
    if isinstance(x, Dual):
        return NotImplemented
    return NotImplemented


def sc_var(name, complex_=False):
    if complex_:
        return SC(ir.rvar(name + '_re'), ir.rvar(name + '_im'))
    return SC(ir.rvar(name))


# ---------------------------------------------------------------------------------------------
class Dual(_ScalarLike):
    """forward-mode dual number over SC: value + eps * tangent (tangent wrt one real direction).

    conj() conjugates both parts, i.e. the direction parameter is real, which is what is needed for
    d/dt f(x + t e) of non-holomorphic expressions."""
    __slots__ = ('v', 'd')

    def __init__(self, v, d=None):
        self.v = as_sc(v)
        self.d = SC(ir.ZERO) if d is None else as_sc(d)

    __hash__ = None

    @staticmethod
    def lift(x):
        if isinstance(x, Dual):
            return x
        s = as_sc(x)
        if s is NotImplemented:
            return s
        return Dual(s)

    def __add__(self, o):
        o = Dual.lift(o)
        if o is NotImplemented:
            return o
        return Dual(self.v + o.v, self.d + o.d)
    __radd__ = __add__

    def __sub__(self, o):
        o = Dual.lift(o)
        if o is NotImplemented:
            return o
        return Dual(self.v - o.v, self.d - o.d)

    def __rsub__(self, o):
        o = Dual.lift(o)
        if o is NotImplemented:
            return o
        return o - self

    def __neg__(self):
        return Dual(-self.v, -self.d)

    def __mul__(self, o):
        o = Dual.lift(o)
        if o is NotImplemented:
            return o
        return Dual(self.v * o.v, self.v * o.d + self.d * o.v)
    __rmul__ = __mul__

    def recip(self):
        r = self.v.recip()
        return Dual(r, -(self.d * r * r))

    def __truediv__(self, o):
        o = Dual.lift(o)
        if o is NotImplemented:
            return o
        return self * o.recip()

    def __rtruediv__(self, o):
        o = Dual.lift(o)
        if o is NotImplemented:
            return o
        return o * self.recip()

    def __pow__(self, k):
        if isinstance(k, (float, np.floating)) and float(k) == int(k):
            k = int(k)
        if isinstance(k, (float, np.floating)) and float(k) == 0.5:
            return self.sqrt()
        k = int(k)
        if k < 0:
            return (self ** (-k)).recip()
        if k == 0:
            return Dual(SC(ir.ONE))
        r = self
        for _ in range(k - 1):
            r = r * self
        return r

    def conjugate(self):
        return Dual(self.v.conjugate(), self.d.conjugate())
    conj = conjugate

    @property
    def real(self):
        return Dual(self.v.real, self.d.real)

    @property
    def imag(self):
        return Dual(self.v.imag, self.d.imag)

    def sqrt(self):
        s = self.v.sqrt()
        return Dual(s, self.d / (2 * s))

    def __abs__(self):
        if self.v.isreal and self.d.isreal:
            sg = self.v.sign()
            return Dual(abs(self.v), self.d * sg)
        n2 = self.real * self.real + self.imag * self.imag
        return n2.sqrt()

    def absolute(self):
        return abs(self)

    def exp(self):
        e = self.v.exp()
        return Dual(e, self.d * e)

    def log(self):
        return Dual(self.v.log(), self.d / self.v)

    def log1p(self):
        return Dual(self.v.log1p(), self.d / (1 + self.v))

    def tanh(self):
        t = self.v.tanh()
        return Dual(t, self.d * (1 - t * t))

    def sign(self):
        return Dual(self.v.sign())

    def square(self):
        return self * self

    @property
    def isreal(self):
        return self.v.isreal and self.d.isreal

    def cos(self):
        return Dual(self.v.cos(), -(self.d * self.v.sin()))

    def sin(self):
        return Dual(self.v.sin(), self.d * self.v.cos())

    def __repr__(self):
        return f'Dual({self.v!r}, {self.d!r})'


# ---------------------------------------------------------------------------------------------
_INT_KINDS = 'iub'


def _dt(dtype):
    return np.dtype(dtype)


def _width(dt):
    return 8 if dt == np.bool_ else dt.itemsize * 8


class BVS(_ScalarLike):
    """NumPy integer/bool element: bit-vector term + dtype (width, signedness, wrap-around)."""
    __slots__ = ('n', 'dtype')

    def __init__(self, n, dtype):
        self.n = n
        self.dtype = _dt(dtype)
        assert n.sort == ('BV', _width(self.dtype)), (n.sort, dtype)

    __hash__ = None

    @property
    def signed(self):
        return self.dtype.kind == 'i'

    @property
    def isconst(self):
        return self.n.op == 'const'

    def const_value(self):
        v = self.n.val
        return ir._tosigned(v, self.n.sort[1]) if self.signed else v

    def __repr__(self):
        return f'BVS[{self.dtype}](' + ir.pretty(self.n, 3) + ')'

    def __int__(self):
        if self.isconst:
            return self.const_value()
        ex = CTX.explorer
        if ex is None:
            raise EngineError('int() of symbolic integer outside exploration')
        return ex.concretize(self)

    __index__ = __int__

    def __float__(self):
        return float(int(self))

    def __bool__(self):
        return bool(self.nonzero())

    def nonzero(self):
        return SB(ir.bnot(ir.bvcmp('eq', self.n, ir.bvconst(0, self.n.sort[1]))))

    def item(self):
        return self

    # ---- promotion
    def _coerce(self, o):
        """returns (a_node, b_node, result_dtype) following NumPy (NEP 50) promotion."""
        if isinstance(o, BVS):
            rd = np.result_type(self.dtype, o.dtype)
            if rd.kind == 'f':
                raise _ToFloat(o)      # e.g. uint64 with int64: NumPy computes in float64 (53-bit mantissa!)
            if rd.kind not in _INT_KINDS:
                raise EngineError(f'promotion {self.dtype},{o.dtype} -> {rd}')
            return self.cast(rd).n, o.cast(rd).n, rd
        if isinstance(o, SB):
            o2 = BVS(ir.bool2bv(o.n, 8), np.bool_)
            return self._coerce(o2)
        if isinstance(o, (bool, np.bool_)):
            return self._coerce(BVS(ir.bvconst(int(o), 8), np.bool_))
        if isinstance(o, np.integer):
            return self._coerce(BVS(ir.bvconst(int(o), o.dtype.itemsize * 8), o.dtype))
        if isinstance(o, int):
            # python int is weak: result keeps self.dtype (bool -> default int)
            rd = self.dtype if self.dtype != np.bool_ else np.dtype(np.int64)
            info = np.iinfo(rd)
            if not (info.min <= o <= info.max):
                raise OverflowError(f'Python integer {o} out of bounds for {rd}')
            return self.cast(rd).n, ir.bvconst(o, _width(rd)), rd
        return None

    def cast(self, dtype):
        dt = _dt(dtype)
        if dt == self.dtype:
            return self
        if dt.kind not in _INT_KINDS:
            raise EngineError(f'cast {self.dtype}->{dt}')
        if dt == np.bool_:
            return BVS(ir.bool2bv(self.nonzero().n, 8), dt)
        if self.dtype == np.bool_:
            return BVS(ir.bvext(self.n, _width(dt), False), dt)
        return BVS(ir.bvext(self.n, _width(dt), self.signed), dt)

    def astype(self, dtype):
        return self.cast(dtype)

    def _bin(self, o, uop, sop=None, swap=False):
        c = self._coerce(o)
        if c is None:
            if isinstance(o, (float, np.floating, complex, SC)):
                a, b = as_sc(self), as_sc(o)
                raise _ToReal(a, b, swap)
            return NotImplemented
        a, b, rd = c
        if swap:
            a, b = b, a
        if rd == np.bool_:
            # numpy: bool+bool = logical or, bool*bool = and; arithmetic on bools otherwise invalid
            if uop == 'bvadd' or uop == 'bvor':
                return BVS(ir.bvbin('bvor', a, b), rd)
            if uop == 'bvmul' or uop == 'bvand':
                return BVS(ir.bvbin('bvand', a, b), rd)
            if uop == 'bvxor':
                return BVS(ir.bvbin('bvxor', a, b), rd)
            raise EngineError(f'{uop} on numpy bools')
        op = sop if (sop and rd.kind == 'i') else uop
        return BVS(ir.bvbin(op, a, b), rd)

    def to_f64(self):
        return F64(ir.fp_from_bv(self.n, self.signed))

    def _arith(self, o, name, uop, sop=None, swap=False):
        try:
            return self._bin(o, uop, sop, swap)
        except _ToReal as t:
            a, b = (t.b, t.a) if t.swap else (t.a, t.b)
            return getattr(a, name)(b)
        except _ToFloat as t:
            CTX.notes.append('mixed uint64/int64 arithmetic is computed in binary64 as NumPy does (integers above 2^53 are rounded)')
            a, b = self.to_f64(), t.o.to_f64()
            if swap:
                a, b = b, a
            return getattr(a, name)(b)

    def __add__(self, o):
        return self._arith(o, '__add__', 'bvadd')

    def __radd__(self, o):
        return self._arith(o, '__add__', 'bvadd', swap=True)

    def __sub__(self, o):
        return self._arith(o, '__sub__', 'bvsub')

    def __rsub__(self, o):
        return self._arith(o, '__sub__', 'bvsub', swap=True)

    def __mul__(self, o):
        return self._arith(o, '__mul__', 'bvmul')

    def __rmul__(self, o):
        return self._arith(o, '__mul__', 'bvmul', swap=True)

    def _floordiv(self, o, swap):
        c = self._coerce(o)
        if c is None:
            return NotImplemented
        a, b, rd = c
        if swap:
            a, b = b, a
        w = _width(rd)
        zero = ir.bvconst(0, w)
        bz = ir.bvcmp('eq', b, zero)
        if rd.kind != 'i':
            # numpy: x // 0 == 0 (with a warning)
            return BVS(ir.rite(bz, zero, ir.bvbin('bvudiv', a, b)), rd)
        # floor division for signed: q = sdiv; if rem != 0 and signs differ: q-1
        q = ir.bvbin('bvsdiv', a, b)
        r = ir.bvbin('bvsrem', a, b)
        adj = ir.band(ir.bnot(ir.bvcmp('eq', r, zero)),
                      ir.bxor(ir.bvcmp('bvslt', a, zero), ir.bvcmp('bvslt', b, zero)))
        q = ir.rite(adj, ir.bvbin('bvsub', q, ir.bvconst(1, w)), q)
        return BVS(ir.rite(bz, zero, q), rd)

    def __floordiv__(self, o):
        return self._floordiv(o, False)

    def __rfloordiv__(self, o):
        return self._floordiv(o, True)

    def _mod(self, o, swap):
        c = self._coerce(o)
        if c is None:
            return NotImplemented
        a, b, rd = c
        if swap:
            a, b = b, a
        w = _width(rd)
        zero = ir.bvconst(0, w)
        bz = ir.bvcmp('eq', b, zero)
        if rd.kind != 'i':
            return BVS(ir.rite(bz, zero, ir.bvbin('bvurem', a, b)), rd)
        return BVS(ir.rite(bz, zero, ir.bvbin('bvsmod', a, b)), rd)

    def __mod__(self, o):
        return self._mod(o, False)

    def __rmod__(self, o):
        return self._mod(o, True)

    def __truediv__(self, o):
        return as_sc(self) / o

    def __rtruediv__(self, o):
        return o / as_sc(self)

    def __and__(self, o):
        return self._bin(o, 'bvand')

    def __rand__(self, o):
        return self._bin(o, 'bvand', swap=True)

    def __or__(self, o):
        return self._bin(o, 'bvor')

    def __ror__(self, o):
        return self._bin(o, 'bvor', swap=True)

    def __xor__(self, o):
        return self._bin(o, 'bvxor')

    def __rxor__(self, o):
        return self._bin(o, 'bvxor', swap=True)

    def __lshift__(self, o):
        return self._bin(o, 'bvshl')

    def __rlshift__(self, o):
        return self._bin(o, 'bvshl', swap=True)

    def __rshift__(self, o):
        return self._bin(o, 'bvlshr', 'bvashr')

    def __rrshift__(self, o):
        return self._bin(o, 'bvlshr', 'bvashr', swap=True)

    def __neg__(self):
        if self.dtype == np.bool_:
            raise TypeError('numpy boolean negative')
        return BVS(ir.bvun('bvneg', self.n), self.dtype)

    def __invert__(self):
        if self.dtype == np.bool_:
            return BVS(ir.bool2bv(ir.bnot(self.nonzero().n), 8), self.dtype)
        return BVS(ir.bvun('bvnot', self.n), self.dtype)

    def __pow__(self, k):
        if isinstance(k, (int, np.integer)) and 0 <= int(k) <= 8:
            r = BVS(ir.bvconst(1, self.n.sort[1]), self.dtype)
            for _ in range(int(k)):
                r = r * self
            return r
        raise EngineError('integer power')

    def __rpow__(self, b):
        # pattern in numqi: 1j ** k with k in 0..3  -> exact constant by forking over k
        k = int(self)
        return b ** k

    def __abs__(self):
        if not self.signed:
            return self
        z = ir.bvconst(0, self.n.sort[1])
        return BVS(ir.rite(ir.bvcmp('bvslt', self.n, z), ir.bvun('bvneg', self.n), self.n), self.dtype)

    def conjugate(self):
        return self

    @property
    def real(self):
        return self

    @property
    def imag(self):
        return BVS(ir.bvconst(0, self.n.sort[1]), self.dtype)

    # ---- logic (numpy logical_* ufunc object loops call these)
    def logical_not(self):
        return ~self.nonzero()

    def logical_and(self, o):
        return self.nonzero() & as_sb(o)

    def logical_or(self, o):
        return self.nonzero() | as_sb(o)

    def logical_xor(self, o):
        return self.nonzero() ^ as_sb(o)

    # ---- comparison
    def _cmp(self, o, uop, sop, swap=False, neg=False):
        c = self._coerce(o)
        if c is None:
            if isinstance(o, int):
                raise EngineError('comparison with out-of-range int')
            if isinstance(o, (float, np.floating, SC)):
                a, b = as_sc(self), as_sc(o)
                if swap:
                    a, b = b, a
                r = {'eq': a.__eq__, 'bvult': a.__lt__, 'bvule': a.__le__}[uop](b)
                return ~r if neg else r
            return NotImplemented
        a, b, rd = c
        if swap:
            a, b = b, a
        op = sop if rd.kind == 'i' else uop
        r = SB(ir.bvcmp(op, a, b))
        return ~r if neg else r

    def __eq__(self, o):
        try:
            return self._cmp(o, 'eq', 'eq')
        except OverflowError:
            return SB(ir.FALSE)

    def __ne__(self, o):
        try:
            return self._cmp(o, 'eq', 'eq', neg=True)
        except OverflowError:
            return SB(ir.TRUE)

    def __lt__(self, o):
        return self._cmp(o, 'bvult', 'bvslt')

    def __le__(self, o):
        return self._cmp(o, 'bvule', 'bvsle')

    def __gt__(self, o):
        return self._cmp(o, 'bvult', 'bvslt', swap=True)

    def __ge__(self, o):
        return self._cmp(o, 'bvule', 'bvsle', swap=True)

    def maximum(self, o):
        c = self._coerce(o)
        a, b, rd = c
        lt = ir.bvcmp('bvslt' if rd.kind == 'i' else 'bvult', a, b)
        return BVS(ir.rite(lt, b, a), rd)

    def minimum(self, o):
        c = self._coerce(o)
        a, b, rd = c
        lt = ir.bvcmp('bvslt' if rd.kind == 'i' else 'bvult', a, b)
        return BVS(ir.rite(lt, a, b), rd)


class _ToReal(Exception):
    def __init__(self, a, b, swap):
        self.a, self.b, self.swap = a, b, swap


class _ToFloat(Exception):
    def __init__(self, o):
        self.o = o


def bv_var(name, dtype=np.uint8):
    dt = _dt(dtype)
    return BVS(ir.bvvar(name, _width(dt)), dt)


def bv_const(v, dtype=np.uint8):
    dt = _dt(dtype)
    return BVS(ir.bvconst(int(v), _width(dt)), dt)


def bit_var(name, dtype=np.uint8):
    """an element of `dtype` constrained to {0,1} structurally: zero-extension of a 1-bit variable."""
    dt = _dt(dtype)
    return BVS(ir.bvext(ir.bvvar(name, 1), _width(dt), False), dt)


# ---------------------------------------------------------------------------------------------
class F64(_ScalarLike):
    """IEEE-754 binary64 with round-to-nearest-even, for scalar tails."""
    __slots__ = ('n',)
    __hash__ = None

    def __init__(self, n):
        self.n = n

    @staticmethod
    def lift(x):
        if isinstance(x, F64):
            return x
        if isinstance(x, (int, float, np.floating, np.integer)):
            return F64(ir.fconst(float(x)))
        if isinstance(x, BVS):
            return x.to_f64()
        if isinstance(x, SC) and x.isconst and x.isreal:
            return F64(ir.fconst(float(x.const_value())))      # exact constants created by typed constructors (np.zeros, ...)
        return NotImplemented

    def to_int(self, dtype):
        dt = np.dtype(dtype)
        return BVS(ir.fp_to_bv(self.n, dt.itemsize * 8, dt.kind == 'i'), dt)

    def _b(self, o, op, swap=False):
        o = F64.lift(o)
        if o is NotImplemented:
            return o
        a, b = (o.n, self.n) if swap else (self.n, o.n)
        return F64(ir.fbin(op, a, b))

    def __add__(self, o):
        return self._b(o, 'fp.add')
    __radd__ = __add__

    def __sub__(self, o):
        return self._b(o, 'fp.sub')

    def __rsub__(self, o):
        return self._b(o, 'fp.sub', True)

    def __mul__(self, o):
        return self._b(o, 'fp.mul')
    __rmul__ = __mul__

    def __truediv__(self, o):
        return self._b(o, 'fp.div')

    def __rtruediv__(self, o):
        return self._b(o, 'fp.div', True)

    def __neg__(self):
        return F64(ir.fun('fp.neg', self.n))

    def __abs__(self):
        return F64(ir.fun('fp.abs', self.n))

    def __pow__(self, k):
        if k == 2:
            return self * self
        if k == 0.5:
            return self.sqrt()
        raise EngineError('fp pow')

    def sqrt(self):
        return F64(ir.fun('fp.sqrt', self.n))

    def _libm(self, name):
        from . import transc
        return transc.libm_f64(name, self)

    def log(self):
        return self._libm('log')

    def log2(self):
        return self._libm('log2')

    def exp(self):
        return self._libm('exp')

    def _c(self, o, op, swap=False):
        o = F64.lift(o)
        a, b = (o.n, self.n) if swap else (self.n, o.n)
        return SB(ir.fcmp(op, a, b))

    def __lt__(self, o):
        return self._c(o, 'fp.lt')

    def __le__(self, o):
        return self._c(o, 'fp.leq')

    def __gt__(self, o):
        return self._c(o, 'fp.lt', True)

    def __ge__(self, o):
        return self._c(o, 'fp.leq', True)

    def __eq__(self, o):
        return self._c(o, 'fp.eq')

    def __ne__(self, o):
        return ~self._c(o, 'fp.eq')

    def isnan(self):
        return SB(ir.fpred('fp.isNaN', self.n))

    def isinf(self):
        return SB(ir.fpred('fp.isInfinite', self.n))

    def maximum(self, o):
        o = F64.lift(o)
        # numpy maximum propagates NaN
        lt = ir.fcmp('fp.lt', self.n, o.n)
        r = ir.rite(lt, o.n, self.n)
        nan = ir.bor(ir.fpred('fp.isNaN', self.n), ir.fpred('fp.isNaN', o.n))
        return F64(ir.rite(nan, ir.fconst(float('nan')), r))

    def minimum(self, o):
        o = F64.lift(o)
        # numpy minimum propagates NaN
        lt = ir.fcmp('fp.lt', o.n, self.n)
        r = ir.rite(lt, o.n, self.n)
        nan = ir.bor(ir.fpred('fp.isNaN', self.n), ir.fpred('fp.isNaN', o.n))
        return F64(ir.rite(nan, ir.fconst(float('nan')), r))

    def __repr__(self):
        return 'F64(' + ir.pretty(self.n, 3) + ')'


def f64_var(name):
    return F64(ir.fvar(name))
