"""Range proofs for straight-line binary64 computations by solver-checked interval lemmas.

For every operation node of the term DAG an interval is guessed by (outward widened) interval arithmetic and then PROVED by a
one-operation SMT query: inputs anywhere in their intervals => result in its interval.  Composition of the lemmas bounds the root.
libm results enter through their contract (see transc.libm_f64).  Path-condition literals `node < const` etc. refine intervals."""
import math
from . import ir


def _dn(x):
    return math.nextafter(x, -math.inf)


def _up(x):
    return math.nextafter(x, math.inf)


def _w(x):
    # no widening: rounding to nearest is monotone and the exact operations are monotone in each argument, so the extremes of the
    # rounded result over a box are attained at its corners (the solver re-checks every lemma anyway)
    return x


def _guess(op, iv):
    if op == 'fp.add':
        (a, b), (c, d) = iv
        return _w(a + c), _w(b + d)
    if op == 'fp.sub':
        (a, b), (c, d) = iv
        return _w(a - d), _w(b - c)
    if op == 'fp.mul':
        (a, b), (c, d) = iv
        ps = [a * c, a * d, b * c, b * d]
        return _w(min(ps)), _w(max(ps))
    if op == 'fp.div':
        (a, b), (c, d) = iv
        if c <= 0 <= d:
            return None
        ps = [a / c, a / d, b / c, b / d]
        return _w(min(ps)), _w(max(ps))
    if op == 'fp.neg':
        (a, b), = iv
        return -b, -a
    if op == 'fp.abs':
        (a, b), = iv
        lo = 0.0 if a <= 0 <= b else min(abs(a), abs(b))
        return lo, max(abs(a), abs(b))
    if op == 'fp.sqrt':
        (a, b), = iv
        if a < 0:
            return None
        return math.sqrt(a), math.sqrt(b)
    return None


INFO = {'infeasible': False}


def range_lemmas(root, var_ranges, pc, libm_aux, name):
    """returns (lemmas, root_interval) ; lemmas = list of (label, assumptions, claim) one-operation obligations;
    root_interval None if some node could not be bounded.
    var_ranges: {var name: (lo, hi)};  pc: literals (B nodes) of the path;  libm_aux: [(result var node, kind, arg node)]"""
    INFO['infeasible'] = False
    refine = {}
    for lit in pc:
        neg = False
        l = lit
        if l.op == 'not':
            neg, l = True, l.args[0]
        if l.op in ('fp.lt', 'fp.leq', 'fp.eq') and (l.args[0].op == 'const') != (l.args[1].op == 'const'):
            x, c = (l.args[0], l.args[1]) if l.args[1].op == 'const' else (l.args[1], l.args[0])
            cv = float.fromhex(c.val)
            x_left = l.args[0] is x
            op = l.op
            # normalise to:  x REL cv
            if op == 'fp.eq':
                if not neg:
                    refine.setdefault(x.id, []).append((cv, cv))
                continue
            less = (op in ('fp.lt', 'fp.leq')) == x_left      # x < c  or  x <= c
            strict = (op == 'fp.lt')
            if neg:                                           # not(x < c)  (and not NaN, which intervals exclude) => x >= c
                less, strict = not less, not strict
            if less:
                refine.setdefault(x.id, []).append((-math.inf, _dn(cv) if strict else cv))
            else:
                refine.setdefault(x.id, []).append((_up(cv) if strict else cv, math.inf))
    libm = {v.id: (kind, arg) for v, kind, arg in libm_aux if kind.startswith('libm_')}
    iv = {}
    lemmas = []
    order = [n for n in ir.topo([root] + [arg for kind, arg in libm.values()]) if n.sort == 'F']
    for _pass in range(4):
      for n in order:
          if n.id in iv:
              continue
          r = None
          if n.op == 'const':
              x = float.fromhex(n.val)
              r = (x, x)
          elif n.op == 'var':
              if n.val in var_ranges:
                  r = var_ranges[n.val]
              elif n.id in libm:
                  kind, arg = libm[n.id]
                  ai = iv.get(arg.id)
                  if ai is not None and ai[0] > 0 and ai[1] < math.inf and kind in ('libm_log', 'libm_log2'):
                      lo, hi = -750.0, 750.0
                      if ai[1] <= 1.0:
                          hi = 0.0
                      if ai[0] >= 1.0:
                          lo = 0.0
                      r = (lo, hi)      # by the libm contract (assumed, recorded as a stub)
          elif n.op in ('fp.add', 'fp.sub', 'fp.mul', 'fp.div', 'fp.neg', 'fp.abs', 'fp.sqrt'):
              ins = [iv.get(a.id) for a in n.args]
              if all(i is not None for i in ins):
                  r = _guess(n.op, ins)
                  if r is not None and all(math.isfinite(x) for x in r):
                      xs = [ir.fvar(f'{name}_in{n.id}_{k}') for k in range(len(ins))]
                      assume = []
                      for x, (lo, hi) in zip(xs, ins):
                          assume += [ir.fcmp('fp.leq', ir.fconst(lo), x), ir.fcmp('fp.leq', x, ir.fconst(hi))]
                      res = ir.fbin(n.op, *xs) if len(xs) == 2 else ir.fun(n.op, xs[0])
                      claim = ir.band(ir.fcmp('fp.leq', ir.fconst(r[0]), res), ir.fcmp('fp.leq', res, ir.fconst(r[1])))
                      lemmas.append((f'{n.op} on {ins} stays in [{r[0]!r}, {r[1]!r}]', assume, claim))
                  else:
                      r = None
          elif n.op == 'ite':
              c = n.args[0]
              a, b = iv.get(n.args[1].id), iv.get(n.args[2].id)

              def never_nan(cond):
                  # isNaN(x) / or of such, where every x has a (finite, hence NaN-free) proved interval
                  if cond.op == 'fp.isNaN':
                      return cond.args[0].id in iv
                  if cond.op == 'or':
                      return all(never_nan(x) for x in cond.args)
                  return False
              if never_nan(c) and b is not None:
                  r = b                                      # the NaN-propagation branch of np.maximum / np.minimum is dead
              elif a is not None and b is not None:
                  r = (min(a[0], b[0]), max(a[1], b[1]))
                  if c.op == 'fp.lt' and {c.args[0].id, c.args[1].id} == {n.args[1].id, n.args[2].id}:
                      if c.args[1].id == n.args[1].id:       # ite(x < y, y, x) = max(x, y)
                          r = (max(a[0], b[0]), max(a[1], b[1]))
                      else:                                  # ite(x < y, x, y) = min(x, y)
                          r = (min(a[0], b[0]), min(a[1], b[1]))
                      xs = {n.args[1].id: ir.fvar(f'{name}_in{n.id}_0'), n.args[2].id: ir.fvar(f'{name}_in{n.id}_1')}
                      assume = []
                      for nid, (lo, hi) in ((n.args[1].id, a), (n.args[2].id, b)):
                          assume += [ir.fcmp('fp.leq', ir.fconst(lo), xs[nid]), ir.fcmp('fp.leq', xs[nid], ir.fconst(hi))]
                      res = ir.rite(ir.fcmp('fp.lt', xs[c.args[0].id], xs[c.args[1].id]), xs[n.args[1].id], xs[n.args[2].id])
                      claim = ir.band(ir.fcmp('fp.leq', ir.fconst(r[0]), res), ir.fcmp('fp.leq', res, ir.fconst(r[1])))
                      lemmas.append((f'min/max on {[a, b]} stays in [{r[0]!r}, {r[1]!r}]', assume, claim))
          if r is not None:
              for lo, hi in refine.get(n.id, []):
                  r = (max(r[0], lo), min(r[1], hi))
              if r[0] > r[1]:
                  r = None
                  INFO['infeasible'] = True      # a path-condition literal contradicts a proved interval: the path is infeasible (given the lemmas)
          if r is not None:
              iv[n.id] = r
    return lemmas, iv.get(root.id)
