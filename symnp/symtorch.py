"""SymTensor: a torch.Tensor subclass that carries a SymArray and intercepts every torch operation through
`__torch_function__` (the torch analogue of arrays.SymArray / __array_function__).

The PyTorch branches of numqi (`if isinstance(x, torch.Tensor): ...`) then run unmodified on symbolic content:
  * isinstance(x, torch.Tensor) is true, .shape/.dtype/.device/.ndim are answered by a zero-filled *shadow* tensor,
  * every other torch function / Tensor method is looked up by name in HANDLERS and evaluated on the SymArray with the
    NumPy-level engine; the shadow call on zero-filled stand-ins supplies the result dtype and the result shape, which must
    agree with the symbolic result (encoding self-check) - argument errors are those of real torch,
  * anything not in HANDLERS raises EngineError (fail closed: the harness reports it as not decided, never as a pass).
Constructors that are later written in place (`torch.zeros(...)` then `x[:, i, j] = ...`) cannot be intercepted through
__torch_function__ (no tensor argument): `torch_facade()` overrides them in the numqi module under test.

Modelled semantics are exact reals / complexes (as for the NumPy branch): float rounding, the softplus threshold=20
linearisation of torch (|difference| <= log1p(exp(-20)) < 2.1e-9) and autograd are outside the model.
"""
import numpy as np
import torch
from . import arrays as A
from . import scalars as S
from . import ir
from . import facade as _facade
from .scalars import EngineError

_T2N = {torch.float64: np.float64, torch.float32: np.float32, torch.complex128: np.complex128, torch.complex64: np.complex64,
        torch.int64: np.int64, torch.int32: np.int32, torch.int16: np.int16, torch.int8: np.int8, torch.uint8: np.uint8,
        torch.bool: np.bool_}
_N2T = {np.dtype(v): k for k, v in _T2N.items()}

_real_zeros = torch.zeros


def np_dtype(td):
    return np.dtype(_T2N[td])


def torch_dtype(sd):
    return _N2T[np.dtype(sd)]


class SymTensor(torch.Tensor):
    __module__ = 'torch'      # libraries that pick a backend from type(x).__module__ (opt_einsum) must see a torch tensor

    @staticmethod
    def __new__(cls, sym, tdtype=None):
        if not isinstance(sym, A.SymArray):
            sym = A.sym_array(sym)
        td = tdtype if tdtype is not None else torch_dtype(sym.dtype)
        with torch._C.DisableTorchFunctionSubclass():
            base = _real_zeros(tuple(sym.shape), dtype=td)
            r = torch.Tensor._make_subclass(cls, base, False)
        sym._sd = np_dtype(td)
        r._sym = sym
        return r

    def __repr__(self):
        return f'SymTensor({self._sym!r})'

    __str__ = __repr__

    def __bool__(self):
        return bool(self._sym)

    def __float__(self):
        return float(self._sym)

    def __int__(self):
        return int(self._sym)

    def __len__(self):
        return self._sym.shape[0]

    def __iter__(self):
        for i in range(self._sym.shape[0]):
            yield self[i]

    @classmethod
    def __torch_function__(cls, func, types, args=(), kwargs=None):
        return dispatch(func, args, kwargs or {})


# metadata that depends on shape / dtype only: answered by the zero-filled shadow
_META = {'shape', 'dtype', 'device', 'ndim', 'size', 'dim', 'is_complex', 'is_floating_point', 'requires_grad', 'layout', 'numel',
         'nelement', 'is_cuda', 'is_cpu', 'is_sparse', 'is_quantized', 'is_meta', 'element_size', 'itemsize', 'names', 'grad', 'grad_fn',
         'is_leaf', 'is_contiguous', 'is_conj', 'is_neg', 'ndimension', 'get_device', '_is_view', 'is_mkldnn', 'is_nested', 'is_inference',
         'is_signed', 'stride', 'storage_offset', 'output_nr', '_version', 'is_same_size', 'nbytes'}

HANDLERS = {}
RAW = set()       # handlers that need the SymTensor objects themselves (in-place updates)
NOSHADOW = set()  # handlers whose shadow call on zeros would fail or be meaningless


def handler(*names, raw=False, noshadow=False):
    def deco(f):
        for n in names:
            HANDLERS[n] = f
            if raw:
                RAW.add(n)
            if noshadow:
                NOSHADOW.add(n)
        return f
    return deco


def _fname(func):
    n = getattr(func, '__name__', None)
    if n in ('__get__', '__set__'):
        return getattr(func.__self__, '__name__', n) + ('' if n == '__get__' else '.setter')
    return n


def _plain_tensor(x):
    """zero-filled real tensor standing for a SymTensor in the shadow call"""
    if isinstance(x, SymTensor):
        return _real_zeros(tuple(x._sym.shape), dtype=torch_dtype(x._sym.dtype))
    if isinstance(x, A.SymArray) or A.is_sym_scalar(x):
        return A.dummy(x)
    if isinstance(x, np.ndarray) and x.dtype == object:
        return A.dummy(A.wrap(x))          # symbolic NumPy operands (e.g. tables built under the np facade): zero-filled stand-ins
    if isinstance(x, (list, tuple)):
        return type(x)(_plain_tensor(e) for e in x)
    if isinstance(x, dict):
        return {k: _plain_tensor(v) for k, v in x.items()}
    return x


def _unwrap(x):
    """SymTensor -> SymArray, real tensor -> ndarray (object ints for integer tensors keep index arithmetic exact)"""
    if isinstance(x, SymTensor):
        return x._sym
    if isinstance(x, torch.Tensor):
        with torch._C.DisableTorchFunctionSubclass():
            return x.detach().resolve_conj().numpy()
    if isinstance(x, (list, tuple)):
        return type(x)(_unwrap(e) for e in x)
    if isinstance(x, dict):
        return {k: _unwrap(v) for k, v in x.items()}
    return x


def _rewrap(res, sh, name):
    if isinstance(sh, torch.Tensor):
        if A.is_sym_scalar(res) or isinstance(res, (int, float, complex, np.number)):
            r0 = np.empty((), dtype=object)
            r0[()] = res
            res = r0
        if not isinstance(res, np.ndarray):
            raise EngineError(f'torch.{name}: handler returned {type(res).__name__} where torch returns a tensor')
        if tuple(res.shape) != tuple(sh.shape):
            raise EngineError(f'torch.{name}: modelled result shape {tuple(res.shape)} differs from torch {tuple(sh.shape)}')
        sd = np_dtype(sh.dtype)
        if not isinstance(res, A.SymArray):
            res = A.sym_array(res, sd) if res.dtype != object else A.wrap(res, sd)
        return SymTensor(res, sh.dtype)
    if isinstance(sh, (tuple, list)) and isinstance(res, (tuple, list)) and len(sh) == len(res):
        return type(res)(_rewrap(r, s, name) for r, s in zip(res, sh))
    return res


def dispatch(func, args, kwargs):
    name = _fname(func)
    if name in _META:
        with torch._C.DisableTorchFunctionSubclass():
            return func(*_plain_tensor(args), **_plain_tensor(kwargs))
    h = HANDLERS.get(name)
    if h is None:
        raise EngineError(f'torch function {name!r} is not modelled (symtorch)')
    sh = None
    if name not in NOSHADOW:
        with torch._C.DisableTorchFunctionSubclass():
            sh = func(*_plain_tensor(args), **_plain_tensor(kwargs))
    if name in RAW:
        return h(*args, **kwargs)
    res = h(*_unwrap(args), **_unwrap(kwargs))
    if name in NOSHADOW:
        return res
    return _rewrap(res, sh, name)


def _kw(kwargs):
    """numpy-style aliases torch accepts"""
    k = dict(kwargs)
    if 'axis' in k:
        k['dim'] = k.pop('axis')
    if 'keepdims' in k:
        k['keepdim'] = k.pop('keepdims')
    return k


def _arr(x):
    """operand for the NumPy-level engine"""
    if isinstance(x, np.ndarray) and x.dtype != object and x.dtype.kind in 'iu':
        return x
    return x


# --------------------------------------------------------------------------------------------- arithmetic
def _nokw(name, kw):
    if kw:
        raise EngineError(f'torch.{name} with keyword arguments {sorted(kw)} is not modelled')


@handler('add', '__add__', '__radd__')
def _add(a, b, **kw):
    _nokw('add', kw)
    return np.add(a, b)


@handler('sub', '__sub__', 'subtract')
def _sub(a, b, **kw):
    _nokw('sub', kw)
    return np.subtract(a, b)


@handler('rsub', '__rsub__')
def _rsub(a, b, **kw):
    _nokw('rsub', kw)
    return np.subtract(b, a)


@handler('mul', '__mul__', '__rmul__', 'multiply')
def _mul(a, b, **kw):
    _nokw('mul', kw)
    return np.multiply(a, b)


@handler('div', 'true_divide', '__truediv__', '__div__', 'divide')
def _div(a, b, **kw):
    _nokw('div', kw)
    return np.true_divide(a, b)


@handler('__rtruediv__', '__rdiv__')
def _rdiv(a, b, **kw):
    _nokw('rdiv', kw)
    return np.true_divide(b, a)


@handler('reciprocal')
def _recip(a):
    return np.true_divide(1, a)


@handler('pow', '__pow__')
def _pow(a, b):
    return np.power(a, b)


@handler('__rpow__')
def _rpow(a, b):
    return np.power(b, a)


@handler('neg', '__neg__', 'negative')
def _neg(a):
    return np.negative(a)


@handler('positive', '__pos__')
def _pos(a):
    return a


@handler('abs', '__abs__', 'absolute')
def _abs(a):
    return np.abs(a)


@handler('matmul', '__matmul__', 'mm', 'bmm')
def _matmul(a, b):
    return np.matmul(a, b)


@handler('__rmatmul__')
def _rmatmul(a, b):
    return np.matmul(b, a)


for _n in ('sqrt', 'exp', 'log', 'log1p', 'sin', 'cos', 'tan', 'tanh', 'arccos', 'arcsin', 'square'):
    def _mk(n):
        f = getattr(np, n)

        def h(a):
            return f(a)
        return h
    handler(_n)(_mk(_n))
handler('acos')(lambda a: np.arccos(a))
handler('asin')(lambda a: np.arcsin(a))


@handler('softplus')
def _softplus(a, beta=1, threshold=20):
    """log(1 + exp(x)) written in the overflow-free form log1p(exp(-|x|)) + max(x, 0) (identical as real functions);
    torch's linearisation above `threshold` is a float-level approximation outside the exact model"""
    if beta != 1:
        raise EngineError('softplus beta != 1')
    sg = np.sign(a)
    return np.log1p(np.exp(-sg * a)) + (1 + sg) / 2 * a


@handler('sigmoid')
def _sigmoid(a):
    f = STUBS.get('sigmoid')
    if f is None:
        raise EngineError('torch.sigmoid: no stub installed')
    return f(a)


@handler('conj', 'conj_physical', 'conjugate')
def _conj(a):
    return a.conj() if isinstance(a, A.SymArray) else np.conj(a)


@handler('real')
def _real(a):
    return a.real


@handler('imag')
def _imag(a):
    return a.imag


@handler('complex')
def _complex(re, im):
    return np.add(re, np.multiply(im, 1j))


for _n, _f in (('eq', np.equal), ('ne', np.not_equal), ('lt', np.less), ('le', np.less_equal), ('gt', np.greater), ('ge', np.greater_equal)):
    handler(_n, f'__{_n}__')((lambda f: (lambda a, b: f(a, b)))(_f))


# --------------------------------------------------------------------------------------------- shape
def _shape_args(shape):
    if len(shape) == 1 and isinstance(shape[0], (tuple, list, torch.Size)):
        shape = tuple(shape[0])
    return tuple(int(s) for s in shape)


@handler('reshape')
def _reshape(a, *shape, **kw):
    if 'shape' in kw:
        shape = (kw['shape'],)
    return a.reshape(_shape_args(shape))


@handler('view')
def _view(a, *shape, **kw):
    if 'dtype' in kw or (len(shape) == 1 and isinstance(shape[0], torch.dtype)):
        raise EngineError('Tensor.view(dtype) of symbolic content')
    return a.reshape(_shape_args(shape))


@handler('flatten')
def _flatten(a, start_dim=0, end_dim=-1):
    nd = a.ndim
    s, e = start_dim % max(nd, 1), end_dim % max(nd, 1)
    return a.reshape(a.shape[:s] + (-1,) + a.shape[e + 1:])


@handler('transpose', 'swapaxes', 'swapdims')
def _transpose(a, d0, d1):
    return np.swapaxes(a, d0, d1)


@handler('permute')
def _permute(a, *dims, **kw):
    if 'dims' in kw:
        dims = (kw['dims'],)
    return np.transpose(a, _shape_args(dims))


@handler('T')
def _T(a):
    return np.transpose(a)


@handler('mT')
def _mT(a):
    return np.swapaxes(a, -1, -2)


@handler('H')
def _H(a):
    return np.transpose(a).conj()


@handler('mH', 'adjoint')
def _mH(a):
    return np.swapaxes(a, -1, -2).conj()


@handler('t')
def _t(a):
    return np.transpose(a)


@handler('squeeze')
def _squeeze(a, dim=None):
    if dim is None:
        return np.squeeze(a)
    return np.squeeze(a, axis=dim) if a.shape[dim] == 1 else a


@handler('unsqueeze')
def _unsqueeze(a, dim):
    return np.expand_dims(a, dim if dim >= 0 else dim + a.ndim + 1)


@handler('contiguous', 'clone', 'detach', 'cpu', 'resolve_conj', 'resolve_neg')
def _same(a, *args, **kw):
    return a.copy() if isinstance(a, A.SymArray) else a


@handler('to', 'type')
def _to(a, *args, **kw):
    td = kw.get('dtype')
    for x in args:
        if isinstance(x, torch.dtype):
            td = x
        elif isinstance(x, np.ndarray):        # Tensor.to(other)
            td = torch_dtype(x.dtype)
    if td is None:
        return a
    return a.astype(np_dtype(td))


@handler('double')
def _double(a):
    return a.astype(np.float64)


@handler('repeat')
def _repeat(a, *sizes):
    return np.tile(a, _shape_args(sizes))


@handler('expand')
def _expand(a, *sizes):
    sizes = _shape_args(sizes)
    shp = tuple(a.shape[i - (len(sizes) - a.ndim)] if s == -1 else s for i, s in enumerate(sizes))
    return np.broadcast_to(a, shp)


def _index(idx):
    """torch index -> numpy index (index tensors arrive as integer ndarrays)"""
    if isinstance(idx, tuple):
        return tuple(_index(i) for i in idx)
    if isinstance(idx, list):
        return [_index(i) for i in idx]
    if isinstance(idx, np.ndarray) and idx.dtype != object and idx.ndim == 0:
        return int(idx) if idx.dtype.kind in 'iu' else bool(idx)
    return idx


@handler('__getitem__')
def _getitem(a, idx):
    return a[_index(idx)]


@handler('__setitem__', raw=True)
def _setitem(t, idx, value):
    if not isinstance(t, SymTensor):
        raise EngineError('in-place assignment of symbolic content into a concrete torch tensor (constructor not routed through torch_facade)')
    t._sym[_index(_unwrap(idx))] = _unwrap(value)
    return None


@handler('add_', 'sub_', 'mul_', 'div_', '__iadd__', '__isub__', '__imul__', '__itruediv__', raw=True)
def _inplace(*a, **k):
    raise EngineError('in-place torch arithmetic is not modelled')


# --------------------------------------------------------------------------------------------- reductions
@handler('sum')
def _sum(a, *args, **kw):
    kw = _kw(kw)
    dim = args[0] if args else kw.get('dim')
    keep = args[1] if len(args) > 1 else kw.get('keepdim', False)
    if isinstance(dim, list):
        dim = tuple(dim)
    return np.add.reduce(a, axis=dim, keepdims=keep) if dim is not None else np.add.reduce(a.reshape(-1))


@handler('cumsum')
def _cumsum(a, *args, **kw):
    kw = _kw(kw)
    return np.cumsum(a, axis=args[0] if args else kw['dim'])


@handler('cumprod')
def _cumprod(a, *args, **kw):
    kw = _kw(kw)
    return np.cumprod(a, axis=args[0] if args else kw['dim'])


@handler('trace')
def _trace(a):
    return np.add.reduce(np.diagonal(a))


@handler('vdot')
def _vdot(a, b):
    return np.vdot(a, b)


@handler('dot', 'inner')
def _dot(a, b):
    return np.dot(a, b)


@handler('tensordot')
def _tensordot(a, b, dims=2, **kw):
    if isinstance(dims, (tuple, list)):
        dims = tuple(list(d) if isinstance(d, (tuple, list)) else d for d in dims)
    return np.tensordot(a, b, axes=dims)


@handler('maximum', 'max_elementwise')
def _maximum(a, b):
    return np.maximum(a, b)


@handler('minimum')
def _minimum(a, b):
    return np.minimum(a, b)


@handler('linalg_eigvalsh', noshadow=True)
def _eigvalsh(a, *args, **kw):
    f = STUBS.get('eigvalsh')
    if f is None:
        raise EngineError('torch.linalg.eigvalsh: no stub installed')
    r = f(a)
    return SymTensor(A.wrap(A.plain(r) if isinstance(r, A.SymArray) else r, np.float64), torch.float64)


@handler('any')
def _any(a, *args, **kw):
    return np.any(a) if not args and not kw else np.any(a, axis=args[0] if args else _kw(kw).get('dim'))


@handler('nonzero', noshadow=True)
def _nonzero(a, **kw):
    """data-dependent shape: every entry's truth value is decided (forks under the explorer), the index tensor is concrete"""
    p = A.plain(a) if isinstance(a, A.SymArray) else np.asarray(a)
    conc = np.array([bool(S.as_sb(e)) if A.is_sym_scalar(e) else bool(e) for e in p.reshape(-1)], dtype=bool).reshape(p.shape)
    with torch._C.DisableTorchFunctionSubclass():
        return torch.nonzero(torch.from_numpy(conc))


@handler('linalg_norm', 'norm', 'linalg_vector_norm', 'linalg_matrix_norm')
def _norm(a, *args, **kw):
    kw = _kw(kw)
    names = ('ord', 'dim', 'keepdim')
    for n, v in zip(names, args):
        kw[n] = v
    ordv = kw.get('ord', kw.get('p'))
    dim = kw.get('dim')
    if isinstance(dim, list):
        dim = tuple(dim)
    if ordv not in (None, 2, 'fro'):
        raise EngineError(f'torch norm ord={ordv}')
    if ordv == 2 and (isinstance(dim, tuple) and len(dim) == 2 or (dim is None and a.ndim != 1)):
        raise EngineError('torch spectral norm of symbolic content')
    return np.linalg.norm(a, axis=dim, keepdims=kw.get('keepdim', False))


# --------------------------------------------------------------------------------------------- construction
def _seq(tensors):
    return [x if isinstance(x, np.ndarray) else np.asarray(x) for x in tensors]


@handler('cat', 'concat', 'concatenate')
def _cat(tensors, *args, **kw):
    kw = _kw(kw)
    return np.concatenate(_seq(tensors), axis=args[0] if args else kw.get('dim', 0))


@handler('stack')
def _stack(tensors, *args, **kw):
    kw = _kw(kw)
    return np.stack(_seq(tensors), axis=args[0] if args else kw.get('dim', 0))


@handler('einsum')
def _einsum(*operands):
    if isinstance(operands[0], str):
        ops = operands[1:]
        if len(ops) == 1 and isinstance(ops[0], (list, tuple)):
            ops = tuple(ops[0])
        return np.einsum(operands[0], *ops)
    return np.einsum(*[list(o) if isinstance(o, (list, tuple)) else o for o in operands])


@handler('diagonal')
def _diagonal(a, offset=0, dim1=0, dim2=1):
    return np.diagonal(a, offset=offset, axis1=dim1, axis2=dim2)


@handler('diag_embed')
def _diag_embed(a, offset=0, dim1=-2, dim2=-1):
    if (offset, dim1, dim2) != (0, -2, -1):
        raise EngineError('diag_embed with non-default arguments')
    p = A.plain(a) if isinstance(a, A.SymArray) else np.asarray(a, dtype=object)
    n = p.shape[-1]
    sd = a.dtype if isinstance(a, A.SymArray) else None
    out = np.empty(p.shape + (n,), dtype=object)
    out[...] = A.typed_const(0, sd if sd is not None else np.float64)
    for i in range(n):
        out[..., i, i] = p[..., i]
    return A.wrap(out, sd)


@handler('diag')
def _diag(a, diagonal=0):
    return np.diag(a, k=diagonal)


@handler('triu')
def _triu(a, diagonal=0):
    return np.triu(a, k=diagonal)


@handler('tril')
def _tril(a, diagonal=0):
    return np.tril(a, k=diagonal)


@handler('scatter')
def _scatter(inp, dim, index, src=None, **kw):
    """out = input.clone(); out[index[i]] = src[i] along dim (1-D only); duplicate indices are rejected (torch: non-deterministic)"""
    if src is None:
        src = kw.get('src', kw.get('value'))
    if kw.get('reduce') is not None:
        raise EngineError('scatter reduce')
    index = np.asarray(index)
    if np.ndim(inp) != 1 or index.ndim != 1 or dim not in (0, -1):
        raise EngineError('torch.scatter: only 1-D scatter is modelled')
    if len(set(index.tolist())) != len(index):
        raise EngineError('torch.scatter with duplicate indices')
    out = A.sym_array(inp, inp.dtype).copy() if not isinstance(inp, A.SymArray) else inp.copy()
    srcv = src if isinstance(src, np.ndarray) else np.full(index.shape, src, dtype=object)
    for k, i in enumerate(index.tolist()):
        out[int(i)] = A.plain(srcv)[k] if isinstance(srcv, A.SymArray) else srcv[k]
    return out


@handler('zeros_like')
def _zeros_like(a, **kw):
    td = kw.get('dtype')
    return np.zeros_like(a, dtype=np_dtype(td) if td is not None else None)


@handler('ones_like')
def _ones_like(a, **kw):
    td = kw.get('dtype')
    return np.ones_like(a, dtype=np_dtype(td) if td is not None else None)


@handler('linalg_inv', 'inverse', noshadow=True)
def _inv(a):
    f = STUBS.get('inv')
    if f is None:
        raise EngineError('torch.linalg.inv: no stub installed')
    r = f(a)
    return SymTensor(A.wrap(A.plain(r) if isinstance(r, A.SymArray) else r, a.dtype), torch_dtype(a.dtype))


@handler('linalg_cholesky_ex', noshadow=True)
def _cholesky_ex(a, **kw):
    f = STUBS.get('cholesky')
    if f is None:
        raise EngineError('torch.linalg.cholesky_ex: no stub installed')
    r = f(a)
    return SymTensor(A.wrap(A.plain(r) if isinstance(r, A.SymArray) else r, a.dtype), torch_dtype(a.dtype)), torch.zeros(a.shape[:-2], dtype=torch.int32)


@handler('numpy', 'tolist', 'item', noshadow=True)
def _leave(a, *args, **kw):
    return a


@handler('__array__', noshadow=True)
def _array(a, dtype=None, **kw):
    """numpy ufunc with a tensor operand (`tensor * ndarray`): real torch hands numpy its buffer and re-wraps the result in
    __array_wrap__; here numpy runs its object loop over the symbolic elements"""
    if dtype is not None and np.dtype(dtype) != object:
        raise EngineError('conversion of a symbolic tensor to a typed ndarray')
    return A.plain(a) if isinstance(a, A.SymArray) else a


@handler('__array_wrap__', raw=True, noshadow=True)
def _array_wrap(t, array, *args, **kw):
    if not isinstance(array, np.ndarray):
        r0 = np.empty((), dtype=object)
        r0[()] = array
        array = r0
    if array.dtype != object:
        return SymTensor(A.sym_array(array, array.dtype))
    return SymTensor(A.wrap(array))


STUBS = {}


# --------------------------------------------------------------------------------------------- module facade
def _const_tensor(v):
    def f(*size, dtype=None, device=None, requires_grad=False, **kw):
        shape = _shape_args(size)
        td = dtype if dtype is not None else torch.get_default_dtype()
        sd = np_dtype(td)
        out = np.empty(shape, dtype=object)
        out.reshape(-1)[:] = [A.typed_const(v, sd)] * out.size
        return SymTensor(A.wrap(out, sd), td)
    return f


def torch_facade(stubs=None, extra=None):
    """facade of the torch module for numqi modules: constructors of tensors that may later be written in place return
    SymTensors of constants; everything else is the real torch (SymTensor arguments are intercepted by __torch_function__)"""
    STUBS.clear()
    STUBS.update(stubs or {})
    def eye(n, m=None, dtype=None, device=None, requires_grad=False, **kw):
        td = dtype if dtype is not None else torch.get_default_dtype()
        c = np.eye(n, m, dtype=np_dtype(td))
        return SymTensor(A.sym_array(c, c.dtype), td)
    over = {'zeros': _const_tensor(0), 'ones': _const_tensor(1), 'empty': _const_tensor(0), 'eye': eye}
    if extra:
        over.update(extra)
    return _facade.Facade(torch, over, 'torch')


def tensor(sym, tdtype=None):
    return SymTensor(sym, tdtype)
