"""Solver back end: IR -> z3 (in-process, for path feasibility) and IR -> SMT-LIB2 -> z3 in forked workers
(for obligations, with hard time-outs)."""
import os
import sys
import time
import struct
import signal
import traceback
import multiprocessing as mp
from fractions import Fraction
import z3
from . import ir

# ---------------------------------------------------------------------------------------------
# in-process translation (explorer)
_RNE = None


def _rne():
    global _RNE
    if _RNE is None:
        _RNE = z3.RNE()
    return _RNE


class Z3Translator:
    def __init__(self):
        self.memo = {}

    def __call__(self, root):
        memo = self.memo
        if root.id in memo:
            return memo[root.id]
        for n in ir.topo([root]):
            if n.id in memo:
                continue
            memo[n.id] = self._one(n, [memo[a.id] for a in n.args])
        return memo[root.id]

    def _one(self, n, a):
        op, s = n.op, n.sort
        if op == 'var':
            if s == 'R':
                return z3.Real(n.val)
            if s == 'B':
                return z3.Bool(n.val)
            if s == 'F':
                return z3.FP(n.val, z3.Float64())
            return z3.BitVec(n.val, s[1])
        if op == 'const':
            if s == 'R':
                return z3.RealVal(str(n.val))
            if s == 'B':
                return z3.BoolVal(n.val)
            if s == 'F':
                return z3.FPVal(float.fromhex(n.val), z3.Float64())
            return z3.BitVecVal(n.val, s[1])
        if op == 'add':
            return a[0] + a[1]
        if op == 'sub':
            return a[0] - a[1]
        if op == 'mul':
            return a[0] * a[1]
        if op == 'div':
            return a[0] / a[1]
        if op == 'neg':
            return -a[0]
        if op == 'ite':
            return z3.If(a[0], a[1], a[2])
        if op == 'lt':
            return a[0] < a[1]
        if op == 'le':
            return a[0] <= a[1]
        if op == 'eq':
            return a[0] == a[1]
        if op == 'not':
            return z3.Not(a[0])
        if op == 'and':
            return z3.And(a[0], a[1])
        if op == 'or':
            return z3.Or(a[0], a[1])
        if op == 'xor':
            return z3.Xor(a[0], a[1])
        if op == 'bvadd':
            return a[0] + a[1]
        if op == 'bvsub':
            return a[0] - a[1]
        if op == 'bvmul':
            return a[0] * a[1]
        if op == 'bvand':
            return a[0] & a[1]
        if op == 'bvor':
            return a[0] | a[1]
        if op == 'bvxor':
            return a[0] ^ a[1]
        if op == 'bvudiv':
            return z3.UDiv(a[0], a[1])
        if op == 'bvurem':
            return z3.URem(a[0], a[1])
        if op == 'bvsdiv':
            return a[0] / a[1]
        if op == 'bvsrem':
            return z3.SRem(a[0], a[1])
        if op == 'bvsmod':
            return a[0] % a[1]
        if op == 'bvshl':
            return a[0] << a[1]
        if op == 'bvlshr':
            return z3.LShR(a[0], a[1])
        if op == 'bvashr':
            return a[0] >> a[1]
        if op == 'bvneg':
            return -a[0]
        if op == 'bvnot':
            return ~a[0]
        if op == 'bvult':
            return z3.ULT(a[0], a[1])
        if op == 'bvule':
            return z3.ULE(a[0], a[1])
        if op == 'bvslt':
            return a[0] < a[1]
        if op == 'bvsle':
            return a[0] <= a[1]
        if op == 'extract':
            return z3.Extract(n.val[0], n.val[1], a[0])
        if op == 'zext':
            return z3.ZeroExt(n.val, a[0])
        if op == 'sext':
            return z3.SignExt(n.val, a[0])
        if op == 'concat':
            return z3.Concat(a[0], a[1])
        if op == 'bv2real':
            return z3.ToReal(z3.BV2Int(a[0], is_signed=bool(n.val)))
        if op == 'to_fp_ubv':
            return z3.fpUnsignedToFP(_rne(), a[0], z3.Float64())
        if op == 'to_fp_sbv':
            return z3.fpSignedToFP(_rne(), a[0], z3.Float64())
        if op == 'fp.to_ubv':
            return z3.fpToUBV(z3.RTZ(), a[0], z3.BitVecSort(n.val))
        if op == 'fp.to_sbv':
            return z3.fpToSBV(z3.RTZ(), a[0], z3.BitVecSort(n.val))
        if op == 'fp.add':
            return z3.fpAdd(_rne(), a[0], a[1])
        if op == 'fp.sub':
            return z3.fpSub(_rne(), a[0], a[1])
        if op == 'fp.mul':
            return z3.fpMul(_rne(), a[0], a[1])
        if op == 'fp.div':
            return z3.fpDiv(_rne(), a[0], a[1])
        if op == 'fp.sqrt':
            return z3.fpSqrt(_rne(), a[0])
        if op == 'fp.neg':
            return z3.fpNeg(a[0])
        if op == 'fp.abs':
            return z3.fpAbs(a[0])
        if op == 'fp.lt':
            return z3.fpLT(a[0], a[1])
        if op == 'fp.leq':
            return z3.fpLEQ(a[0], a[1])
        if op == 'fp.eq':
            return z3.fpEQ(a[0], a[1])
        if op == 'fp.isNaN':
            return z3.fpIsNaN(a[0])
        if op == 'fp.isInfinite':
            return z3.fpIsInf(a[0])
        if op == 'fp.isZero':
            return z3.fpIsZero(a[0])
        if op == 'fp.isNegative':
            return z3.fpIsNegative(a[0])
        raise NotImplementedError(op)


def model_value(m, v):
    """python value of z3 constant v in model m (None if unassigned)"""
    x = m.eval(v, model_completion=True)
    if z3.is_bool(x):
        return z3.is_true(x) if (z3.is_true(x) or z3.is_false(x)) else None
    if z3.is_bv(x):
        return x.as_long() if z3.is_bv_value(x) else None
    if z3.is_fp(x):
        bits = m.eval(z3.fpToIEEEBV(x), model_completion=True)
        if z3.is_bv_value(bits):
            return struct.unpack('>d', struct.pack('>Q', bits.as_long()))[0]
        return float('nan')
    if z3.is_rational_value(x):
        return Fraction(x.numerator_as_long(), x.denominator_as_long())
    if z3.is_algebraic_value(x):
        a = x.approx(30)
        return Fraction(a.numerator_as_long(), a.denominator_as_long())
    return None


def _decls_by_name(s):
    out = {}
    for a in s.assertions():
        stack = [a]
        seen = set()
        while stack:
            e = stack.pop()
            if e.get_id() in seen:
                continue
            seen.add(e.get_id())
            if z3.is_const(e) and e.decl().kind() == z3.Z3_OP_UNINTERPRETED:
                out[e.decl().name()] = e
            else:
                stack.extend(e.children())
    return out


def check_smt(text, timeout_s, want_model=True):
    """decide one SMT-LIB script with z3; returns (verdict, model dict, seconds)"""
    t0 = time.time()
    zctx = z3.Context()        # private context per query: nothing accumulates in a long-lived worker
    s = z3.Solver(ctx=zctx)
    s.set('timeout', int(timeout_s * 1000))
    s.from_string(text)
    r = s.check()
    verdict = str(r)
    model = {}
    if verdict == 'sat' and want_model:
        m = s.model()
        for d in m.decls():
            if d.arity() == 0:
                try:
                    val = model_value(m, d())
                except Exception:
                    val = None
                if val is not None:
                    model[d.name()] = val
        del m
    del s, r, zctx
    return verdict, model, time.time() - t0


# ---------------------------------------------------------------------------------------------
class Obligation:
    """kind 'forall': assumptions => claim must be valid (query: assumptions and not claim; unsat = holds)
       kind 'exists': assumptions and claim must be satisfiable (sat = holds, model = witness)
       kind 'reach' : reachability twin: assumptions must be satisfiable (vacuity guard)"""
    __slots__ = ('name', 'assume', 'claim', 'kind', 'meta', 'verdict', 'model', 'seconds', 'ground', 'error', 'key')

    def __init__(self, name, assume, claim, kind='forall', meta=None, key=None):
        self.name = name
        self.assume = list(assume)
        self.claim = claim
        self.kind = kind
        self.meta = meta or {}
        self.key = key or name
        self.verdict = None
        self.model = None
        self.seconds = 0.0
        self.error = None
        q = self.query()
        self.ground = not any(True for _ in ir.variables(q))

    def query(self):
        if self.kind == 'forall':
            return self.assume + [ir.bnot(self.claim)]
        if self.kind in ('exists', 'probe'):
            return self.assume + [self.claim]
        return self.assume

    @property
    def holds(self):
        if self.kind == 'forall':
            return self.verdict == 'unsat'
        return self.verdict == 'sat'

    @property
    def refuted(self):
        if self.kind == 'forall':
            return self.verdict == 'sat'
        return self.verdict == 'unsat'

    def smt(self, get_model=False):
        return ir.to_smt(self.query(), get_model=get_model)


def _solve_one(ob, timeout_s):
    q = ob.query()
    # trivial cases decided by constant folding are still sent through the solver as ground formulas,
    # but skip the process of building huge text for literal true/false
    text = ir.to_smt(q)
    return check_smt(text, min(timeout_s, ob.meta.get('timeout_s', timeout_s)))


def _worker(conn, obls, idxs, timeout_s):
    try:
        for i in idxs:
            conn.send(('start', i, time.time()))
            try:
                v, m, t = _solve_one(obls[i], timeout_s)
                conn.send(('done', i, v, m, t, None))
            except Exception as e:  # z3 parse errors etc: inconclusive
                conn.send(('done', i, 'error', {}, 0.0, f'{type(e).__name__}: {e}'))
        conn.send(('exit',))
    except BaseException:
        try:
            conn.send(('crash', traceback.format_exc()))
        except Exception:
            pass
    finally:
        conn.close()
        os._exit(0)


def solve_all(obls, nproc=None, timeout_s=60, hard_factor=1.5, progress=None):
    """decide all obligations in forked workers; fills verdict/model/seconds in place.

    A worker that overshoots the solver's soft time-out by hard_factor (+5 s) is killed; the obligation it
    was working on is 'unknown'."""
    nproc = nproc or min(16, os.cpu_count() or 1)
    n = len(obls)
    if n == 0:
        return
    ctx = mp.get_context('fork')
    # bigger obligations first; round-robin over workers for balance
    size = [0] * n
    order = list(range(n))
    nw = max(1, min(nproc, n))
    queues = [order[k::nw] for k in range(nw)]
    workers = []

    def spawn(idxs):
        if not idxs:
            return None
        pc, cc = ctx.Pipe(duplex=False)
        p = ctx.Process(target=_worker, args=(cc, obls, idxs, timeout_s), daemon=True)
        p.start()
        cc.close()
        return {'p': p, 'conn': pc, 'todo': list(idxs), 'cur': None, 't0': None}
    for q in queues:
        w = spawn(q)
        if w:
            workers.append(w)
    hard = timeout_s * hard_factor + 5
    done = 0
    while workers:
        from multiprocessing.connection import wait
        ready = wait([w['conn'] for w in workers], timeout=1.0)
        now = time.time()
        for w in list(workers):
            if w['conn'] in ready:
                try:
                    while w['conn'].poll():
                        msg = w['conn'].recv()
                        if msg[0] == 'start':
                            w['cur'] = msg[1]
                            w['t0'] = msg[2]
                        elif msg[0] == 'done':
                            _, i, v, m, t, err = msg
                            ob = obls[i]
                            ob.verdict, ob.model, ob.seconds, ob.error = v, m, t, err
                            if i in w['todo']:
                                w['todo'].remove(i)
                            w['cur'] = None
                            done += 1
                            if progress:
                                progress(done, n)
                        elif msg[0] == 'exit':
                            w['p'].join(1)
                            workers.remove(w)
                            break
                        elif msg[0] == 'crash':
                            raise RuntimeError('solver worker crashed:\n' + msg[1])
                except EOFError:
                    # worker died (e.g. out of memory): current obligation unknown, respawn for the rest
                    cur = w['cur']
                    rest = [i for i in w['todo'] if i != cur]
                    if cur is not None:
                        obls[cur].verdict, obls[cur].seconds, obls[cur].error = 'unknown', now - (w['t0'] or now), 'worker died'
                        done += 1
                    elif w['todo'] and not rest == w['todo']:
                        pass
                    workers.remove(w)
                    w['p'].join(1)
                    if cur is None and w['todo']:
                        # died between obligations: mark the next one unknown to guarantee progress
                        i = w['todo'][0]
                        obls[i].verdict, obls[i].error = 'unknown', 'worker died'
                        rest = w['todo'][1:]
                        done += 1
                    nw_ = spawn(rest)
                    if nw_:
                        workers.append(nw_)
                    continue
            if w in workers and w['cur'] is not None and now - w['t0'] > hard:
                cur = w['cur']
                try:
                    w['p'].kill()
                except Exception:
                    pass
                w['p'].join(1)
                obls[cur].verdict, obls[cur].seconds, obls[cur].error = 'unknown', now - w['t0'], 'hard time-out'
                done += 1
                rest = [i for i in w['todo'] if i != cur]
                workers.remove(w)
                nw_ = spawn(rest)
                if nw_:
                    workers.append(nw_)
    for ob in obls:
        if ob.verdict is None:
            ob.verdict = 'unknown'
            ob.error = ob.error or 'not run'
