"""Check driver: collects obligations, discharges them, replays counterexamples, applies the
known-findings list, writes evidence, decides the exit code.

exit 0  every claimed obligation discharged (or matched a listed known finding)
exit 1  a counterexample that REPRODUCED on the real code with real NumPy   (prints VIOLATION ...)
exit 2  harness-inconclusive: unknown / time-out / unmodelled operation / counterexample that did not replay
"""
import os
import sys
import json
import time
import traceback
from fractions import Fraction
from . import ir
from . import solve
from . import scalars as S

ROOT = os.path.dirname(os.path.dirname(os.path.abspath(__file__)))
EVID = os.path.join(ROOT, 'evidence')
REPLAY = os.path.join(EVID, 'replay')
KNOWN = os.path.join(ROOT, 'known_findings.json')


def jsonable(x):
    import numpy as np
    if isinstance(x, Fraction):
        return float(x) if x.denominator > 10**6 else (int(x) if x.denominator == 1 else f'{x.numerator}/{x.denominator}')
    if isinstance(x, dict):
        return {str(k): jsonable(v) for k, v in x.items()}
    if isinstance(x, (list, tuple, set)):
        return [jsonable(v) for v in x]
    if isinstance(x, np.ndarray):
        return jsonable(x.tolist())
    if isinstance(x, (np.integer,)):
        return int(x)
    if isinstance(x, (np.floating,)):
        return float(x)
    if isinstance(x, complex):
        return [x.real, x.imag]
    if isinstance(x, (np.complexfloating,)):
        return [float(x.real), float(x.imag)]
    if isinstance(x, (np.bool_,)):
        return bool(x)
    if isinstance(x, float):
        if x != x or x in (float('inf'), float('-inf')):
            return repr(x)
        return x
    if isinstance(x, (int, str, bool)) or x is None:
        return x
    return repr(x)


def load_known(pid):
    try:
        with open(KNOWN) as f:
            data = json.load(f)
    except FileNotFoundError:
        return {}, []
    known = {}
    fixed = []
    for e in data.get('findings', []):
        if e.get('property') != pid:
            continue
        if e.get('status') == 'known':
            known[e['key']] = e
        else:
            fixed.append(e)
    return known, fixed


class Check:
    def __init__(self, pid, tier='quick', seed=0, level='other'):
        self.pid = pid
        self.tier = tier
        self.seed = seed
        self.level = level
        self.t0 = time.time()
        self.obls = []
        self.functions = []
        self.bounds = {}
        self.stubs = []
        self.assumptions = []
        self.outside = []
        self.samples = []
        self.configurations = 0
        self.paths = 0
        self.feasibility_queries = 0
        self.explore_s = 0.0
        self.validation_inputs = 0
        self.validation_failures = []
        self.replayers = {}
        self.engine_errors = []
        self.violations = []       # reproduced, not known
        self.known_hits = []       # reproduced, listed
        self.violation_counts = {}
        self.unreproduced = []
        self.extra = {}
        self.known, self.fixed = load_known(pid)
        self.mutation_smoke = []

    # ---- declaration helpers
    def fn(self, *names):
        for n in names:
            if n not in self.functions:
                self.functions.append(n)

    def bound(self, **kw):
        self.bounds.update(kw)

    def stub(self, s):
        if s not in self.stubs:
            self.stubs.append(s)

    def assume(self, s):
        if s not in self.assumptions:
            self.assumptions.append(s)

    def out_of_claim(self, s):
        if s not in self.outside:
            self.outside.append(s)

    def notes_from(self, ctx_or_path):
        for n in getattr(ctx_or_path, 'notes', []):
            self.assume('model: ' + n)

    def add(self, name, assume, claim, kind='forall', meta=None, key=None, replay=None, fallback_payloads=None, timeout_s=None):
        """register an obligation.  replay: name of a registered replayer + payload builder (model -> payload)"""
        if isinstance(claim, S.SB):
            claim = claim.n
        assume = [a.n if isinstance(a, S.SB) else a for a in assume]
        soft = kind == 'probe_forall'     # a universal obligation whose 'unknown' is tolerated (still a violation when refuted and replayed)
        if soft:
            kind = 'forall'
        ob = solve.Obligation(name, assume, claim, kind, meta, key)
        ob.meta['soft'] = soft
        if timeout_s is not None:
            ob.meta['timeout_s'] = timeout_s
        ob.meta['replay'] = replay
        ob.meta['fallback_payloads'] = fallback_payloads
        self.obls.append(ob)
        return ob

    def add_path_stats(self, stats):
        self.paths += stats.get('paths', 0)
        self.feasibility_queries += stats.get('feasibility_queries', 0)
        self.explore_s += stats.get('solver_s', 0.0)
        if stats.get('unknown_feasibility'):
            self.assume(f"{stats['unknown_feasibility']} path-feasibility queries were 'unknown' and treated as feasible (more paths, same verdicts)")

    def engine_error(self, where, e):
        self.engine_errors.append(f'{where}: {type(e).__name__}: {e}')

    def validation(self, n_inputs, failures=()):
        self.validation_inputs += n_inputs
        self.validation_failures.extend(failures)

    def register_replayer(self, name, fn):
        self.replayers[name] = fn

    # ---- direct finding (exception on a feasible path etc.), already reproduced by the caller
    def report_reproduced(self, key, what, payload, replayer):
        self._classify(key, what, payload, replayer)

    def _classify(self, key, what, payload, replayer):
        os.makedirs(REPLAY, exist_ok=True)
        if key in self.known:
            if key not in [k for k, _ in self.known_hits]:
                self.known_hits.append((key, what))
            return
        self.violation_counts[key] = self.violation_counts.get(key, 0) + 1
        if self.violation_counts[key] > 2:
            return   # same finding key: keep the first two replays only
        idx = len(self.violations)
        path = os.path.join(REPLAY, f'{self.pid}-{idx}.json')
        with open(path, 'w') as f:
            json.dump({'property': self.pid, 'key': key, 'what': what, 'replayer': replayer,
                       'payload': jsonable(payload)}, f, indent=1)
        self.violations.append((key, what, path))

    # ---- solve + replay
    def _auto_reach(self):
        """vacuity guard for every distinct assumption set of the universal obligations that has no explicit reachability twin:
        a *soft* twin (only a definite 'unsat' counts as vacuous; 'unknown' within its short budget is tolerated and reported)"""
        have = set()
        for o in self.obls:
            if o.kind == 'reach':
                have.add(frozenset(a.id for a in o.assume))
        seen = set()
        for o in list(self.obls):
            if o.kind != 'forall' or o.verdict is not None or not o.assume or o.meta.get('no_auto_reach'):
                continue
            key = frozenset(a.id for a in o.assume)
            if key in seen or key in have:
                continue
            seen.add(key)
            if any(key <= h for h in have):      # a twin with a superset of these assumptions is already satisfiable-checked
                continue
            tw = solve.Obligation('auto-reach: ' + o.name, o.assume, ir.TRUE, 'reach', None, None)
            if tw.ground:
                continue
            tw.meta['soft'] = False
            tw.meta['soft_reach'] = True
            tw.meta['replay'] = None
            tw.meta['fallback_payloads'] = None
            tw.meta['timeout_s'] = 20
            self.obls.append(tw)

    def solve(self, timeout_s=60, nproc=None):
        if os.environ.get('VERIF_NO_AUTO_REACH') != '1':
            self._auto_reach()
        todo = [o for o in self.obls if o.verdict is None]
        if not todo:
            return
        solve.solve_all(todo, nproc=nproc, timeout_s=timeout_s)
        for ob in todo:
            if ob.refuted and ob.kind not in ('probe', 'reach'):
                self._handle_refuted(ob)
            elif ob.kind == 'forall' and not ob.holds and ob.meta.get('fallback_payloads'):
                # solver inconclusive: directed concrete probing of the real code (can only turn 'unknown' into a replayed violation,
                # never into a pass)
                rname = ob.meta['replay'][0]
                for payload in ob.meta['fallback_payloads']:
                    try:
                        ok, what = self.replayers[rname](payload)
                    except Exception as e:
                        continue
                    if ok:
                        self.extra.setdefault('violations_found_by_concrete_probing_after_solver_unknown', []).append(ob.name)
                        self._classify(ob.key, f'{ob.name}: {what} (solver verdict: {ob.verdict}; found by directed concrete probing)', payload, rname)
                        ob.verdict = 'sat'
                        break

    # ---- partitioned exploration: each task explores + decides its own obligations in a forked child
    def run_partitioned(self, tasks, timeout_s=60, nproc=None):
        """tasks: list of (label, fn); fn(sub) registers obligations on the sub-check `sub` (same API as this object).
        Every task runs in a forked child (fork pool, nproc at a time): the child explores, decides each obligation with an
        in-process z3 query (fresh context per query) and builds the replay payload of refuted ones; the parent merges the
        decided obligations (and replays counterexamples itself)."""
        import multiprocessing as mp
        global _PART
        nproc = nproc or min(16, os.cpu_count() or 1)
        _PART = (self, tasks, timeout_s)
        ctx = mp.get_context('fork')
        with ctx.Pool(min(nproc, max(1, len(tasks)))) as pool:
            for rec in pool.imap_unordered(_part_worker, range(len(tasks)), chunksize=1):
                if rec.get('crash'):
                    self.engine_errors.append(f"partition {rec['label']}: {rec['crash']}")
                    continue
                self.paths += rec['paths']
                self.feasibility_queries += rec['feasibility_queries']
                self.explore_s += rec['explore_s']
                self.configurations += rec['configurations']
                self.engine_errors.extend(rec['engine_errors'])
                for a in rec['assumptions']:
                    if a not in self.assumptions:
                        self.assumptions.append(a)
                for r in rec['obls']:
                    ob = DoneObligation(r)
                    self.obls.append(ob)
                    if ob.refuted and ob.kind not in ('probe', 'reach'):
                        self._handle_refuted(ob)
        _PART = None

    def _handle_refuted(self, ob):
        rp = ob.meta.get('replay')
        if rp is None:
            self.unreproduced.append((ob.name, 'no replayer registered'))
            return
        rname, build = rp
        try:
            payload = build(ob.model or {}) if callable(build) else build
            ok, what = self.replayers[rname](payload)
        except Exception as e:
            self.unreproduced.append((ob.name, f'replay crashed: {type(e).__name__}: {e}'))
            return
        if ok:
            self._classify(ob.key, f'{ob.name}: {what}', payload, rname)
        else:
            self.unreproduced.append((ob.name, f'counterexample did not reproduce on the real code: {what}'))

    # ---- finish
    def finish(self):
        obls = self.obls
        n = len(obls)
        ground = sum(1 for o in obls if o.ground)
        reach = [o for o in obls if o.kind == 'reach']
        probes = [o for o in obls if o.kind == 'probe']
        claims = [o for o in obls if o.kind not in ('reach', 'probe')]
        discharged = sum(1 for o in claims if o.holds)
        refuted = [o for o in claims if o.refuted]
        inconcl = [o for o in claims if not o.holds and not o.refuted and not o.meta.get('soft')]
        soft_unknown = [o for o in claims if not o.holds and not o.refuted and o.meta.get('soft')]
        vacuous = [o for o in reach if (o.verdict == 'unsat' if o.meta.get('soft_reach') else o.verdict != 'sat')]
        reach_unknown = [o for o in reach if o.meta.get('soft_reach') and o.verdict not in ('sat', 'unsat')]
        solver_s = sum(o.seconds for o in obls)
        distinct = len({o.name for o in claims if not o.ground})
        # sample obligations: first few non-ground, with query excerpt
        samples = list(self.samples)
        shown = 0
        for o in claims:
            if o.ground:
                continue
            txt = o.smt()
            samples.append({'obligation': o.name, 'kind': o.kind, 'verdict': o.verdict, 'seconds': round(o.seconds, 3),
                            'smt2_chars': len(txt), 'smt2_excerpt': txt[:600] + (' ...' if len(txt) > 600 else '')})
            shown += 1
            if shown >= 3:
                break
        for o in refuted[:5]:
            samples.append({'obligation': o.name, 'verdict': o.verdict, 'counterexample': jsonable(o.model)})
        if not samples:
            samples.append({'note': 'no obligations were generated'})
        known_keys_hit = {k for k, _ in self.known_hits}
        stale_known = [k for k in self.known if k not in known_keys_hit]
        status = 0
        lines = []
        for key, what in self.known_hits:
            lines.append(f'KNOWN-FINDING: property={self.pid} {key}: {what}')
        for key, what, path in self.violations:
            lines.append(f'VIOLATION property={self.pid} replay={path}')
            lines.append(f'  {key}: {what}  (failing obligations with this key: {self.violation_counts.get(key, 1)})')
            status = 1
        incon_msgs = []
        if inconcl:
            incon_msgs.append(f'{len(inconcl)} obligations inconclusive (unknown/time-out/error): ' + ', '.join(f'{o.name}[{o.verdict}{":" + o.error if o.error else ""}]' for o in inconcl[:8]))
        if vacuous:
            incon_msgs.append(f'{len(vacuous)} reachability twins not satisfiable (vacuous assumptions): ' + ', '.join(o.name for o in vacuous[:8]))
        if self.unreproduced:
            incon_msgs.append('counterexamples that did not replay: ' + '; '.join(f'{a}: {b}' for a, b in self.unreproduced[:8]))
        if self.engine_errors:
            incon_msgs.append('engine errors: ' + '; '.join(self.engine_errors[:8]))
        if self.validation_failures:
            incon_msgs.append('encoding validation failed: ' + '; '.join(map(str, self.validation_failures[:8])))
        if stale_known:
            incon_msgs.append('listed known findings that no longer reproduce (remove or mark fixed): ' + ', '.join(stale_known))
        if n == 0 and not self.known_hits and not self.violations:
            incon_msgs.append('no obligations generated')
        if incon_msgs and status == 0:
            status = 2
        wall = time.time() - self.t0
        explanation = (
            'Bounded solver verdicts over the real numqi code executed symbolically (symnp engine: NumPy object arrays '
            'whose elements carry z3 terms; numqi functions run unmodified, module global `np` rebound to a facade for '
            'typed constructors/stubs). Each obligation is one SMT query (z3 %s) regenerated from /repo on this run; '
            '"discharged" = unsat of assumptions & not(claim) for universal obligations, sat (+replayed witness) for existential ones. '
            'Values are symbolic; sizes/index configurations are enumerated within the stated bounds; everything outside the bounds is outside the claim.'
            % _z3_version())
        cov = {
            'explanation': explanation,
            'obligations': len(claims) - len(soft_unknown),
            'discharged': discharged,
            'inconclusive': len(inconcl),
            'refuted': len(refuted),
            'ground_obligations': ground,
            'reachability_twins': len(reach),
            'auto_reachability_twins_unknown': len(reach_unknown),
            'probe_queries': len(probes),
            'soft_obligations_unknown': [o.name for o in soft_unknown],
            'evaluations': n + self.feasibility_queries,
            'distinct_nontrivial': distinct,
            'rule': 'one evaluation = one SMT query (obligation, reachability twin or path-feasibility query); an obligation is non-trivial if its formula mentions at least one symbolic variable (ground obligations and twins are not counted); distinct by obligation name (function+configuration+output entry)',
            'samples': samples,
            'configurations': self.configurations,
            'paths': self.paths,
            'path_feasibility_queries': self.feasibility_queries,
            'solver_s': round(solver_s + self.explore_s, 3),
            'functions_encoded': self.functions,
            'bounds': jsonable(self.bounds),
            'stubs': self.stubs,
            'outside_claim': self.outside,
            'encoding_validation_inputs': self.validation_inputs,
            'known_findings_reconfirmed': [k for k, _ in self.known_hits],
            'fixed_findings_guarded': [e.get('key') for e in self.fixed],
            'mutation_smoke': self.mutation_smoke,
            'inconclusive_detail': incon_msgs,
            'exhaustive': False,
        }
        cov.update(jsonable(self.extra))
        ev = {
            'property_id': self.pid, 'tier': self.tier, 'seed': int(self.seed), 'level': self.level,
            'coverage': cov,
            'assumptions': self.assumptions + ['array arithmetic modelled over exact reals (floats treated as reals) unless a sub-claim says binary64',
                                                'z3 is trusted; SMT-LIB emission and the symbolic scalar semantics are validated against real NumPy on concrete inputs each run'],
            'wall_s': round(wall, 3),
            'violations': sum(self.violation_counts.values()),
        }
        os.makedirs(EVID, exist_ok=True)
        with open(os.path.join(EVID, f'{self.pid}.json'), 'w') as f:
            json.dump(ev, f, indent=1)
        if os.environ.get('VERIF_DEBUG'):
            for o in sorted(obls, key=lambda o: -o.seconds)[:40]:
                print(f'  slow: {o.seconds:7.2f}s {str(o.verdict):8s} {o.name}')
        for l in lines:
            print(l)
        for m in incon_msgs:
            print('INCONCLUSIVE:', m)
        print(f'[{self.pid}] tier={self.tier} obligations={len(claims)} discharged={discharged} refuted={len(refuted)} '
              f'inconclusive={len(inconcl)} ground={ground} paths={self.paths} known={len(self.known_hits)} '
              f'violations={len(self.violations)} solver_s={solver_s:.1f} explore_solver_s={self.explore_s:.1f} wall_s={wall:.1f} -> exit {status}')
        return status


_PART = None


class DoneObligation:
    """an obligation decided in a partition child (only what the report needs)"""

    def __init__(self, r):
        self.name, self.kind, self.verdict, self.model = r['name'], r['kind'], r['verdict'], r['model']
        self.seconds, self.ground, self.error, self.key = r['seconds'], r['ground'], r['error'], r['key']
        self.meta = {'soft': r['soft'], 'replay': r['replay'], 'fallback_payloads': None}
        self._smt = r['smt']
        self.assume = []          # decided in a partition child: nothing left to guard here (the child adds its own twins)

    @property
    def holds(self):
        return self.verdict == ('unsat' if self.kind == 'forall' else 'sat')

    @property
    def refuted(self):
        return self.verdict == ('sat' if self.kind == 'forall' else 'unsat')

    def smt(self, get_model=False):
        return self._smt


def _part_worker(i):
    import copy
    import traceback
    parent, tasks, timeout_s = _PART
    label, fn = tasks[i]
    try:
        sub = copy.copy(parent)
        sub.obls, sub.engine_errors, sub.assumptions = [], [], []
        sub.paths = sub.feasibility_queries = sub.configurations = 0
        sub.explore_s = 0.0
        fn(sub)
        out = []
        for ob in sub.obls:
            try:
                v, m, t = solve._solve_one(ob, timeout_s)
                err = None
            except Exception as e:
                v, m, t, err = 'error', {}, 0.0, f'{type(e).__name__}: {e}'
            ob.verdict, ob.model, ob.seconds, ob.error = v, m, t, err
            rp = ob.meta.get('replay')
            if rp is not None and callable(rp[1]):
                rp = (rp[0], rp[1](m or {})) if ob.refuted else (rp[0], None)
            txt = ''
            if not ob.ground and len(out) < 2:
                txt = ob.smt()[:600]
            out.append({'name': ob.name, 'kind': ob.kind, 'verdict': v, 'model': jsonable(m) if ob.refuted else None, 'seconds': t, 'ground': ob.ground, 'error': err,
                        'key': ob.key, 'soft': ob.meta.get('soft', False), 'replay': jsonable(rp) if rp is not None else None, 'smt': txt})
        return {'label': label, 'obls': out, 'paths': sub.paths, 'feasibility_queries': sub.feasibility_queries, 'explore_s': sub.explore_s,
                'configurations': sub.configurations, 'engine_errors': sub.engine_errors, 'assumptions': sub.assumptions}
    except BaseException:
        return {'label': label, 'crash': traceback.format_exc()[-600:]}


def _z3_version():
    import z3
    return z3.get_version_string()
