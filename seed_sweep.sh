#!/bin/bash
# ./seed_sweep.sh [ids...] : regression of detection power. For every stored seed: fresh scratch worktree of /repo at HEAD, apply seeded/<id>/patch.diff,
# run the quick check of its property with numqi imported from that worktree (PYTHONPATH; /repo itself is never touched), expect exit 1.
# Writes one line per seed to stdout. (C08's CrossHair leg reads /repo/python directly and is therefore not exercised here.)
cd "$(dirname "$0")"
ids=${@:-$(ls seeded | grep -v SWEEP)}
for id in $ids; do
  prop=${id:0:3}; [ "$id" = C13b ] && prop=C01      # C13b lives in the Stiefel polar chart, which C13 takes as a hypothesis and C01 checks
  wt=/tmp/sweep_$id; git -C /repo worktree remove --force $wt 2>/dev/null; rm -rf $wt
  git -C /repo worktree add -q --detach $wt HEAD || { echo "$id worktree failed"; continue; }
  cp /repo/python/numqi/_version.py $wt/python/numqi/ 2>/dev/null
  if ! git -C $wt apply /verif/seeded/$id/patch.diff 2>/dev/null; then echo "$id patch does not apply"; git -C /repo worktree remove --force $wt; continue; fi
  cp evidence/$prop.json /tmp/sweep_evidence_$id.json 2>/dev/null
  PYTHONPATH=$wt/python timeout 3000 ./check $prop --tier quick > /tmp/sweep_$id.log 2>&1; rc=$?
  cp /tmp/sweep_evidence_$id.json evidence/$prop.json 2>/dev/null; rm -f /tmp/sweep_evidence_$id.json
  echo "$id -> ./check $prop exit $rc  ($(grep -c '^VIOLATION' /tmp/sweep_$id.log) violations)"
  git -C /repo worktree remove --force $wt
done
