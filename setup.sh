#!/bin/bash
# builds /verif/.venv: a venv of /venv/bin/python that sees /venv's site-packages, plus z3/crosshair/cvc5 from the offline wheelhouse
set -e
cd "$(dirname "$0")"
if [ -x .venv/bin/python ] && .venv/bin/python -c "import z3, numpy, numqi, crosshair" 2>/dev/null; then exit 0; fi
exec 9>.venv.lock
flock 9
if [ -x .venv/bin/python ] && .venv/bin/python -c "import z3, numpy, numqi, crosshair" 2>/dev/null; then exit 0; fi
rm -rf .venv
/venv/bin/python -m venv .venv
echo "import site; site.addsitedir('/venv/lib/python3.12/site-packages')" > .venv/lib/python3.12/site-packages/_base.pth
PIP_NO_INDEX=1 .venv/bin/pip install -q --no-index --find-links /opt/veriftools/wheels z3-solver crosshair-tool cvc5
.venv/bin/python -c "import z3, numpy, numqi, crosshair"
