#!/bin/bash
# regression: every claimed check, quick tier, sequentially; prints the summary lines
cd "$(dirname "$0")"
tier=${1:-quick}
for id in $(python3 -c "import json;print(' '.join(c['property_id'] for c in json.load(open('MANIFEST.json'))['checks']))"); do
  /usr/bin/time -f "$id wall=%es" ./check $id --tier $tier 2>&1 | grep -E "^\[$id\]|^VIOLATION|^KNOWN|^INCONCLUSIVE|wall=" | cut -c1-260
done
